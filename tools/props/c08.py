"""C08 literal values reach the database unchanged and cannot alter the statement."""
import itertools, json, math, re, sqlite3, struct, time
from collections import Counter
import vlib
from vlib import vh_batch, drv_batch, enc, dec
from props.c17 import same as lex_same

MANIFEST = dict(
    text="Lean theorems over the verified lexer mirror (Model/Lex) and a mirror of how prqlc prints an SQL string literal (the value with "
         "every quote doubled, handed to sqlparser's EscapeQuotedString printer, which is mirrored too): every documented escape decodes to "
         "its character and every string value has a spelling that decodes to it (prql_string_value, prql_quote_roundtrip); doubling followed by "
         "sqlparser's 'may already be escaped' printer is plain quote doubling (sql_quote_eq_doubling) and the emitted literal is read back by the "
         "standard SQL string lexer as exactly the value, ending exactly where the emitter ended it, for EVERY string (sql_quote_roundtrip: the "
         "injection boundary; printer_alone_* record that sqlparser's printer without the doubling would not do); no doubling emitter is safe for "
         "a backslash-escaping reader (sql_quote_roundtrip_backslash_counterexample, open finding); decimal printing/parsing of every Int "
         "round-trips and decimal / hex / octal / binary spellings denote their positional value within the lexer's digit limits (int_roundtrip, "
         "prql_decimal_value, radix_value, with counterexamples for integers beyond i64); f-strings denote the concatenation of their parts "
         "(fstring_concat, fstring_fragment_roundtrip); relation literals evaluate to their rows (relation_literal). Tied to the code by: "
         "lexer value vs model for every quote style / escape form / raw string / f-string fragment of every string of length <= 3 over 13 "
         "significant characters and random Unicode strings; source-first grid of written forms (prefix x quote kind x 1-8 quotes x contents over "
         "quote / other quote / backslash / letter / braces / newline, runs of quotes shorter and longer than the delimiter) read by an independent "
         "reference reader of the documented syntax, by Model.Lex and through SQLite; emitted SQL text vs the model; ORACLE: the value SQLite returns for the emitted "
         "statement (one statement, one row, one column) must equal the denoted value byte for byte; per dialect (all 12) the emitted SQL is "
         "tokenised by sqlparser's tokenizer for that dialect and the literal must be exactly one string token with that value. CONTEXT GRID "
         "(tools/c08ctx.py): the literal as operand of every operator / std function / transform that takes text or numbers (??, == != < >= with a column and "
         "with another literal, !, &&, ||, case conditions and branches, text.replace / starts_with / contains / ends_with as subject and as pattern, "
         "upper / lower / trim / length / extract, ~=, in, as, f-string fragments and interpolated operands, s-string operands, filter, derive, sort / group "
         "keys, having, aggregate and window arguments, join conditions, relation literals, from_text, let constants, function parameters, append) x "
         "adversarial values (comment markers, quotes, backslashes, wildcards, braces, template markers, parameter markers, newlines, non-ASCII, very "
         "long) x spellings: the rows SQLite returns for the emitted statement (sql.sqlite, and sql.generic where it executes) must equal the rows of a Python "
         "model of the context; for all 12 dialects the token stream of the statement must be the token stream of the same context with a harmless "
         "placeholder value, the placeholder exchanged inside the string tokens. SPELLING EQUIVALENCE: every ordered pair of spellings of one string / "
         "integer / float (plain, raw, 3- and 5-quote, escaped, \\u{} / \\x, f-string; decimal, underscores, 0x / 0o / 0b; exponent forms) compared with "
         "== != < >= in, in case and filter (both operands literals: the compiler folds) must be equal; number spellings in arithmetic, ranges, take, "
         "lag, round; dates / times / timestamps in comparisons, coalesce, case, ranges, group keys. The time-zone rewrite of temporal literals on SQLite is mirrored (Model.Lit.sqliteTz): sqlite_tz_only_inserts_a_colon (the only thing it ever does is to put a colon into a final [+-]dddd; every other text, in particular every text shorter than five characters, is left as it is - the function is total), sqlite_tz_short, sqlite_tz_idempotent; tie: the private kernel vs the mirror on every string of length <= 6 over {+ - : 0 9 a} (cargo feature verif). Every value also goes through the FORMATTED output (the default of Options and of the CLI).",
    note="floats are compared through SQLite as f64 bit patterns (no IEEE model in Lean: floats are outside the theorems); dates and times "
         "are tied by correspondence only; the 11 non-SQLite dialects are judged by sqlparser's tokenizer for the dialect, not by a database. "
         "Fixed in /repo: the string printer's 'already escaped' heuristic (938f352). Open findings: backslash as data on backslash-escaping "
         "dialects, quotes on BigQuery, float overflow printed as `inf`, integers beyond i64 silently becoming floats, NUL inside a string, "
         "unparenthesised f-string operands on dialects without CONCAT, two written forms of one time / timestamp compared as text when the compiler "
         "folds `==` / `!=` of two literals. In the context grid `~=` is executed with REGEXP registered as string equality and sql.generic with CONCAT / "
         "CHAR_LENGTH registered as SQLite functions; date.to_text (a format language, no SQLite translation) is not a context.",
    technique="Lean 4 proof (lexer mirror + string printer mirror + SQL string lexers) + exhaustive small-scope and random differential runs "
              "against the real lexer/compiler, SQLite as value oracle, sqlparser tokenizers as per-dialect oracle", ref="4/C08")

ALPHA = ["'", '"', "\\", "\n", "-", "/", "*", ";", "{", "}", "é", "\U0001D11E", "a"]
ALL_DIALECTS = ["ansi", "bigquery", "clickhouse", "duckdb", "generic", "glaredb", "mssql", "mysql", "postgres", "redshift", "sqlite", "snowflake"]
# dialects whose sqlparser tokenizer treats `\` inside '…' as an escape (checked by a probe on every run)
BACKSLASH = {"bigquery", "clickhouse", "mysql", "redshift", "snowflake"}


# ---------------------------------------------------------------------------------------------------------------
# spellings of a string value in PRQL source
# ---------------------------------------------------------------------------------------------------------------

def esc(v, q, nl_escape=False):
    out = []
    for ch in v:
        if ch == "\\":
            out.append("\\\\")
        elif ch == q:
            out.append("\\" + q)
        elif ch == "\n" and nl_escape:
            out.append("\\n")
        else:
            out.append(ch)
    return "".join(out)


def esc_multi(v, q):
    """body of an n-quote string (n >= 3): backslashes escaped; a quote is escaped when it is first, last or follows a quote"""
    out, prevq = [], False
    for i, ch in enumerate(v):
        if ch == "\\":
            out.append("\\\\"); prevq = False
        elif ch == q:
            if i == 0 or i == len(v) - 1 or prevq:
                out.append("\\" + q)
            else:
                out.append(q)
            prevq = True
        else:
            out.append(ch); prevq = False
    return "".join(out)


def braces(v):
    return v.replace("{", "{{").replace("}", "}}")


def spellings(v, full=True):
    """[(style, source, token class)]; every source is meant to denote exactly `v` by the documentation"""
    r = [("sq", "'" + esc(v, "'") + "'", "String"), ("dq", '"' + esc(v, '"', nl_escape=True) + '"', "String")]
    if not full:
        return r
    if v:
        r.append(("sq3", "'''" + esc_multi(v, "'") + "'''", "String"))
        r.append(("dq3", '"""' + esc_multi(v, '"') + '"""', "String"))
        r.append(("sq5", "'''''" + esc_multi(v, "'") + "'''''", "String"))
    if "'" not in v:
        r.append(("sq-bare", "'" + v.replace("\\", "\\\\") + "'", "String"))      # the other quote needs no escape
    if '"' not in v:
        r.append(("dq-bare", '"' + v.replace("\\", "\\\\") + '"', "String"))
    if not any(c in v for c in "'\"\n\r"):
        r.append(("raw-dq", 'r"' + v + '"', "RawString"))
        r.append(("raw-sq", "r'" + v + "'", "RawString"))
    r.append(("unicode-escapes", '"' + "".join("\\u{%x}" % ord(c) for c in v) + '"', "String"))
    if all(ord(c) < 0x100 for c in v):
        r.append(("hex-escapes", "'" + "".join("\\x%02x" % ord(c) for c in v) + "'", "String"))
    r.append(("f-dq", 'f"' + esc(braces(v), '"') + '"', "F"))
    r.append(("f-sq", "f'" + esc(braces(v), "'", nl_escape=True) + "'", "F"))
    return r


def cps_dec(t):
    return "".join(chr(int(w)) for w in t.split(",") if w)


def single_token(line):
    """canonical lexc line -> (class, value) when the source is exactly Start + one token, else None"""
    if not line.startswith("ok "):
        return None
    toks = line.split(" ")[1:]
    if len(toks) != 2:
        return None
    parts = toks[1].split(":")
    if parts[1] == "Literal":
        return parts[2], parts[3] if len(parts) > 3 else ""
    if parts[1] == "Interpolation":
        return ("F" if parts[2] == str(ord("f")) else "S"), parts[3] if len(parts) > 3 else ""
    return parts[1], ":".join(parts[2:])


def classify_string(dialect, v):
    """finding classes (call site + predicate on the value).  Only ids that are `open` in known_findings.json excuse a failure: the
    class `sqlparser-already-escaped-heuristic` is fixed (938f352), so a failure that lands in it is reported as a violation again."""
    if dialect in BACKSLASH and "\\" in v:
        return "backslash-in-string-on-backslash-escaping-dialect"
    if dialect == "bigquery" and "'" in v:
        return "quote-in-string-on-bigquery"
    if "\x00" in v:
        return "nul-character-in-string"
    if "\\'" in v or "''" in v:
        return "sqlparser-already-escaped-heuristic"
    return None


STRING_CLASS_PRIORITY = ["backslash-in-string-on-backslash-escaping-dialect", "quote-in-string-on-bigquery", "nul-character-in-string",
                         "sqlparser-already-escaped-heuristic"]


def classify_strings(dialect, values):
    """one statement, several string values: the open, independently sufficient causes first; the fixed class only if nothing else applies"""
    cl = [classify_string(dialect, v) for v in values]
    return next((c for c in STRING_CLASS_PRIORITY if c in cl), None)


def sqlite_one(sql, setup=()):
    """execute exactly one statement; -> (column names, rows) or ('error', text)"""
    con = sqlite3.connect(":memory:")
    try:
        for s in setup:
            con.execute(s)
        cur = con.execute(sql)
        names = [d[0] for d in cur.description] if cur.description else []
        return names, [list(r) for r in cur.fetchall()]
    except Exception as e:
        return "error", f"{type(e).__name__}: {e}"
    finally:
        con.close()


SETUP = ["CREATE TABLE t (c TEXT, d TEXT)", "INSERT INTO t VALUES ('<C>', ';D''')"]
ENV = {"c": "<C>", "d": ";D'"}


def compile_req(prql, dialect="sqlite"):
    return {"op": "compile", "prql": prql, "target": "sql." + dialect, "format": False, "signature": False}


def sig_tokens(ans):
    """non-whitespace sqlparser tokens"""
    return [t for t in ans.get("tokens", []) if not (isinstance(t, dict) and "Whitespace" in t)]


def string_tokens(toks):
    out = []
    for t in toks:
        if isinstance(t, dict):
            for k, v in t.items():
                if "String" in k:
                    out.append((k, v if isinstance(v, str) else json.dumps(v)))
    return out


# ---------------------------------------------------------------------------------------------------------------
# suites
# ---------------------------------------------------------------------------------------------------------------

def suite_strings(ctx, values, dialects, label, full_spellings, stats):
    t0 = time.time()
    cases = []      # (v, style, src, cls)
    for v in values:
        for (style, src, cls) in spellings(v, full_spellings):
            cases.append((v, style, src, cls))
    B = 400
    srcs = [c[2] for c in cases]
    impl = []
    for a in vh_batch([{"op": "lexc", "srcs": srcs[i:i + B]} for i in range(0, len(srcs), B)]):
        impl += a.get("r", [])
    model = drv_batch([f"lex\t{enc(s)}" for s in srcs])
    nbad_lex = 0
    lexval = {}
    for (v, style, src, cls), i, m in zip(cases, impl, model):
        ctx.case(("lex", src))
        stats["styles"][style] += 1
        if not lex_same(i, m):
            nbad_lex += 1
            ctx.disagreement("lexer value", f"lex_source and Model.Lex.lex differ on the literal {src!r}", {"src": src, "impl": i, "model": m})
            continue
        st = single_token(i)
        want = braces(v) if cls == "F" else v
        if st is None or st[0] != cls or cps_dec(st[1]) != want:
            # the documented reading of the spelling is not what the lexer computes
            ctx.oracle_failure("string-spelling-misread", f"the {style} spelling {src!r} of {v!r} lexes to {i}",
                               {"src": src, "value": v, "style": style, "lexed": i})
            continue
        lexval[src] = v
    ctx.obligation(f"correspondence[{label}]: lexer value of every spelling = Model.Lex (and = the documented value)", nbad_lex == 0,
                   f"{len(cases)} spellings of {len(values)} values, {nbad_lex} disagreements")

    # SQL text (sqlite target) for every spelling vs model; value through SQLite
    good = [c for c in cases if c[2] in lexval]
    comp = vh_batch([compile_req(f"from t | select {{v = {src}}}") for (_, _, src, _) in good])
    uvals = list(dict.fromkeys(v for (v, _, _, _) in good))
    mq = dict(zip(uvals, drv_batch([f"sql_quote\t{enc(v)}" for v in uvals])))
    rest = " AS v FROM t"
    ml = dict(zip(uvals, drv_batch([f"sql_lex\tstd\t{(mq[v] + ' ' + enc(rest)).strip()}" for v in uvals])))
    nbad_sql, ran = 0, {}
    for (v, style, src, cls), a in zip(good, comp):
        ctx.case(("sql", src), nontrivial="sql" in a)
        if "sql" not in a:
            ctx.oracle_failure("string-literal-rejected", f"a documented string spelling does not compile: {src!r}", {"prql": f"from t | select {{v = {src}}}", "answer": a})
            continue
        expect = "SELECT " + dec(mq[v]) + rest
        if a["sql"] != expect:
            nbad_sql += 1
            ctx.disagreement("sql text", f"emitted SQL differs from Model.Lit.sqlQuote for value {v!r}", {"src": src, "sql": a["sql"], "model": expect})
        if a["sql"] in ran:
            continue
        res = sqlite_one(a["sql"], SETUP)
        ok = res[0] != "error" and res[0] == ["v"] and res[1] == [[v]]
        ran[a["sql"]] = ok
        model_ok = ml[v] == f"some {enc(v)}|{enc(rest)}"
        stats["sqlite_exec"] += 1
        if ok != model_ok and "\x00" not in v:      # a NUL ends the statement text at the API, not in the SQL lexer the model describes
            ctx.disagreement("sql_quote_roundtrip vs SQLite", f"model says the literal for {v!r} reads back {'correctly' if model_ok else 'wrongly'}, SQLite says otherwise",
                             {"value": v, "sql": a["sql"], "sqlite": res, "model": ml[v]})
        if not ok:
            fid = classify_string("sqlite", v)
            stats["fail"][("sqlite", fid)] += 1
            ctx.oracle_failure(fid, f"value {v!r} does not reach SQLite unchanged: {str(res)[:200]}",
                               {"prql": f"from t | select {{v = {src}}}", "dialect": "sqlite", "value": v, "sql": a["sql"], "observed": res})
    # the same values through the FORMATTED output (Options::default and the CLI format the SQL; the formatter works on the
    # statement text and must leave the inside of literals alone), with and without the signature comment
    first = {}
    for (v, style, src, cls), a in zip(good, comp):
        if "sql" in a and ran.get(a["sql"]) and v not in first:
            first[v] = src
    fvals = list(first)
    for sig in (False, True):
        fcomp = vh_batch([dict(compile_req(f"from t | select {{v = {first[v]}}}"), format=True, signature=sig) for v in fvals])
        for v, a in zip(fvals, fcomp):
            ctx.case(("sql-formatted", sig, first[v]), nontrivial="sql" in a)
            ctx.count(f"{label}:formatted-output" + (":signature" if sig else ""))
            if "sql" not in a:
                ctx.oracle_failure(None, f"the program compiles without formatting but not with it: {first[v]!r}", {"prql": f"from t | select {{v = {first[v]}}}", "answer": a})
                continue
            res = sqlite_one(a["sql"], SETUP)
            if not (res[0] != "error" and res[0] == ["v"] and res[1] == [[v]]):
                # listed finding: the SQL formatter (sqlformat) reads a backslash in front of a quote as an escape
                fid = "sql-formatter-backslash-before-quote" if re.search(r"\\+(?='|$)", v) or "\\'" in a["sql"] else None
                ctx.oracle_failure(fid, f"value {v!r} reaches SQLite unchanged in the unformatted output but not in the formatted one: {str(res)[:200]}",
                                   {"prql": f"from t | select {{v = {first[v]}}}", "dialect": "sqlite", "format": True, "signature": sig, "value": v, "sql": a["sql"], "observed": res})
    # the same spellings inside a relation literal: from [{v = <literal>}]
    rgood = [c for c in good if c[3] != "F"]
    rcomp = vh_batch([compile_req(f"from [{{v = {src}}}]") for (_, _, src, _) in rgood])
    for (v, style, src, cls), a in zip(rgood, rcomp):
        ctx.case(("rel-sql", src), nontrivial="sql" in a)
        if "sql" not in a:
            ctx.oracle_failure("string-literal-rejected", f"a documented string spelling does not compile inside a relation literal: {src!r}",
                               {"prql": f"from [{{v = {src}}}]", "answer": a})
            continue
        expect = "WITH table_0 AS (SELECT " + dec(mq[v]) + " AS v) SELECT v FROM table_0"
        if a["sql"] != expect:
            nbad_sql += 1
            ctx.disagreement("sql text (relation literal)", f"emitted SQL differs from the model for value {v!r}", {"src": src, "sql": a["sql"], "model": expect})
        if a["sql"] in ran:
            continue
        res = sqlite_one(a["sql"])
        ok = res[0] != "error" and res[0] == ["v"] and res[1] == [[v]]
        ran[a["sql"]] = ok
        stats["sqlite_exec"] += 1
        if not ok:
            fid = classify_string("sqlite", v)
            stats["fail"][("sqlite-rel", fid)] += 1
            ctx.oracle_failure(fid, f"value {v!r} in a relation literal does not reach SQLite unchanged: {str(res)[:200]}",
                               {"prql": f"from [{{v = {src}}}]", "dialect": "sqlite", "value": v, "sql": a["sql"], "observed": res})
    ctx.obligation(f"correspondence[{label}]: emitted string literal text = Model.Lit.sqlQuote (mirror of sqlparser's printer), in select and in relation literals",
                   nbad_sql == 0, f"{len(good)} + {len(rgood)} programs, {nbad_sql} disagreements")

    # every dialect: one canonical spelling per value; tokenised by the dialect's own tokenizer
    reqs, meta = [], []
    for v in uvals:
        src = '"' + esc(v, '"', nl_escape=True) + '"'
        for d in dialects:
            reqs.append(compile_req(f"from t | select {{v = {src}}}", d)); meta.append((v, d, src))
    comp = vh_batch(reqs)
    treqs = [{"op": "sqlparse", "dialect": d, "sql": a.get("sql", ""), "tokens": True} for (v, d, src), a in zip(meta, comp)]
    toks = vh_batch(treqs)
    bs_lines, bs_meta = [], []
    nbad_tok = 0
    for (v, d, src), a, t in zip(meta, comp, toks):
        ctx.case(("dialect", d, v), nontrivial="sql" in a and v != "")
        if "sql" not in a:
            ctx.oracle_failure("string-literal-rejected", f"{src!r} does not compile for sql.{d}", {"prql": src, "dialect": d, "answer": a})
            continue
        if not a["sql"].startswith("SELECT " + dec(mq[v]) + " AS "):      # identifiers may be quoted (snowflake), the literal may not differ
            nbad_tok += 1
            ctx.disagreement("sql text per dialect", f"string literal text depends on the dialect ({d})", {"value": v, "dialect": d, "sql": a["sql"]})
        st = sig_tokens(t)
        ok = ("tokens" in t and len(st) == 6 and st[1] == {"SingleQuotedString": v} and string_tokens(st) == [("SingleQuotedString", v)]
              and t.get("statements") == 1)
        stats["dialect_tok"] += 1
        if d in stats["bs_mode"]:
            bs_lines.append(f"sql_lex\t{stats['bs_mode'][d]}\t{enc(a['sql'][7:])}"); bs_meta.append((v, d, a["sql"], t))
        if not ok:
            fid = classify_string(d, v)
            stats["fail"][(d, fid)] += 1
            ctx.oracle_failure(fid, f"sql.{d}: value {v!r} is not read back as one string token with that value",
                               {"prql": f"from t | select {{v = {src}}}", "dialect": d, "value": v, "sql": a["sql"],
                                "tokens": string_tokens(st), "tokenize_error": t.get("tokenize_error"), "parse_error": t.get("parse_error")})
    # the backslash lexer model against sqlparser's tokenizer
    nbad_bs = 0
    for (v, d, sql, t), m in zip(bs_meta, drv_batch(bs_lines)):
        first = string_tokens(sig_tokens(t))[:1]
        if "tokenize_error" in t:
            # the tokenizer failed somewhere in the statement: the model must not claim the literal ends where the emitter meant it to
            agree = m == "none" or not (m.startswith("some ") and dec(m[5:].split("|")[1]).startswith(" AS "))
        else:
            agree = m.startswith("some ") and first and first[0][0] == "SingleQuotedString" and dec(m[5:].split("|")[0]) == first[0][1]
        if not agree:
            nbad_bs += 1
            ctx.disagreement("backslash lexer", f"Model.Lit.sqlLexStringBs differs from sqlparser's tokenizer for {d}", {"dialect": d, "sql": sql, "model": m, "impl": first, "err": t.get("tokenize_error")})
    ctx.obligation(f"correspondence[{label}]: Model.Lit.sqlLexStringBs = sqlparser tokenizer on the emitted literals ({', '.join(sorted(stats['bs_mode']))})",
                   nbad_bs == 0, f"{len(bs_lines)} literals, {nbad_bs} disagreements")
    ctx.obligation(f"correspondence[{label}]: string literal text is the same for all dialects", nbad_tok == 0, f"{len(meta)} (value, dialect) pairs")
    stats["t_" + label] = round(time.time() - t0, 1)


def f64bits(x):
    return struct.pack(">d", x)


def number_spellings(rng, n_random):
    i64 = 2 ** 63 - 1
    S = ["0", "1", "9", "10", "42", "123456789", str(i64 - 1), str(i64), str(i64 + 1), str(2 ** 64), "99999999999999999999", "1" + "0" * 30,
         "1" + "0" * 400, "1_000", "1__0", "1_", "1_000_000_000_000_000_000", "9_223_372_036_854_775_807", "9_223_372_036_854_775_808", "00", "01", "007",
         "0x0", "0xff", "0xFF", "0x_ff", "0xf_f", "0X1f", "0o17", "0o_7", "0o8", "0b101", "0b_1", "0b2", "0b", "0x",
         "1.0", "1.5", "0.1", "0.30000000000000004", "1e3", "1E3", "1e+3", "1e-3", "1.5e300", "1e308", "1.7976931348623157e308", "1.7976931348623159e308",
         "1e309", "1e999", "4.9e-324", "2.4703282292062327e-324", "1e-400", "123456789.123456789", "9007199254740993.0", "9007199254740993",
         "1_0.0_1", "1.e3", "1.", ".5", "1e", "1e+", "0.0", "0e0", "1_e3", "5.0e-1", "3.141592653589793", "2.2250738585072014e-308", "1e22", "1e23",
         "8.41e21", "5e-324", "0.1e1", "100000000000000000000.0", "179769313486231580793728971405303415079934132710037826936173778980444968292764750946649017977587207096330286416692887910946555547851940402630657488671505820681908902000708383676273854845817711531764475730270069855571366959622842914819860834936475292719074168444365510704342711559699508093042880177904174497792"]
    S += ["0x" + "f" * k for k in range(1, 15)] + ["0o" + "7" * k for k in range(1, 15)] + ["0b" + "1" * k for k in (1, 2, 8, 31, 32, 33, 34, 64)]
    for _ in range(n_random):
        k = rng.random()
        if k < 0.25:
            ds = str(rng.randrange(10 ** rng.randrange(1, 22)))
            if rng.random() < 0.4 and len(ds) > 1:
                p = rng.randrange(1, len(ds)); ds = ds[:p] + "_" + ds[p:]
            S.append(ds)
        elif k < 0.45:
            pre, dig, mx = rng.choice([("0x", "0123456789abcdefABCDEF", 14), ("0o", "01234567", 14), ("0b", "01", 36)])
            S.append(pre + ("_" if rng.random() < 0.15 else "") + "".join(rng.choice(dig) for _ in range(rng.randrange(1, mx))))
        elif k < 0.7:
            S.append(repr(struct.unpack(">d", struct.pack(">Q", rng.getrandbits(64)))[0]).replace("nan", "1.5").replace("inf", "1e40").replace("-", "", 1)
                     if rng.random() < 0.8 else repr(rng.random()))
        else:
            m = str(rng.randrange(1, 10 ** rng.randrange(1, 20)))
            if m[0] == "0":
                m = "1" + m
            f = "." + "".join(rng.choice("0123456789") for _ in range(rng.randrange(1, 20))) if rng.random() < 0.7 else ""
            e = rng.choice(["e", "E"]) + rng.choice(["", "+", "-"]) + str(rng.randrange(0, 330)) if rng.random() < 0.7 else ""
            S.append(m + f + e)
    return list(dict.fromkeys(S))


def math_value(text):
    """the number the spelling denotes by the documentation (int, or f64 = correctly rounded decimal), None if not one number"""
    t = text
    import re
    for pre, base, dig in (("0x", 16, "0-9a-fA-F"), ("0o", 8, "0-7"), ("0b", 2, "01")):
        if t.startswith(pre):
            m = re.fullmatch(pre + "_?([" + dig + "]+)", t)
            return int(m.group(1), base) if m else None
    if re.fullmatch(r"(0|[1-9][0-9_]*)", t):
        return int(t.replace("_", ""))
    if re.fullmatch(r"(0|[1-9][0-9_]*)(\.[0-9][0-9_]*)?([eE][+-]?[0-9]+)?", t):
        return float(t.replace("_", ""))
    return None


def suite_numbers(ctx, spell, stats):
    impl = []
    for a in vh_batch([{"op": "lexc", "srcs": spell[i:i + 400]} for i in range(0, len(spell), 400)]):
        impl += a.get("r", [])
    model = drv_batch([f"lex\t{enc(s)}" for s in spell])
    emit = drv_batch([f"emit_lit\t{enc(s)}" for s in spell])
    comp = vh_batch([compile_req(f"from t | select {{v = {s}}}") for s in spell])
    nbad = nbad_sql = 0
    for s, i, m, e, a in zip(spell, impl, model, emit, comp):
        ctx.case(("num", s), nontrivial="sql" in a)
        if not lex_same(i, m):
            nbad += 1
            ctx.disagreement("number value", f"lex_source and Model.Lex.lex differ on {s!r}", {"src": s, "impl": i, "model": m})
            continue
        st = single_token(i)
        mv = math_value(s)
        stats["numbers"][(st[0] if st else "not-one-token") + ("" if mv is not None else "/no-documented-value")] += 1
        if "sql" not in a:
            continue                    # rejected: nothing reaches the database
        if st is None:
            ctx.oracle_failure("number-spelling-splits-and-compiles", f"{s!r} is not one literal but the program compiles", {"src": s, "lexed": i, "sql": a["sql"]})
            continue
        sql = a["sql"]
        lit = sql[len("SELECT "):-len(" AS v FROM t")] if sql.startswith("SELECT ") and sql.endswith(" AS v FROM t") else None
        if st[0] == "Integer":
            if e != "ok " + enc(lit or ""):
                nbad_sql += 1
                ctx.disagreement("integer text", f"emitted integer text differs from Model.Lit.printInt for {s!r}", {"src": s, "sql": sql, "model": e})
        res = sqlite_one(sql, SETUP)
        stats["sqlite_exec"] += 1
        got = res[1][0][0] if res[0] == ["v"] and len(res[1]) == 1 and len(res[1][0]) == 1 else None
        if mv is None:
            continue
        if isinstance(mv, int):
            ok = got is not None and got == mv and (isinstance(got, int) or abs(mv) > 2 ** 63 - 1)
            fid = "integer-beyond-i64-becomes-float" if mv > 2 ** 63 - 1 else None
        else:
            ok = isinstance(got, float) and f64bits(got) == f64bits(mv)
            fid = "float-overflow-prints-inf" if math.isinf(mv) else None
            if not ok and isinstance(got, float) and lit is not None and not math.isinf(mv):
                try:
                    if f64bits(float(lit)) == f64bits(mv):
                        stats["numbers"]["sqlite-atof-imprecision(not counted against prqlc)"] += 1
                        continue        # the emitted text is the right f64 under correct rounding; SQLite's own text->double is off
                except ValueError:
                    pass
        if not ok:
            stats["fail"][("sqlite", fid)] += 1
            ctx.oracle_failure(fid, f"number {s!r} (= {mv!r}) reaches SQLite as {got!r} / {str(res)[:120]}",
                               {"prql": f"from t | select {{v = {s}}}", "dialect": "sqlite", "sql": sql, "expected": repr(mv), "observed": str(res)[:300]})
    ctx.obligation("correspondence: numeric literal values (decimal, underscores, radix, exponents, extremes) = Model.Lex; integer text = Model.Lit.printInt",
                   nbad == 0 and nbad_sql == 0, f"{len(spell)} spellings, {nbad}+{nbad_sql} disagreements")


def suite_other_literals(ctx, dialects, stats):
    """booleans, null, dates / times / timestamps: by correspondence and through SQLite"""
    import datetime as dt
    cases = [("true", [1]), ("false", [0]), ("null", [None])]
    for s in ["@2020-01-01", "@1999-12-31", "@2024-02-29", "@0001-01-01", "@10:00:00", "@23:59:59", "@00:00", "@12:34:56.789", "@2020-01-01T10:00:00",
              "@2020-06-15T23:59:59", "@2020-01-01T10:00:00Z", "@2020-01-01T10:00:00+02:00", "@2020-01-01T10:00:00-0330", "@2020-01-01T10:00:00.123456"]:
        t = s[1:]
        if "T" in t:
            base = t[:19]
            d0 = dt.datetime.strptime(base, "%Y-%m-%dT%H:%M:%S")
            tz = t[19:]
            if tz.startswith("."):
                tz = ""
            if tz and tz != "Z":
                sign = 1 if tz[0] == "+" else -1
                hh, mm = int(tz[1:3]), int(tz[-2:])
                d0 -= sign * dt.timedelta(hours=hh, minutes=mm)
            cases.append((s, [d0.strftime("%Y-%m-%d %H:%M:%S")]))
        elif ":" in t:
            p = t.split(".")[0]
            cases.append((s, [p if p.count(":") == 2 else p + ":00"]))
        else:
            cases.append((s, [t]))
    srcs = [c[0] for c in cases]
    impl = []
    for a in vh_batch([{"op": "lexc", "srcs": srcs}]):
        impl += a.get("r", [])
    model = drv_batch([f"lex\t{enc(s)}" for s in srcs])
    nbad = 0
    for s, i, m in zip(srcs, impl, model):
        if not lex_same(i, m):
            nbad += 1
            ctx.disagreement("other literals", f"lexer and model differ on {s!r}", {"src": s, "impl": i, "model": m})
    lexed = {}
    for s, i in zip(srcs, impl):
        st = single_token(i)
        lexed[s] = cps_dec(st[1]) if st and st[0] in ("Date", "Time", "Timestamp") else None
    reqs, meta = [], []
    for (s, want) in cases:
        for d in dialects:
            reqs.append(compile_req(f"from t | select {{v = {s}}}", d)); meta.append((s, want, d))
    comp = vh_batch(reqs)
    toks = vh_batch([{"op": "sqlparse", "dialect": d, "sql": a.get("sql", ""), "tokens": True} for (s, w, d), a in zip(meta, comp)])
    for (s, want, d), a, t in zip(meta, comp, toks):
        ctx.case(("other", s, d))
        stats["other"][s.split("-")[0][:5] if s[0] != "@" else "date/time"] += 1
        if "sql" not in a:
            ctx.oracle_failure("literal-rejected", f"{s} does not compile for sql.{d}", {"prql": s, "dialect": d, "answer": a})
            continue
        st = string_tokens(sig_tokens(t))
        if s[0] == "@":
            body = lexed[s] if lexed[s] is not None else s[1:]      # the literal's value is the lexer's (a `:` in the time zone is dropped there)
            # sqlite: the time zone is normalised to +HH:MM; everything else verbatim
            vals = [x[1] for x in st]
            okv = len(vals) == 1 and (vals[0] == body or (d == "sqlite" and vals[0].replace(":", "") == body.replace(":", "")))
            if not okv or t.get("statements") != 1:
                ctx.oracle_failure("datetime-literal-text", f"sql.{d}: {s} is not carried as one string token with the literal's text",
                                   {"prql": s, "dialect": d, "sql": a["sql"], "tokens": st, "err": t.get("parse_error") or t.get("tokenize_error")})
        elif st or t.get("statements") != 1:
            ctx.oracle_failure("keyword-literal-text", f"sql.{d}: {s} emitted strangely", {"prql": s, "dialect": d, "sql": a["sql"]})
        if d == "sqlite":
            res = sqlite_one(a["sql"], SETUP)
            stats["sqlite_exec"] += 1
            if res[0] != ["v"] or res[1] != [want]:
                ctx.oracle_failure("datetime-value" if s[0] == "@" else "keyword-literal-value", f"{s} evaluates to {str(res)[:100]} on SQLite, expected {want}",
                                   {"prql": f"from t | select {{v = {s}}}", "dialect": "sqlite", "sql": a["sql"], "expected": want, "observed": str(res)})
    ctx.obligation("correspondence: boolean / null / date / time / timestamp literals: lexer = model, one string token per dialect, SQLite value",
                   nbad == 0, f"{len(cases)} literals x {len(dialects)} dialects")


def find_key(v, key):
    if isinstance(v, dict):
        if key in v:
            return v[key]
        for x in v.values():
            r = find_key(x, key)
            if r is not None:
                return r
    elif isinstance(v, list):
        for x in v:
            r = find_key(x, key)
            if r is not None:
                return r
    return None


def suite_fstrings(ctx, frags, dialects, stats, rng, n_random):
    shapes = [("F",), ("E", "F"), ("F", "E"), ("F", "E", "F"), ("E", "E"), ("E", "F", "E", "F"), ("E",)]
    cases = []
    exprs = itertools.cycle(["c", "d", "t.c", "`d`"])
    for fr in frags:
        if not fr:
            continue
        for sh in shapes[:4]:
            cases.append([("F", fr) if k == "F" else ("E", next(exprs)) for k in sh])
    for _ in range(n_random):
        sh = rng.choice(shapes)
        cases.append([("F", rng.choice(frags) or "x") if k == "F" else ("E", next(exprs)) for k in sh])
    cases.append([])
    seen, uniq = set(), []
    for c in cases:
        k = json.dumps(c)
        if k not in seen:
            seen.add(k); uniq.append(c)
    cases = uniq

    def source(items):
        return 'f"' + "".join(esc(braces(x), '"', nl_escape=True) if k == "F" else "{" + x + "}" for k, x in items) + '"'

    def content(items):
        return "".join(braces(x) if k == "F" else "{" + x + "}" for k, x in items)

    srcs = [source(c) for c in cases]
    pl = vh_batch([{"op": "pl", "prql": f"from t | select {{v = {s}}}"} for s in srcs])
    mod = drv_batch([f"fstr\t{enc(content(c))}" for c in cases])
    comp = vh_batch([compile_req(f"from t | select {{v = {s}}}") for s in srcs])
    nbad = 0
    reqs, meta = [], []
    for c, s, p, m, a in zip(cases, srcs, pl, mod, comp):
        ctx.case(("fstr", s))
        stats["fstr_shapes"]["".join(k for k, _ in c) or "empty"] += 1
        items = find_key(p.get("pl"), "FString") if "pl" in p else None
        want_model = "ok " + ";".join(("S" + ",".join(str(ord(ch)) for ch in x)) if k == "F" else
                                      ("E" + "/".join(",".join(str(ord(ch)) for ch in part.strip("`")) for part in x.split(".")))
                                      for k, x in c)
        got_impl = None
        if items is not None:
            got_impl = "ok " + ";".join(("S" + ",".join(str(ord(ch)) for ch in it["String"])) if "String" in it else
                                        ("E" + "/".join(",".join(str(ord(ch)) for ch in part) for part in it["Expr"]["expr"]["Ident"])
                                         + (":F" + ",".join(str(ord(ch)) for ch in it["Expr"]["format"]) if it["Expr"].get("format") is not None else ""))
                                        for it in items)
        if got_impl != m:
            nbad += 1
            ctx.disagreement("f-string items", f"interpolation parser and Model.Lit.fstrItems differ on {s!r}", {"src": s, "impl": got_impl, "model": m})
        if m != want_model:
            ctx.oracle_failure("fstring-items-misread", f"{s!r} is not read as its parts", {"src": s, "items": m, "expected": want_model})
            continue
        want = "".join(x if k == "F" else ENV[x.split(".")[-1].strip("`")] for k, x in c)
        if "sql" not in a:
            ctx.oracle_failure("fstring-rejected", f"{s!r} does not compile", {"prql": s, "answer": a})
            continue
        res = sqlite_one(a["sql"], SETUP)
        stats["sqlite_exec"] += 1
        if res[0] != ["v"] or res[1] != [[want]]:
            fid = classify_strings("sqlite", [x for k, x in c if k == "F"])
            stats["fail"][("sqlite-fstring", fid)] += 1
            ctx.oracle_failure(fid, f"f-string {s!r} evaluates to {str(res)[:120]}, expected {want!r}",
                               {"prql": f"from t | select {{v = {s}}}", "dialect": "sqlite", "sql": a["sql"], "expected": want, "observed": str(res)})
        for d in dialects:
            if d != "sqlite":
                reqs.append(compile_req(f"from t | select {{v = {s}}}", d)); meta.append((c, s, d))
    comp = vh_batch(reqs)
    toks = vh_batch([{"op": "sqlparse", "dialect": d, "sql": a.get("sql", ""), "tokens": True} for (c, s, d), a in zip(meta, comp)])
    for (c, s, d), a, t in zip(meta, comp, toks):
        ctx.case(("fstr", s, d))
        frs = [x for k, x in c if k == "F"] or ([""] if not c else [])
        got = string_tokens(sig_tokens(t))
        if "sql" not in a or got != [("SingleQuotedString", x) for x in frs] or t.get("statements") != 1:
            fid = classify_strings(d, frs)
            stats["fail"][(d + "-fstring", fid)] += 1
            ctx.oracle_failure(fid, f"sql.{d}: fragments of {s!r} are not read back as the string tokens {frs!r}",
                               {"prql": f"from t | select {{v = {s}}}", "dialect": d, "sql": a.get("sql"), "tokens": got, "err": t.get("tokenize_error") or t.get("parse_error")})
    ctx.obligation("correspondence: f-string items (interpolation parser) = Model.Lit.fstrItems", nbad == 0, f"{len(cases)} f-strings")
    # directed: an operand that is itself an expression (dialects without CONCAT print `a || b` without parentheses)
    directed = "from t2 | derive {x = a * b} | select {v = f\"{x}{c}\"}"
    a = vh_batch([compile_req(directed)])[0]
    if "sql" in a:
        res = sqlite_one(a["sql"], ["CREATE TABLE t2 (a INT, b INT, c INT)", "INSERT INTO t2 VALUES (2, 3, 4)"])
        ctx.case(("fstr-directed", directed))
        if res[0] == "error" or res[1] != [["64"]]:
            ctx.oracle_failure("concat-operand-unparenthesised", f"f\"{{x}}{{c}}\" with x = a * b evaluates to {str(res)[:80]} (expected '64')",
                               {"prql": directed, "dialect": "sqlite", "sql": a["sql"], "db": {"t2": [[2, 3, 4]]}, "expected": [["64"]], "observed": str(res)})


def suite_relation_literals(ctx, values, stats, rng, n):
    lits = [("1", 1), ("0", 0), ("42", 42), ("true", 1), ("false", 0), ("null", None), ("9223372036854775807", 2 ** 63 - 1), ("0xff", 255)]
    cases = []
    for k in range(n):
        nrows = rng.choice([1, 1, 2, 3, 5])
        rows = []
        for _ in range(nrows):
            v = rng.choice(values)
            l = rng.choice(lits)
            rows.append((v, l))
        cases.append(rows)
    srcs, wants, preds = [], [], []
    for rows in cases:
        srcs.append("from [" + ", ".join("{v = \"" + esc(v, '"', nl_escape=True) + "\", w = " + l[0] + "}" for v, l in rows) + "]")
        wants.append([[v, l[1]] for v, l in rows])
    comp = vh_batch([compile_req(s) for s in srcs])
    flat = [x for rows in cases for (v, l) in rows for x in ('"' + esc(v, '"', nl_escape=True) + '"', l[0])]
    em = dict(zip(flat, drv_batch([f"emit_lit\t{enc(x)}" for x in flat])))
    nbad = 0
    for rows, s, want, a in zip(cases, srcs, wants, comp):
        ctx.case(("rel", s))
        stats["rel_rows"][len(rows)] += 1
        if "sql" not in a:
            ctx.oracle_failure("relation-literal-rejected", f"{s!r} does not compile", {"prql": s, "answer": a})
            continue
        parts = []
        for v, l in rows:
            e1, e2 = em['"' + esc(v, '"', nl_escape=True) + '"'], em[l[0]]
            parts.append("SELECT " + dec(e1[3:]) + " AS v, " + dec(e2[3:]) + " AS w")
        expect = "WITH table_0 AS (" + " UNION ALL ".join(parts) + ") SELECT v, w FROM table_0"
        if a["sql"] != expect:
            nbad += 1
            ctx.disagreement("relation literal text", "emitted SQL differs from the model's SELECT … UNION ALL … text", {"prql": s, "sql": a["sql"], "model": expect})
        res = sqlite_one(a["sql"])
        stats["sqlite_exec"] += 1
        if res[0] != ["v", "w"] or res[1] != want:
            fid = classify_strings("sqlite", [v for v, _ in rows])
            stats["fail"][("sqlite-rel", fid)] += 1
            ctx.oracle_failure(fid, f"relation literal rows come back as {str(res)[:160]}, expected {want!r}",
                               {"prql": s, "dialect": "sqlite", "sql": a["sql"], "expected": want, "observed": str(res)})
    ctx.obligation("correspondence: relation literal SQL = one constant SELECT per row joined by UNION ALL with Model.Lit.emitLit texts", nbad == 0,
                   f"{len(cases)} relation literals")


def random_values(rng, n):
    pools = [ALPHA, ALPHA + list("bc ZÀß你\t\r%_`$?:@#\x7f​́"), [chr(c) for c in (1, 7, 8, 26, 27, 0x80, 0xff, 0x100, 0x7ff, 0x800, 0xffff, 0x10000, 0x10ffff, 0xd7ff, 0xe000, 0xfffd)]]
    out = []
    for _ in range(n):
        k = rng.random()
        L = rng.randrange(1, 13)
        if k < 0.5:
            s = "".join(rng.choice(pools[0]) for _ in range(L))
        elif k < 0.85:
            s = "".join(rng.choice(rng.choice(pools)) for _ in range(L))
        else:
            s = "".join(chr(rng.choice([rng.randrange(1, 0xd800), rng.randrange(0xe000, 0x110000), rng.randrange(32, 127)])) for _ in range(L))
        out.append(s)
    return list(dict.fromkeys(out))


# ---------------------------------------------------------------------------------------------------------------
# source-first grid: every way of WRITING a string / f-string / s-string / r-string, read by a reference reader
# ---------------------------------------------------------------------------------------------------------------
# The suites above start from a VALUE and spell it (esc_multi escapes every quote that touches another quote, so a run of raw quotes
# inside a 3/5-quote string is never written).  This suite starts from the SOURCE: (prefix, quote kind, delimiter length, content over a
# small alphabet) and computes what the text denotes by the language reference (reference/syntax/strings.md, r-strings.md, f-strings.md,
# s-strings.md) with a reader that shares nothing with Model.Lex: regular expressions over the source text.

GRID_SETUP = ["CREATE TABLE g (n TEXT)", "INSERT INTO g VALUES ('<N>')"]
GRID_ENV = {"n": "<N>"}
DOC_ESCAPES = {"\\": "\\", "'": "'", '"': '"', "/": "/", "b": "\b", "f": "\f", "n": "\n", "r": "\r", "t": "\t"}
_ESC = re.compile(r"\\(u\{[0-9a-fA-F]{1,6}\}|x[0-9a-fA-F]{2}|[\s\S])")
_ITEMS = re.compile(r"\{\{|\}\}|\{[^{}]*\}|[^{}]+")


def ref_unescape(body):
    """documented escapes of strings.md (JSON's plus \\' \\xhh \\u{h..}); None = the body uses an escape the reference does not define"""
    bad = []

    def one(m):
        e = m.group(1)
        if e[0] == "u" and len(e) > 1:
            cp = int(e[2:-1], 16)
            if cp >= 0x110000 or 0xD800 <= cp <= 0xDFFF:
                bad.append(e)
                return ""
            return chr(cp)
        if e[0] == "x" and len(e) == 3:
            return chr(int(e[1:], 16))
        if e in DOC_ESCAPES:
            return DOC_ESCAPES[e]
        bad.append(e)
        return ""
    out = _ESC.sub(one, body)
    return None if bad else out


def ref_read(src):
    """the documented reading of a whole source text `[f|s|r]` + quotes + ... :
       ("lit", token class, value)   exactly one literal with that value
       ("notone", why)               not exactly one literal (unterminated, or text is left over after the closing delimiter)
       ("undefined", why)            the reference is silent (even delimiter > 2, escape outside the table, r-string closed by the other quote)"""
    prefix = src[0] if src[:1] in ("f", "s", "r") else ""
    cls = {"": "String", "f": "F", "s": "S", "r": "RawString"}[prefix]
    t = src[len(prefix):]
    if t[:1] not in ("'", '"'):
        return ("notone", "no opening quote")
    q = t[0]
    if prefix == "r":
        m = re.match(r"[^'\"\n\r]*", t[1:])
        end = 1 + m.end()
        if end >= len(t) or t[end] in "\n\r":
            return ("notone", "unterminated")
        if t[end] != q:
            return ("undefined", "r-string closed by the other kind of quote")
        return ("lit", cls, m.group(0)) if end + 1 == len(t) else ("notone", "text after the literal")
    n = len(t) - len(t.lstrip(q))
    if n % 2 == 0:
        if n > 2:
            return ("undefined", "even number of quotes > 2") if n == len(t) else ("notone", "text after an even run of quotes")
        return ("lit", cls, "") if len(t) == 2 else ("notone", "text after the empty string")
    delim = q * n
    m = re.compile(r"(?:\\[\s\S]|(?!%s)[^\\])*" % re.escape(delim)).match(t, n)
    if not t.startswith(delim, m.end()):
        return ("notone", "unterminated")
    if m.end() + n != len(t):
        return ("notone", "text after the literal")
    v = ref_unescape(t[n:m.end()])
    return ("undefined", "escape outside the documented table") if v is None else ("lit", cls, v)


def ref_interp(v):
    """f-/s-string content -> [("S", text) | ("E", name)]; None where the reference is silent (lone brace, anything but a plain name in braces)"""
    items, pos = [], 0
    for m in _ITEMS.finditer(v):
        if m.start() != pos:
            return None
        pos = m.end()
        x = m.group(0)
        if x in ("{{", "}}"):
            x = x[0]
        elif x[0] == "{":
            if not re.fullmatch(r"[a-z_][a-z0-9_]*", x[1:-1]):
                return None
            items.append(("E", x[1:-1])); continue
        if items and items[-1][0] == "S":
            items[-1] = ("S", items[-1][1] + x)
        else:
            items.append(("S", x))
    return items if pos == len(v) else None


def grid_contents(alpha, maxlen):
    return ["".join(p) for k in range(maxlen + 1) for p in itertools.product(alpha, repeat=k)]


def grid_sources(thorough):
    """seed-independent: [(family, prefix, q, n, content)]"""
    out = []
    for q in ("'", '"'):
        o = '"' if q == "'" else "'"
        full = [q, o, "\\", "n", "{", "}", "\n"]
        core = [q, o, "\\", "n", "{"]
        small = [q, "\\", "n"]
        for prefix in ("", "f", "s"):
            for n in (1, 3, 5, 7):
                L = {1: 4, 3: 4, 5: 4 if prefix == "" else 3, 7: 3}[n] + (1 if thorough and n < 7 else 0)
                cs = grid_contents(full, L)
                if n in (3, 5):
                    # deeper over fewer characters: the delimiter's quote next to itself, to a backslash, to a letter
                    extra = grid_contents(core if (n == 3 and (prefix == "" or thorough)) else small, L + 1) + grid_contents(small, L + (3 if n == 3 else 2))
                    if thorough and n == 3:
                        extra += grid_contents(core, L + 2)
                    cs = list(dict.fromkeys(cs + extra))
                out += [("grid", prefix, q, n, c) for c in cs]
            for n in (2, 4, 6, 8):
                out += [("even", prefix, q, n, c) for c in grid_contents(full, 2)]
            # runs of the delimiter's quote of every length 1 .. n+2 at the start / in the middle / at the end, next to each kind of neighbour
            nb = ["", "n", "\\", o, "{{", "\n", "\\\\", "\\" + q]
            for n in (3, 5, 7):
                for k in range(1, n + 3):
                    for pre in nb:
                        for post in nb:
                            out.append(("run", prefix, q, n, pre + q * k + post))
                for k in range(1, n):
                    for j in range(1, n):
                        for mid in ("n", o, "\\n", "{n}"):
                            for pre in ("", "n"):
                                for post in ("", "n"):
                                    out.append(("run2", prefix, q, n, pre + q * k + mid + q * j + post))
        for n in (1, 2, 3):
            out += [("raw", "r", q, n, c) for c in grid_contents([q, o, "\\", "n", "{", "\n"], 5 if thorough else 4)]
    seen, uniq = set(), []
    for x in out:
        k = x[1:]
        if k not in seen:
            seen.add(k); uniq.append(x)
    return uniq


def random_sources(rng, count):
    out = []
    for _ in range(count):
        q = rng.choice("'\"")
        o = '"' if q == "'" else "'"
        prefix = rng.choice(["", "", "f", "s", "r"])
        n = 1 if prefix == "r" and rng.random() < 0.8 else rng.choice([1, 1, 2, 3, 3, 3, 4, 5, 5, 6, 7, 9])
        pool = [q] * 6 + [o] * 2 + ["\\"] * 3 + list("nnxu{}{}0a4fé \n\r\t-;") + ["\\" + q, q * 2, q * (n - 1), "\\x41", "\\u{e9}", "\\u{1F422}", "{n}", "{{", "}}"]
        c = "".join(rng.choice(pool) for _ in range(rng.randrange(0, 9)))
        out.append(("random", prefix, q, n, c))
    return out


def suite_source_grid(ctx, items, label, stats):
    t0 = time.time()
    srcs = [prefix + q * n + c + q * n for (_, prefix, q, n, c) in items]
    order = list(dict.fromkeys(srcs))
    fam = {}
    for it, s in zip(items, srcs):
        fam.setdefault(s, it)
    srcs = order
    impl = []
    B = 2000
    for a in vh_batch([{"op": "lexc", "srcs": srcs[i:i + B]} for i in range(0, len(srcs), B)]):
        impl += a.get("r", [])
    model = drv_batch([f"lex\t{enc(s)}" for s in srcs])
    nbad = 0
    todo = {"": [], "r": [], "f": [], "s": []}      # prefix -> [(src, lexed value, reference reading)]
    for s, i, m in zip(srcs, impl, model):
        family, prefix, q, n, c = fam[s]
        ctx.case(("grid-lex", s))
        ref = ref_read(s)
        stats["styles"][f"{family}:{prefix or 'plain'}:{'sq' if q == chr(39) else 'dq'}{n}"] += 1
        stats["grid_ref"][(prefix or "plain") + ":" + ref[0]] += 1
        rep = {"src": s, "prql": f"from g | select {{v = {s}}}", "setup": GRID_SETUP, "lexed": i, "documented": list(ref)}
        if not lex_same(i, m):
            nbad += 1
            ctx.disagreement("lexer value (source grid)", f"lex_source and Model.Lex.lex differ on {s!r}", dict(rep, model=m))
        st = single_token(i)
        if st is not None and st[0] not in ("String", "RawString", "F", "S"):
            st = None
        if ref[0] == "lit" and (st is None or st[0] != ref[1] or cps_dec(st[1]) != ref[2]):
            ctx.oracle_failure("string-spelling-misread", f"{s!r} denotes the {ref[1]} {ref[2]!r} by the language reference, the lexer reads {i}", rep)
            if st is None or st[0] != ref[1]:
                continue            # (a misread VALUE still goes on to the database: the SQLite oracle below judges it against the documented value)
        if ref[0] == "notone" and st is not None:
            ctx.oracle_failure("string-spelling-misread", f"{s!r} is not one literal by the language reference ({ref[1]}), the lexer reads one: {i}", rep)
            continue
        if st is not None:
            todo[prefix].append((s, cps_dec(st[1]), ref))
    ctx.obligation(f"correspondence[{label}]: lexer reading of every written form (prefix x quote kind x 1-9 quotes x content) = Model.Lex",
                   nbad == 0, f"{len(srcs)} sources, {nbad} disagreements")

    con = sqlite3.connect(":memory:")
    for x in GRID_SETUP:
        con.execute(x)
    con.execute("PRAGMA query_only = ON")

    def run_sql(sql):
        try:
            cur = con.execute(sql)
            names = [d[0] for d in cur.description] if cur.description else []
            return names, [list(r) for r in cur.fetchall()]
        except Exception as e:
            return "error", f"{type(e).__name__}: {e}"

    # plain and raw strings: SQL text vs Model.Lit.sqlQuote of the value; the value back from SQLite
    plain = todo[""] + todo["r"]
    comp = vh_batch([compile_req(f"from g | select {{v = {s}}}") for (s, _, _) in plain])
    uvals = list(dict.fromkeys(v for (_, v, _) in plain))
    mq = dict(zip(uvals, drv_batch([f"sql_quote\t{enc(v)}" for v in uvals])))
    nbad_sql, ran = 0, {}
    for (s, v, ref), a in zip(plain, comp):
        ctx.case(("grid-sql", s), nontrivial="sql" in a)
        prql = f"from g | select {{v = {s}}}"
        if "sql" not in a:
            ctx.oracle_failure("string-literal-rejected", f"the lexer reads {s!r} as one literal but the program does not compile", {"prql": prql, "setup": GRID_SETUP, "answer": a})
            continue
        expect = "SELECT " + dec(mq[v]) + " AS v FROM g"
        if a["sql"] != expect:
            nbad_sql += 1
            ctx.disagreement("sql text (source grid)", f"emitted SQL differs from Model.Lit.sqlQuote for {s!r}", {"src": s, "prql": prql, "sql": a["sql"], "model": expect})
        if a["sql"] not in ran:
            ran[a["sql"]] = run_sql(a["sql"])
            stats["sqlite_exec"] += 1
        res = ran[a["sql"]]
        want = ref[2] if ref[0] == "lit" else v
        if not (res[0] == ["v"] and res[1] == [[want]]):
            fid = classify_string("sqlite", want)
            stats["fail"][("sqlite-grid", fid)] += 1
            ctx.oracle_failure(fid, f"{s!r} denotes {want!r}; SQLite returns {str(res)[:200]}",
                               {"prql": prql, "setup": GRID_SETUP, "dialect": "sqlite", "value": want, "sql": a["sql"], "observed": res})

    # f-strings: items vs Model.Lit.fstrItems; the concatenation back from SQLite
    fs = todo["f"]
    pl = vh_batch([{"op": "pl", "prql": f"from g | select {{v = {s}}}"} for (s, _, _) in fs])
    comp = vh_batch([compile_req(f"from g | select {{v = {s}}}") for (s, _, _) in fs])
    fvals = list(dict.fromkeys(v for (_, v, _) in fs + todo["s"]))
    fm = dict(zip(fvals, drv_batch([f"fstr\t{enc(v)}" for v in fvals])))
    nbad_f = 0
    for (s, v, ref), p, a in zip(fs, pl, comp):
        ctx.case(("grid-f", s), nontrivial="sql" in a)
        prql = f"from g | select {{v = {s}}}"
        items = find_key(p.get("pl"), "FString") if "pl" in p else None
        got_impl = "none"
        if items is not None:
            got_impl = "ok " + ";".join(("S" + ",".join(str(ord(ch)) for ch in it["String"])) if "String" in it else
                                        ("E" + "/".join(",".join(str(ord(ch)) for ch in part) for part in it["Expr"]["expr"]["Ident"])
                                         + (":F" + ",".join(str(ord(ch)) for ch in it["Expr"]["format"]) if it["Expr"].get("format") is not None else ""))
                                        if isinstance(it.get("Expr", {}).get("expr", {}).get("Ident"), list) else "?" for it in items)
        if got_impl != fm[v] and "?" not in got_impl:
            nbad_f += 1
            ctx.disagreement("f-string items (source grid)", f"interpolation parser and Model.Lit.fstrItems differ on {s!r}", {"src": s, "prql": prql, "impl": got_impl, "model": fm[v]})
        doc = ref_interp(ref[2]) if ref[0] == "lit" else None
        if doc is None or any(k == "E" and x not in GRID_ENV for k, x in doc):
            stats["grid_ref"]["f:items-undefined"] += 1
            continue
        want_items = "ok " + ";".join(("S" if k == "S" else "E") + ",".join(str(ord(ch)) for ch in x) for k, x in doc)
        if got_impl != want_items:
            ctx.oracle_failure("fstring-items-misread", f"{s!r} is not read as its documented parts {doc!r}: {got_impl}", {"prql": prql, "setup": GRID_SETUP, "items": got_impl, "expected": want_items})
            continue
        want = "".join(x if k == "S" else GRID_ENV[x] for k, x in doc)
        if "sql" not in a:
            ctx.oracle_failure("fstring-rejected", f"{s!r} does not compile", {"prql": prql, "setup": GRID_SETUP, "answer": a})
            continue
        if a["sql"] not in ran:
            ran[a["sql"]] = run_sql(a["sql"])
            stats["sqlite_exec"] += 1
        res = ran[a["sql"]]
        if not (res[0] == ["v"] and res[1] == [[want]]):
            fid = classify_strings("sqlite", [x for k, x in doc if k == "S"])
            stats["fail"][("sqlite-grid-fstring", fid)] += 1
            ctx.oracle_failure(fid, f"f-string {s!r} denotes {want!r}; SQLite returns {str(res)[:160]}",
                               {"prql": prql, "setup": GRID_SETUP, "dialect": "sqlite", "sql": a["sql"], "expected": want, "observed": str(res)})
    ctx.obligation(f"correspondence[{label}]: emitted literal text = Model.Lit.sqlQuote; f-string items = Model.Lit.fstrItems", nbad_sql == 0 and nbad_f == 0,
                   f"{len(plain)} string programs, {len(fs)} f-string programs, {nbad_sql}+{nbad_f} disagreements")

    # s-strings: the documented text must be the SQL expression, verbatim
    ss = todo["s"]
    comp = vh_batch([compile_req(f"from g | select {{v = {s}}}") for (s, _, _) in ss])
    for (s, v, ref), a in zip(ss, comp):
        ctx.case(("grid-s", s), nontrivial="sql" in a)
        doc = ref_interp(ref[2]) if ref[0] == "lit" else None
        if doc is None or any(k == "E" and x not in GRID_ENV for k, x in doc):
            stats["grid_ref"]["s:items-undefined"] += 1
            continue
        prql = f"from g | select {{v = {s}}}"
        text = "".join(x for k, x in doc)
        if "sql" not in a:
            ctx.oracle_failure("sstring-rejected", f"{s!r} does not compile", {"prql": prql, "setup": GRID_SETUP, "answer": a})
            continue
        if a["sql"] != "SELECT " + text + " AS v FROM g":
            ctx.oracle_failure("sstring-text-altered", f"s-string {s!r} denotes the SQL text {text!r}; emitted: {a['sql']!r}",
                               {"prql": prql, "setup": GRID_SETUP, "dialect": "sqlite", "sql": a["sql"], "expected": "SELECT " + text + " AS v FROM g"})
    con.close()
    stats["t_" + label] = round(time.time() - t0, 1)


# ---------------------------------------------------------------------------------------------------------------
# context x value x spelling grid (tools/c08ctx.py): the literal as an operand of every operator / std function / transform
# ---------------------------------------------------------------------------------------------------------------

def _dq(v):
    return '"' + esc(v, '"', nl_escape=True) + '"'


def _rot_spellings(v, allow_f):
    sp = [x for x in spellings(v, True) if allow_f or x[2] != "F"]
    return sp


def suite_contexts(ctx, dialects, stats, thorough, rng):
    import sys
    import c08ctx as X
    H = sys.modules[__name__]
    t0 = time.time()
    C = X.string_contexts()
    db = X.Db()
    st = stats["ctx"] = Counter()
    jobs = []       # dict(ci, v, L, styles, dialect, mode, stream)

    def job(ci, v, j, dialect, mode, stream):
        name, k, build, model, ordered, allow_f, items = C[ci]
        sp = _rot_spellings(v, allow_f)
        pick = [sp[(j + i) % len(sp)] for i in range(max(k, 1))]
        L = [x[1] for x in pick]
        prql = build(L, _dq(v + X.OTHER), v, H)
        jobs.append(dict(ci=ci, v=v, styles=[x[0] for x in pick][:k], prql=prql, dialect=dialect, mode=mode, stream=stream))

    core = [v for v in X.CORE if thorough or len(v) <= 2000]
    small = [""] + ["".join(p) for k in (1, 2) for p in itertools.product(X.ALPHA2, repeat=k)]
    small = [v for v in small if v not in set(core)]
    other_d = [d for d in dialects if d != "sqlite"]
    for ci in range(len(C)):
        # placeholder first: the models themselves are checked on a harmless value, and it fixes the expected token stream per dialect
        for d in dialects:
            job(ci, X.PH, 0, d, "probe", "probe")
        for vi, v in enumerate(core):
            n = len(_rot_spellings(v, C[ci][5]))
            for j in (range(n) if thorough else sorted({(ci + vi + t * ((n + 3) // 4)) % n for t in range(4)})):
                job(ci, v, j, "sqlite", "exec", "core")
            job(ci, v, ci + vi, "generic", "exec", "core")
            ds = other_d if thorough else sorted({other_d[(ci + vi + 3 * t) % len(other_d)] for t in range(4)})
            for d in (["sqlite"] + ds if C[ci][0] not in X.NO_TOKEN_ORACLE else []):
                job(ci, v, 1, d, "tok", "core")
        for vi, v in enumerate(small):
            n = len(_rot_spellings(v, C[ci][5]))
            for j in (range(0, n, 3) if thorough else [(ci + vi) % n]):
                job(ci, v, j, "sqlite", "exec", "small")
            if thorough:
                job(ci, v, ci + vi, "generic", "exec", "small")
                job(ci, v, 1, other_d[(ci + vi) % len(other_d)], "tok", "small")
    rv = random_values(rng, 6000 if thorough else 1500)
    for v in rv:
        ci = rng.randrange(len(C))
        job(ci, v, rng.randrange(13), rng.choice(["sqlite", "sqlite", "sqlite", "generic"]), "exec", "random")
        if rng.random() < 0.35:
            job(ci, v, 1, rng.choice(dialects), "tok", "random")

    comp = vh_batch([compile_req(j["prql"], j["dialect"]) for j in jobs])
    tk = [i for i, j in enumerate(jobs) if j["mode"] in ("tok", "probe")]
    toks = dict(zip(tk, vh_batch([{"op": "sqlparse", "dialect": jobs[i]["dialect"], "sql": comp[i].get("sql", ""), "tokens": True} for i in tk])))

    # probes: does the context compile / execute / match its model for the placeholder value?
    executable, ph_tokens = {}, {}
    for i, (j, a) in enumerate(zip(jobs, comp)):
        if j["mode"] != "probe":
            continue
        name, d = C[j["ci"]][0], j["dialect"]
        if "sql" not in a:
            st[f"{d}: context has no translation"] += 1
            if d == "sqlite":
                ctx.oracle_failure("context-rejected", f"context {name} does not compile for a harmless value", {"prql": j["prql"], "dialect": d, "answer": a})
            continue
        t = toks[i]
        if "tokens" in t and t.get("statements") == 1:
            ph_tokens[(j["ci"], d)] = sig_tokens(t)
        if d in ("sqlite", "generic"):
            R = X.rows_for(X.PH)
            db.fill(R)
            got, want = db.run(a["sql"]), C[j["ci"]][3](X.PH, R)
            ok = X.same_result(got, want, C[j["ci"]][4])
            executable[(j["ci"], d)] = ok
            if not ok and d == "sqlite":
                ctx.oracle_failure("context-model-mismatch", f"context {name}: SQLite returns {str(got)[:200]} for the harmless value, the model of the context says {str(want)[:200]}",
                                   {"prql": j["prql"], "dialect": d, "sql": a["sql"], "setup": X.setup_sql(R), "shims": True})
            if not ok and d == "generic":
                st["generic: context not executable on SQLite (" + (got[1].split(":")[0] if got[0] == "error" else "different rows") + ")"] += 1

    def report(j, a, what, extra, fid=None):
        R = X.rows_for(j["v"])
        stats["fail"][("ctx-" + j["dialect"], fid)] += 1
        ctx.oracle_failure(fid, what, dict({"prql": j["prql"], "dialect": j["dialect"], "context": C[j["ci"]][0], "value": j["v"], "spellings": j["styles"],
                                            "sql": a.get("sql"), "setup": X.setup_sql(R) if len(j["v"]) < 200 else None, "shims": True}, **extra))

    def narrow(j, got, want):
        """a failing packed program -> the first single-item program that fails on its own (smaller replay)"""
        items = C[j["ci"]][6]
        if not items or got[0] == "error" or got[0] != want[0]:
            return None
        bad = [c for c in range(1, len(want[0])) if [r[c] for r in X._srt(got[1])] != [r[c] for r in X._srt(want[1])]]
        for c in bad[:1]:
            it = next(i for i in X.ITEMS if i[0] == items[c - 1])
            sc = X.single_item_context(it)
            sp = _rot_spellings(j["v"], it[4])
            base = next((q for q in range(len(sp)) if sp[q][0] == j["styles"][0]), 0) if j["styles"] else 0
            pick = [sp[(base + q) % len(sp)] for q in range(max(it[1], 1))]
            prql = sc[2]([x[1] for x in pick], _dq(j["v"] + X.OTHER), j["v"], H)
            a = vh_batch([compile_req(prql, j["dialect"])])[0]
            if "sql" in a:
                R = X.rows_for(j["v"])
                db.fill(R)
                g2, w2 = db.run(a["sql"]), sc[3](j["v"], R)
                if not X.same_result(g2, w2, False):
                    return dict(j, prql=prql, styles=[x[0] for x in pick][:it[1]]), a, it[0], g2, w2
        return None

    nfail = 0
    for i, (j, a) in enumerate(zip(jobs, comp)):
        if j["mode"] == "probe":
            continue
        ci, v, d = j["ci"], j["v"], j["dialect"]
        name, k, build, model, ordered, allow_f, items = C[ci]
        if j["mode"] == "exec":
            if not executable.get((ci, d)):
                continue
            ctx.case(("ctx", name, d, v, tuple(j["styles"])), nontrivial="sql" in a)
            st[f"exec:{d}:{j['stream']}"] += 1
            for s_ in j["styles"]:
                stats["styles"]["ctx:" + s_] += 1
            if "sql" not in a:
                report(j, a, f"context {name}: the program compiles for a harmless value but not for {v[:60]!r} written as {j['styles']}", {"answer": a}, "literal-rejected-in-context")
                continue
            R = X.rows_for(v)
            db.fill(R)
            got, want = db.run(a["sql"]), model(v, R)
            stats["sqlite_exec"] += 1
            if X.same_result(got, want, ordered):
                continue
            nfail += 1
            fid = classify_string("sqlite", v) if "\x00" in v else None
            nr = narrow(j, got, want) if nfail <= 40 else None
            if nr:
                j2, a2, iname, g2, w2 = nr
                report(j2, a2, f"context {iname}: value {v[:60]!r} written as {j2['styles']} gives {str(g2[1])[:160]}, the context's model says {str(w2[1])[:160]}",
                       {"expected": str(w2)[:600], "observed": str(g2)[:600], "context": iname}, fid)
            else:
                report(j, a, f"context {name}: value {v[:60]!r} written as {j['styles']} gives {str(got)[:200]}, the context's model says {str(want)[:200]}",
                       {"expected": str(want)[:600], "observed": str(got)[:600]}, fid)
        else:
            base = ph_tokens.get((ci, d))
            if base is None or name in X.NO_TOKEN_ORACLE:
                continue
            ctx.case(("ctx-tok", name, d, v), nontrivial="sql" in a)
            st[f"tokens:{j['stream']}"] += 1
            stats["dialect_tok"] += 1
            t = toks[i]
            fid = classify_strings(d, [v, v + X.OTHER])
            if "sql" not in a:
                report(j, a, f"context {name}, sql.{d}: compiles for a harmless value but not for {v[:60]!r}", {"answer": a}, fid or "literal-rejected-in-context")
                continue
            if "tokens" not in t or t.get("statements") != 1 or sig_tokens(t) != X.subst_tokens(base, v):
                got_s, want_s = string_tokens(sig_tokens(t)) if "tokens" in t else None, string_tokens(X.subst_tokens(base, v))
                report(j, a, f"context {name}, sql.{d}: the statement for {v[:60]!r} is not the statement for the value {X.PH!r} with that value exchanged "
                             f"(string tokens {str(got_s)[:200]}, expected {str(want_s)[:200]})",
                       {"tokenize_error": t.get("tokenize_error"), "parse_error": t.get("parse_error"), "string_tokens": str(got_s)[:600], "expected_string_tokens": str(want_s)[:600]}, fid)
    ctx.obligation("context grid: every context's model agrees with SQLite for a harmless value (sql.sqlite)",
                   all(executable.get((ci, "sqlite")) for ci in range(len(C))), f"{len(C)} programs ({len(X.ITEMS)} item contexts + {len(X.PROGRAMS)} program contexts); "
                   f"executable for sql.generic: {sum(1 for ci in range(len(C)) if executable.get((ci, 'generic')))}")
    stats["t_contexts"] = round(time.time() - t0, 1)


def _exec_jobs(ctx, stats, db, X, jobs, probe_key=None):
    """jobs: dict(name, prql, dialect, rows, want=(names, rows), ordered, value, spellings, probe, fid(job, answer, got) -> class | None).
    A job marked `probe` decides whether its (name, dialect) is executable on SQLite at all (sql.generic); sql.sqlite must always be."""
    comp = vh_batch([compile_req(j["prql"], j["dialect"]) for j in jobs])
    dead = set()
    for j, a in zip(jobs, comp):
        key = (j["name"], j["dialect"])
        if key in dead:
            continue
        ctx.case(("ctx", j["name"], j["dialect"], j["prql"]), nontrivial="sql" in a)
        stats["ctx"][f"exec:{j['dialect']}:{j['stream']}"] += 1
        got = None
        if "sql" in a:
            db.fill(j["rows"])
            got = db.run(a["sql"])
            stats["sqlite_exec"] += 1
            if X.same_result(got, j["want"], j["ordered"]):
                continue
        if j.get("probe") and j["dialect"] != "sqlite":
            dead.add(key)
            stats["ctx"][f"{j['dialect']}: context not executable on SQLite"] += 1
            continue
        fid = j["fid"](j, a, got) if j.get("fid") else None
        stats["fail"][("ctx-" + j["dialect"], fid)] += 1
        what = (f"context {j['name']}: {j['value']!r} written as {j['spellings']} " +
                (f"gives {str(got)[:200]}, the context's model says {str(j['want'])[:200]}" if got is not None else f"does not compile: {str(a)[:200]}"))
        ctx.oracle_failure(fid, what, {"prql": j["prql"], "dialect": j["dialect"], "context": j["name"], "value": j["value"], "spellings": j["spellings"], "sql": a.get("sql"),
                                       "setup": X.setup_sql(j["rows"]), "shims": True, "expected": str(j["want"])[:600], "observed": str(got)[:600]})


def suite_spelling_pairs(ctx, stats, thorough, rng):
    """two spellings of one value compared with each other (both operands literals: the compiler may fold), every ordered pair"""
    import c08ctx as X
    t0 = time.time()
    db = X.Db()
    stats.setdefault("ctx", Counter())
    jobs = []
    rep = ["dq", "sq", "raw-dq", "dq3", "sq5", "unicode-escapes", "f-dq", "sq-bare"]
    svals = [v for v in X.CORE if 0 < len(v) <= 2000]

    def spair(v, a, b, stream):
        R = X.rows_for(v)
        A, B = a[1], b[1]
        prql = (f"from k | filter {A} == {B} | select {{id, e = {A} == {B}, n = {A} != {B}, l = {A} < {B}, g = {A} >= {B}, "
                f"c = case [{A} != {B} => 0, true => 1], i = ({A} | in [{B}]), r = {A} ~= {B}, w = ({A} | text.ends_with {B})}}")
        jobs.append(dict(name="string-spelling-pair", prql=prql, dialect="sqlite", rows=R, ordered=False, value=v, spellings=[a[0], b[0]], stream=stream,
                         want=(["id", "e", "n", "l", "g", "c", "i", "r", "w"], [[r[0], 1, 0, 0, 1, 1, 1, 1, 1] for r in R])))

    for vi, v in enumerate(svals):
        sp = spellings(v, True)
        full = thorough or vi % 4 == 0 or v in ("abc", "C:\\temp", "--")
        use = sp if full else [x for x in sp if x[0] in rep]
        for a in use:
            for b in use:
                spair(v, a, b, "pairs")
    for v in random_values(rng, 1500 if thorough else 300):
        sp = spellings(v, True)
        spair(v, rng.choice(sp), rng.choice(sp), "pairs-random")

    def npair(m, A, B, C_, is_int, stream):
        R = X.rows_for("v")
        prql = (f"from k | filter {A} == {B} | select {{id, e = {A} == {B}, n = {A} != {B}, l = {A} < {B}, g = {A} >= {B}, "
                f"c = case [{A} != {B} => 0, true => 1], i = ({A} | in {B}..{C_}), s = {A} - {B}, p = {A} + {B}}}")
        two = m + m if is_int and m < 2 ** 62 else float(m) + float(m)
        jobs.append(dict(name="number-spelling-pair", prql=prql, dialect="sqlite", rows=R, ordered=False, value=m, spellings=[A, B, C_], stream=stream,
                         want=(["id", "e", "n", "l", "g", "c", "i", "s", "p"], [[r[0], 1, 0, 0, 1, 1, 1, 0 if is_int else 0.0, two] for r in R])))

    for is_int, vals, spf in ((True, X.INTS, X.int_spellings), (False, X.FLOATS, X.float_spellings)):
        for m in vals:
            sp = spf(m)
            for ai, A in enumerate(sp):
                for bi, B in enumerate(sp):
                    npair(m, A, B, sp[(ai + bi) % len(sp)], is_int, "pairs-number")
    _exec_jobs(ctx, stats, db, X, jobs)
    stats["t_pairs"] = round(time.time() - t0, 1)


TEMPORAL_FOLD = "temporal-literals-compared-as-text-when-folded"


def suite_number_contexts(ctx, stats, thorough, rng):
    import c08ctx as X
    t0 = time.time()
    db = X.Db()
    stats.setdefault("ctx", Counter())
    jobs = []
    R = X.rows_for("v")
    for is_int, vals, spf in ((True, X.INTS, X.int_spellings), (False, X.FLOATS, X.float_spellings)):
        C = X.number_contexts(is_int)
        for (name, k, build, model, ordered, ok) in C:
            first = True
            for m in ([10, 2] if is_int else [1.5]) + vals:
                if not ok(m):
                    continue
                sp = spf(m)
                for j in range(len(sp)):
                    L = [sp[(j + i) % len(sp)] for i in range(k)]
                    for d in ("sqlite", "generic"):
                        if d == "generic" and not (first or j % 3 == 0 or thorough):
                            continue
                        jobs.append(dict(name=("int:" if is_int else "float:") + name, prql=build(L, m), dialect=d, rows=R, want=model(m, R), ordered=ordered, value=m,
                                         spellings=L, stream="numbers", probe=first))
                    first = False
    for (name, kind, A, B, prql, model) in X.temporal_programs():
        def fid(j, a, got, kind=kind, A=A, B=B, name=name):
            # the fold compares the literals' TEXT: two written forms of one time / instant are `false` when compared by the compiler
            sql = a.get("sql") or ""
            if name in ("temporal-eq", "temporal-ne", "temporal-eq-filter", "temporal-eq-case") and kind in ("Time", "Timestamp") and A != B \
                    and "TIME(" not in sql and "'" not in sql:
                return TEMPORAL_FOLD
            return None
        jobs.append(dict(name=name, prql=prql, dialect="sqlite", rows=R, want=model(R), ordered=False, value=[A, B], spellings=[kind], stream="temporal", fid=fid))
    _exec_jobs(ctx, stats, db, X, jobs)
    stats["t_number_contexts"] = round(time.time() - t0, 1)


def run(ctx):
    br = vlib.standard_proof_obligations(ctx, ["PrqlModel.Props.C08"], ["Lex", "Dialects"],
        required_theorems=["prql_string_value", "prql_quote_roundtrip", "sql_quote_roundtrip", "sql_quote_eq_doubling", "sql_quote_std_roundtrip",
                           "printer_alone_counterexample", "sql_quote_roundtrip_backslash_counterexample",
                           "int_roundtrip", "prql_decimal_value", "radix_value", "int_literal_exact_counterexample", "fstring_concat",
                           "fstring_fragment_roundtrip", "relation_literal", "sqlite_tz_only_inserts_a_colon", "sqlite_tz_short", "sqlite_tz_idempotent"])
    thorough = ctx.tier == "thorough"
    ctx.rule = ("string values: every string of length <= 3 over the 13 characters ' \" \\ LF - / * ; { } e-acute U+1D11E a (exhaustive, seed-independent; "
                "quick tier: full spelling set for length <= 2 and the two basic spellings for length 3) plus seeded random Unicode strings of 1-12 "
                "characters; each value is written in up to 13 spellings (1/3/5 quotes of either kind, escaped and bare, raw strings, \\u{} and \\x "
                "escapes, single-fragment f-strings); a case is one (spelling), one (spelling -> SQL -> SQLite value) or one (value, dialect) "
                "tokenisation. Numbers: a fixed list of boundary spellings (i64 limits, digit limits of each radix, underscores, exponent forms, "
                "f64 extremes) plus random ones. Written forms (source-first, seed-independent): prefix (none, f, s, r) x quote kind x delimiter of 1-8 quotes "
                "x every content of length <= 4 over {the delimiter's quote, the other quote, backslash, n, {, }, LF} (deeper over fewer characters for 3 and 5 "
                "quotes), runs of 1..n+2 delimiter quotes at the start / middle / end next to each kind of neighbour, pairs of runs; each source is read by a "
                "reference reader (regular expressions written from the language reference) and by Model.Lex, and where it is one literal its value is "
                "compared with what SQLite returns (s-strings: with the emitted SQL text); plus seeded random written forms. f-strings: fragments x shapes x all dialects. Relation literals: random rows. "
                "Context grid (seed-independent): 76 contexts (51 select-item contexts packed 6 to a program + 25 program contexts) x 88 adversarial values "
                "x 4 rotating spellings (every spelling of every value over the contexts; thorough: every spelling in every context) + every string of length "
                "<= 2 over 13 characters (one rotating spelling; thorough: every third), on sql.sqlite and sql.generic through SQLite, and on 4 rotating (thorough: all) other dialects through the tokenizer; "
                "every ordered pair of spellings of a value compared with itself; 14 integers x up to 10 spellings and 9 floats x up to 11 spellings in 29 "
                "number contexts; 4 dates and 6 pairs of time / timestamp forms; then seeded random (value, context, spelling, dialect). "
                "non-trivial = the compiler produced SQL that was executed or tokenised")
    ctx.assumptions += ["string values are compared byte-exactly through SQLite (python sqlite3); the other 11 dialects are judged by sqlparser's tokenizer "
                        "for that dialect (the reader prqlc itself trusts), not by a live database",
                        "floats are outside the Lean model: a float literal must come back from SQLite as the f64 nearest to its decimal text "
                        "(Python float() as reference); where only SQLite's own text->double conversion is off the case is counted, not charged to prqlc",
                        "dates / times / intervals: correspondence only (lexer = model, one string token, SQLite value of DATE()/TIME()/DATETIME())"]
    if not (br.cargo_ok and br.drv_ok):
        return
    dialects = br.gen["Dialects"]["summary"]["variants"] if "Dialects" in br.gen else ALL_DIALECTS
    stats = dict(styles=Counter(), fail=Counter(), numbers=Counter(), other=Counter(), fstr_shapes=Counter(), rel_rows=Counter(), grid_ref=Counter(), sqlite_exec=0, dialect_tok=0, bs_mode={})

    # the time-zone suffix of temporal literals on SQLite: the private kernel vs Model.Lit.sqliteDateLiteral on EVERY string of length <= 6
    # over {+ - : 0 9 a} (exhaustive, 55987 strings) and on the texts of the temporal literal forms
    alpha = "+-:09a"
    tz_vals = [""] + ["".join(t) for n in range(1, 7) for t in itertools.product(alpha, repeat=n)]
    tz_vals += ["16", "16Z", "16:30", "08:30:00", "08:30:00.5", "08:30:00Z", "08:30:00+01", "08:30:00+0100", "08:30:00+01:00", "08:30:00-0530", "2022-12-31",
                "2022-12-31T16:54:32+0100", "2022-12-31T16:54:32.5+01:00", "2022-12-31T16Z", "é+0100", "+0100é", "'+0100", "x" * 40 + "-0000"]
    tz_real = vh_batch([{"op": "hook_sqlite_date", "value": v} for v in tz_vals])
    if tz_real and not any(isinstance(r, dict) and (r.get("no_hooks") or r.get("error") == "bad-op" or r.get("bad_op")) for r in tz_real[:3]):
        tz_mod = drv_batch([f"sqlite_date\t{enc(v)}" for v in tz_vals], shards=vlib.NCPU)
        ntz = 0
        for v, r, m in zip(tz_vals, tz_real, tz_mod):
            ctx.case(("sqlite-tz", v), nontrivial=True)
            if not isinstance(r, dict) or r.get("sql") != dec(m):
                ntz += 1
                if isinstance(r, dict) and "panic" in r:
                    ctx.oracle_failure(None, f"the SQLite temporal literal kernel panics on the text {v!r}: {str(r.get('panic'))[:200]}", {"value": v, "answer": r})
                ctx.disagreement("sqlite time-zone suffix", f"translate_datetime_literal_with_sqlite_function on {v!r}: real {r!r}, Model.Lit.sqliteDateLiteral {dec(m)!r}",
                                 {"value": v, "real": r, "model": dec(m)})
        ctx.count("sqlite-tz:strings", len(tz_vals))
        ctx.obligation("correspondence: the SQLite time-zone rewrite of temporal literals = Model.Lit.sqliteTz on every string of length <= 6 over {+ - : 0 9 a}",
                       ntz == 0, f"{len(tz_vals)} strings, {ntz} differ")
    else:
        ctx.assumptions.append("the hook for the SQLite temporal literal kernel is not available in this tree: not compared this run")
    # which dialect tokenizers treat backslash as an escape (and which keep \% \_): probed, must equal the recorded set
    probe = vh_batch([{"op": "sqlparse", "dialect": d, "sql": "SELECT 'a\\\\b', '\\%'", "tokens": True} for d in dialects])
    for d, t in zip(dialects, probe):
        st = string_tokens(sig_tokens(t))
        if st and st[0][1] == "a\\b":
            stats["bs_mode"][d] = "bsw" if st[1][1] == "\\%" else "bs"
    ctx.obligation("backslash-escaping dialect set (sqlparser tokenizers) is the recorded one", set(stats["bs_mode"]) == BACKSLASH, str(stats["bs_mode"]))
    stats["bs_mode"].pop("bigquery", None)        # BigQuery also has '''…''' strings, which the backslash model does not cover

    # 0. recorded witnesses first
    corpus = ["\\'", "\\' OR 1=1 --", "''", "'''", "\\", "a\\", "\\\\", "'", "it's", "--", "/*", "*/", ";", "a\nb", "{", "}}", "é\U0001D11E", "%_", "\\%", "\x00", "a\x00b"]
    suite_strings(ctx, corpus, dialects, "corpus", True, stats)
    # 1. exhaustive small scope
    small = [""] + ["".join(p) for k in (1, 2) for p in itertools.product(ALPHA, repeat=k)]
    three = ["".join(p) for p in itertools.product(ALPHA, repeat=3)]
    suite_strings(ctx, small, dialects, "length<=2", True, stats)
    suite_strings(ctx, three, dialects, "length=3", thorough, stats)
    ctx.exhaustive = True
    # 2. random Unicode
    rv = random_values(ctx.rng, 12000 if thorough else 1200)
    suite_strings(ctx, rv, dialects, "random", True, stats)
    # 2b. source-first: every written form of a string / f-string / s-string / r-string, read by the reference reader
    suite_source_grid(ctx, grid_sources(thorough), "written forms", stats)
    suite_source_grid(ctx, random_sources(ctx.rng, 100000 if thorough else 15000), "written forms, random", stats)
    # 3. numbers
    suite_numbers(ctx, number_spellings(ctx.rng, 20000 if thorough else 2500), stats)
    # 4. booleans, null, dates
    suite_other_literals(ctx, dialects, stats)
    # 5. f-strings
    frs = small if thorough else [""] + ALPHA + ["".join(p) for p in itertools.product(ALPHA[:8], repeat=2)]
    suite_fstrings(ctx, frs, dialects, stats, ctx.rng, 3000 if thorough else 300)
    # 6. relation literals
    suite_relation_literals(ctx, small + rv[:200], stats, ctx.rng, 4000 if thorough else 500)

    # 7. the literal in every expression context (operands of operators / std functions / transforms), adversarial values x spellings
    suite_contexts(ctx, dialects, stats, thorough, ctx.rng)
    # 8. two spellings of one value compared with each other (every ordered pair); numbers and dates / times in their contexts
    suite_spelling_pairs(ctx, stats, thorough, ctx.rng)
    suite_number_contexts(ctx, stats, thorough, ctx.rng)

    unknown = {f"{k[0]}:{k[1]}": n for k, n in stats["fail"].items() if k[1] not in ctx.known}
    ctx.obligation("oracle: every literal reaches SQLite / every dialect's tokenizer as one token with the denoted value (outside recorded findings)",
                   not unknown, json.dumps({f"{k[0]}:{k[1]}": n for k, n in stats["fail"].items()})[:1500])
    ctx.coverage_extra["distribution"] = {
        "spelling_styles": dict(stats["styles"]), "numbers_by_token_class": dict(stats["numbers"]), "other_literals": dict(stats["other"]),
        "fstring_shapes": dict(stats["fstr_shapes"]), "relation_literal_rows": {str(k): v for k, v in stats["rel_rows"].items()},
        "written_forms_by_documented_reading": dict(stats["grid_ref"]),
        "sqlite_statements_executed": stats["sqlite_exec"], "dialect_tokenisations": stats["dialect_tok"],
        "context_grid": dict(stats.get("ctx", {})),
        "property_failures_by_site_and_class": {f"{k[0]}:{k[1]}": n for k, n in sorted(stats["fail"].items(), key=str)},
    }
    ctx.coverage_extra["timing_s"] = {k: v for k, v in stats.items() if k.startswith("t_")}
    ctx.sample({"value": "\\' OR 1=1 --", "prql": "from t | filter name == \"\\\\' OR 1=1 --\"", "sql": "SELECT * FROM t WHERE name = '\\'' OR 1=1 --'",
                "reads_back_as": "\\' OR 1=1 --"})


def replay(obj):
    if obj.get("kind") in ("no-failing-input-found", "correspondence") or obj.get("correspondence"):
        return vlib.replay_correspondence(obj)
    print(json.dumps(obj, indent=1, ensure_ascii=True)[:3000])
    for v in (obj.get("violations") or [obj]):
        r = v.get("replay", v)
        if isinstance(r, dict) and "prql" in r and r["prql"].startswith("from"):
            a = vh_batch([compile_req(r["prql"], r.get("dialect", "sqlite"))])[0]
            print("compile:", a)
            if "sql" in a and r.get("shims"):
                import c08ctx
                db = c08ctx.Db()
                db.con.execute("DROP TABLE k")
                for x in r.get("setup") or c08ctx.setup_sql(c08ctx.rows_for(r.get("value") if isinstance(r.get("value"), str) else "v")):
                    db.con.execute(x)
                print("sqlite :", db.run(a["sql"]), " expected:", r.get("expected"))
            elif "sql" in a and r.get("dialect", "sqlite") == "sqlite":
                print("sqlite :", sqlite_one(a["sql"], r.get("setup", SETUP)))
            elif "sql" in a:
                t = vh_batch([{"op": "sqlparse", "dialect": r["dialect"], "sql": a["sql"], "tokens": True}])[0]
                print("tokens :", string_tokens(sig_tokens(t)), t.get("tokenize_error"), t.get("parse_error"))
    return 0
