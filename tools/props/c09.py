"""C09 identifiers are referenced verbatim; generated names never capture user names."""
import itertools, json, re, sqlite3, time
from collections import Counter
import vlib
from vlib import vh_batch, drv_batch, enc, dec

MANIFEST = dict(
    text="Lean theorems over tables regenerated from the source (valid_ident regex, the keyword arrays of keywords.rs and the sqlparser "
         "reserved lists it pulls in, quote character / always-quoted per dialect, the name-generator prefixes) and mirrors of "
         "translate_ident_part (quote character doubled), sqlparser's Ident printer, assign_names and the anchor_split renaming loop: an "
         "identifier is emitted bare only if it matches the regex and is no keyword, and every SQLite reserved word is a keyword "
         "(bare_never_sqlite_reserved); a quoted identifier is its name with the quote character doubled (emit_ident_eq_doubling: doubling then "
         "sqlparser's 'may already be escaped' printer = plain doubling) and for every dialect the emitted identifier reads back as exactly the "
         "name for EVERY name except a bare one with a leading $ (ident_roundtrip_partial; ident_roundtrip_dollar_counterexample is the open "
         "finding that keeps the full statement false); names assigned by assign_names are pairwise distinct (assign_names_fresh) and named "
         "declarations that come first in id order keep their names (assign_names_keeps_leading), but a named extern table that comes after an "
         "anonymous declaration is renamed (assign_names_keeps_user_counterexample); generated ids are above all loaded ids (idgen_load_fresh); "
         "the anchor_split renaming yields distinct names unless a user column looks like a future generated name (split_names_unique_partial / "
         "split_names_unique_counterexample). Tied to the code by function-level runs of the hooks translate_ident_part / is_keyword on all "
         "keywords, regex boundary strings and random Unicode for all 12 dialects; by predicting CTE names from the RQ table list; and by an "
         "ORACLE on SQLite: programs whose tables, aliases and columns are drawn from keywords, mixed case, spaces, quotes, non-ASCII, "
         "table_0..3, _expr_0..3 in every position, executed against tables and columns created with those exact names whose every cell is "
         "tagged with its origin; for all 12 dialects the SQL must parse with that dialect's sqlparser and carry the exact names as identifier "
         "tokens. Every site that INVENTS a name is forced by its own templates (the same relation two or three times in one FROM list, self-join, "
         "a let-table joined with itself, user aliases next to invented ones, invented aliases inside CTEs / let-tables / inline join sides, "
         "recursive steps with extern tables and un-named sub-queries, several splits, inline relations on either side of a join, append operands "
         "wrapped in sub-queries, unnamed computed columns and aggregates kept across a split, helper columns of group-take and window rewrites) "
         "and run with the user's relations drawn from table_0..5 and columns from _expr_0..3 (full product per position kind, seed-independent); "
         "the resolver's global names _literal_<id> of relation literals are swept over _literal_0..299. QUALIFIED names stay distinct: two relations "
         "that share ALL their column names are joined (16 ways of making them: bare tables, aliases, the same table under two aliases, let-tables, "
         "aliased let-tables, one let-table twice, let + bare, a let that is itself a join, aliased sub-pipelines ending in select, declared tables "
         "(plain / aliased / twice), relation literals, let-tables in two modules with different and with the SAME name) and exactly one of the "
         "same-named columns is addressed by its qualifier in every position (select in both orders / one side / mixed / with aliases that swap "
         "the names / this.rel.col / rel.*, select !{..} of one side, both sides, k, a whole side, after derive / filter, derive incl. case, "
         "f-string, s-string, filter, sort, sort + take, across a split, group keys, aggregate arguments, window partitions, row_number, "
         "group-take, join conditions incl. ==k, this/that, this.rel.col, a third relation joined on one of the two): expected rows from the "
         "origin tags; for relations with unknown columns `select !{rel.col}` is judged on the EXCLUDE / EXCEPT dialects by reading the stars of "
         "the emitted projection.",
    note="names inside s-strings are opaque SQL and outside the property (a generated CTE name can capture a table named only inside an "
         "s-string); case folding of bare identifiers by the database is not modelled (prqlc emits bare only lower-case names); the 11 "
         "non-SQLite dialects are judged by sqlparser's parser, not by a database. Fixed in /repo: quote characters inside quoted identifiers "
         "(3b64e89), table qualifier vs column alias in deduplicate_select_items (d06ca49).",
    technique="Lean 4 proof over regenerated regex/keyword/dialect tables + hook-level differential run + origin-tagged SQLite oracle",
    ref="4/C09")

DIALECTS = ["ansi", "bigquery", "clickhouse", "duckdb", "generic", "glaredb", "mssql", "mysql", "postgres", "redshift", "sqlite", "snowflake"]
POOL = ["where", "having", "order", "union", "table", "index", "user", "limit", "Mixed", "UPPER", "my col", "a\"b", "it's", "é", "名前", "x-y", "1st", "$d",
        "table_0", "table_1", "table_2", "table_3", "_expr_0", "_expr_1", "_expr_2", "_expr_3", "q\"\"q", "b\\\"s", "semi;colon", "--c"]
PLAIN = dict(T="tbl1", U="tbl2", C="c1", D="c2", A="al", L="mylet", B="bl", M="mylet2")
NROWS = 3
# the names the two generators of the SQL backend (`table_N` for CTEs / relation aliases / sub-query aliases, `_expr_N` for columns) invent next:
# a program with k inventions before the critical one needs a user object called <prefix>k, so the pools reach past the largest counter value
# any template reaches (the append / loop templates get to table_5)
GEN_T = [f"table_{i}" for i in range(6)]
GEN_C = [f"_expr_{i}" for i in range(4)]
DB_NAMES = POOL + [n for n in GEN_T + GEN_C if n not in POOL] + list(PLAIN.values())
# templates whose position A is a relation alias (elsewhere A is a column alias)
A_IS_TABLE = {"table-alias", "alias-split", "join-alias-split", "alias-then-twice", "join-alias-thrice"}


def q(n):
    return "`" + n + "`"


def tag(t, c, i):
    return f"t:{t}/c:{c}/r:{i}"


# templates: (id, positions, source builder, expected rows, ordered?)
def templates():
    R = range(1, NROWS + 1)
    return [
        ("select", "TCD", lambda n: f"from {q(n['T'])} | select {{{q(n['C'])}, {q(n['D'])}}}",
         lambda n: [[tag(n['T'], n['C'], i), tag(n['T'], n['D'], i)] for i in R], False),
        ("alias", "TCA", lambda n: f"from {q(n['T'])} | select {{{q(n['A'])} = {q(n['C'])}}}",
         lambda n: [[tag(n['T'], n['C'], i)] for i in R], False),
        ("derive", "TCDA", lambda n: f"from {q(n['T'])} | derive {{{q(n['A'])} = {q(n['C'])}}} | select {{{q(n['A'])}, {q(n['D'])}}}",
         lambda n: [[tag(n['T'], n['C'], i), tag(n['T'], n['D'], i)] for i in R], False),
        ("join", "TUCD", lambda n: f"from {q(n['T'])} | join {q(n['U'])} (==k) | select {{{q(n['T'])}.{q(n['C'])}, {q(n['U'])}.{q(n['D'])}}}",
         lambda n: [[tag(n['T'], n['C'], i), tag(n['U'], n['D'], i)] for i in R], False),
        ("let", "TUCDL", lambda n: f"let {q(n['L'])} = (from {q(n['T'])} | select {{{q(n['C'])}, k}})\nfrom {q(n['L'])} | join {q(n['U'])} (==k) | "
                                   f"select {{{q(n['L'])}.{q(n['C'])}, {q(n['U'])}.{q(n['D'])}}}",
         lambda n: [[tag(n['T'], n['C'], i), tag(n['U'], n['D'], i)] for i in R], False),
        ("sort-take", "TCD", lambda n: f"from {q(n['T'])} | sort {{-{q(n['C'])}}} | take 2 | select {{{q(n['D'])}}}",
         lambda n: [[tag(n['T'], n['D'], i)] for i in (NROWS, NROWS - 1)], True),
        ("group-take", "TCD", lambda n: f"from {q(n['T'])} | group {{{q(n['C'])}}} (take 1) | select {{{q(n['C'])}, {q(n['D'])}}}",
         lambda n: [[tag(n['T'], n['C'], i), tag(n['T'], n['D'], i)] for i in R], False),
        ("split-join", "TUCD", lambda n: f"from {q(n['T'])} | take 3 | filter k > 0 | join {q(n['U'])} (==k) | select {{{q(n['T'])}.{q(n['C'])}, {q(n['U'])}.{q(n['D'])}}}",
         lambda n: [[tag(n['T'], n['C'], i), tag(n['U'], n['D'], i)] for i in R], False),
        ("split-unnamed", "TC", lambda n: f"from {q(n['T'])} | select {{{q(n['C'])}, k, k + 1}} | take 3 | filter k > 0 | select {{{q(n['C'])}}}",
         lambda n: [[tag(n['T'], n['C'], i)] for i in R], False),
        ("literal-then-extern", "TC", lambda n: f"let a = (from [{{k = 1}}] | take 1)\nfrom {q(n['T'])} | join a (==k) | select {{{q(n['T'])}.{q(n['C'])}}}",
         lambda n: [[tag(n['T'], n['C'], 1)]], False),
        ("split-duplicate", "TUCD", lambda n: f"from {q(n['T'])} | join {q(n['U'])} (==k) | select {{{q(n['T'])}.{q(n['C'])}, {q(n['T'])}.{q(n['D'])}, {q(n['U'])}.{q(n['D'])}}} | "
                                              f"take 5 | filter {q(n['C'])} != 'zz'",
         lambda n: [[tag(n['T'], n['C'], i), tag(n['T'], n['D'], i), tag(n['U'], n['D'], i)] for i in R], False),
        # the same split with the user's column AFTER the duplicated name, taken from either side
        ("split-duplicate-after-right", "TUCD", lambda n: f"from {q(n['T'])} | join {q(n['U'])} (==k) | select {{{q(n['T'])}.{q(n['D'])}, {q(n['U'])}.{q(n['D'])}, {q(n['U'])}.{q(n['C'])}}} | "
                                              f"take 5 | filter {q(n['C'])} != 'zz'",
         lambda n: [[tag(n['T'], n['D'], i), tag(n['U'], n['D'], i), tag(n['U'], n['C'], i)] for i in R], False),
        ("split-duplicate-after-left", "TUCD", lambda n: f"from {q(n['T'])} | join {q(n['U'])} (==k) | select {{{q(n['T'])}.{q(n['D'])}, {q(n['U'])}.{q(n['D'])}, {q(n['T'])}.{q(n['C'])}}} | "
                                              f"take 5 | filter {q(n['C'])} != 'zz'",
         lambda n: [[tag(n['T'], n['D'], i), tag(n['U'], n['D'], i), tag(n['T'], n['C'], i)] for i in R], False),
        # a recursive step that joins a multi-stage inline relation (emitted as a nested sub-query: CTEs are not available there)
        ("loop-join-subquery", "TUC", lambda n: f"from {q(n['T'])} | filter k == 1 | select {{k, {q(n['C'])}}} | loop (join side:inner c=(from {q(n['U'])} | filter k > 0 | take 100 | filter k > 1) "
                                                f"(c.k == this.k + 1) | select {{c.k, c.{q(n['C'])}}})",
         lambda n: [[1, tag(n['T'], n['C'], 1)], [2, tag(n['U'], n['C'], 2)], [3, tag(n['U'], n['C'], 3)]], False),
        ("aggregate", "TCA", lambda n: f"from {q(n['T'])} | group {{{q(n['C'])}}} (aggregate {{{q(n['A'])} = count this}})",
         lambda n: [[tag(n['T'], n['C'], i), 1] for i in R], False),
        ("table-alias", "TCA", lambda n: f"from {q(n['A'])} = {q(n['T'])} | select {{{q(n['A'])}.{q(n['C'])}}}",
         lambda n: [[tag(n['T'], n['C'], i)] for i in R], False),
        ("derive-sort", "TCA", lambda n: f"from {q(n['T'])} | derive {{{q(n['A'])} = {q(n['C'])}}} | sort {{{q(n['A'])}}} | select {{{q(n['A'])}}}",
         lambda n: [[tag(n['T'], n['C'], i)] for i in R], True),

        # ---- shapes that FORCE the compiler to invent a name (the user's names are drawn from the generated-name patterns) ----
        # relation aliases (RelVarNameAssigner): the same relation twice in one FROM list
        ("join-twice", "TUCD", lambda n: f"from {q(n['T'])} | join {q(n['U'])} (==k) | join {q(n['U'])} ({q(n['T'])}.k == that.k) | select {{{q(n['T'])}.{q(n['C'])}, {q(n['U'])}.{q(n['D'])}}}",
         lambda n: [[tag(n['T'], n['C'], i), tag(n['U'], n['D'], i)] for i in R], False),
        ("self-join", "TCD", lambda n: f"from {q(n['T'])} | join {q(n['T'])} (this.k == that.k) | select {{{q(n['T'])}.{q(n['C'])}, {q(n['T'])}.{q(n['D'])}}}",
         lambda n: [[tag(n['T'], n['C'], i), tag(n['T'], n['D'], i)] for i in R], False),
        ("join-thrice", "TUCD", lambda n: f"from {q(n['T'])} | join {q(n['U'])} (==k) | join {q(n['U'])} ({q(n['T'])}.k == that.k) | join {q(n['U'])} ({q(n['T'])}.k == that.k) | "
                                          f"select {{{q(n['T'])}.{q(n['C'])}, {q(n['U'])}.{q(n['D'])}}}",
         lambda n: [[tag(n['T'], n['C'], i), tag(n['U'], n['D'], i)] for i in R], False),
        # the user's relation comes AFTER the invented alias
        ("twice-then-user", "TUCD", lambda n: f"from {q(n['U'])} | join {q(n['U'])} (this.k == that.k) | join {q(n['T'])} ({q(n['T'])}.k == {q(n['U'])}.k) | "
                                              f"select {{{q(n['T'])}.{q(n['C'])}, {q(n['U'])}.{q(n['D'])}}}",
         lambda n: [[tag(n['T'], n['C'], i), tag(n['U'], n['D'], i)] for i in R], False),
        # CTE names are drawn first, the alias after them
        ("split-then-twice", "TUCD", lambda n: f"from {q(n['U'])} | take 3 | filter k > 0 | join {q(n['T'])} (==k) | join {q(n['T'])} ({q(n['U'])}.k == that.k) | "
                                               f"select {{{q(n['T'])}.{q(n['C'])}, {q(n['U'])}.{q(n['D'])}}}",
         lambda n: [[tag(n['T'], n['C'], i), tag(n['U'], n['D'], i)] for i in R], False),
        # the invented alias lives inside a CTE / a let-table / an inline join side
        ("twice-in-cte", "TUCD", lambda n: f"from {q(n['T'])} | join {q(n['U'])} (==k) | join {q(n['U'])} ({q(n['T'])}.k == that.k) | select {{{q(n['T'])}.{q(n['C'])}, {q(n['U'])}.{q(n['D'])}}} | "
                                           f"take 3 | filter {q(n['C'])} != 'zz'",
         lambda n: [[tag(n['T'], n['C'], i), tag(n['U'], n['D'], i)] for i in R], False),
        ("twice-in-let", "TUCDL", lambda n: f"let {q(n['L'])} = (from {q(n['T'])} | join {q(n['T'])} (this.k == that.k) | select {{{q(n['T'])}.{q(n['C'])}, k = {q(n['T'])}.k}})\n"
                                            f"from {q(n['L'])} | join {q(n['U'])} (==k) | select {{{q(n['L'])}.{q(n['C'])}, {q(n['U'])}.{q(n['D'])}}}",
         lambda n: [[tag(n['T'], n['C'], i), tag(n['U'], n['D'], i)] for i in R], False),
        ("twice-in-join-side", "TUCD", lambda n: f"from {q(n['T'])} | join s = (from {q(n['U'])} | join {q(n['U'])} (this.k == that.k) | select {{{q(n['U'])}.k, {q(n['U'])}.{q(n['D'])}}} | take 3) (==k) | "
                                                 f"select {{{q(n['T'])}.{q(n['C'])}, s.{q(n['D'])}}}",
         lambda n: [[tag(n['T'], n['C'], i), tag(n['U'], n['D'], i)] for i in R], False),
        ("let-twice", "TCL", lambda n: f"let {q(n['L'])} = (from {q(n['T'])} | select {{{q(n['C'])}, k}} | take 3)\nfrom {q(n['L'])} | join {q(n['L'])} (this.k == that.k) | select {{{q(n['L'])}.{q(n['C'])}}}",
         lambda n: [[tag(n['T'], n['C'], i)] for i in R], False),
        # a user ALIAS next to an invented one
        ("alias-then-twice", "TUCDA", lambda n: f"from {q(n['A'])} = {q(n['T'])} | join {q(n['U'])} (==k) | join {q(n['U'])} ({q(n['A'])}.k == that.k) | select {{{q(n['A'])}.{q(n['C'])}, {q(n['U'])}.{q(n['D'])}}}",
         lambda n: [[tag(n['T'], n['C'], i), tag(n['U'], n['D'], i)] for i in R], False),
        ("join-alias-thrice", "TUCDA", lambda n: f"from {q(n['T'])} | join {q(n['A'])} = {q(n['U'])} (==k) | join {q(n['U'])} ({q(n['T'])}.k == that.k) | join {q(n['U'])} ({q(n['T'])}.k == that.k) | "
                                                 f"select {{{q(n['T'])}.{q(n['C'])}, {q(n['A'])}.{q(n['D'])}}}",
         lambda n: [[tag(n['T'], n['C'], i), tag(n['U'], n['D'], i)] for i in R], False),
        # a recursive step joining an extern table (the recursive CTE, its reference and the final alias are all invented)
        ("loop-join", "TUC", lambda n: f"from {q(n['T'])} | filter k == 1 | select {{k, {q(n['C'])}}} | loop (join side:inner {q(n['U'])} ({q(n['U'])}.k == this.k + 1) | select {{{q(n['U'])}.k, {q(n['U'])}.{q(n['C'])}}})",
         lambda n: [[1, tag(n['T'], n['C'], 1)], [2, tag(n['U'], n['C'], 2)], [3, tag(n['U'], n['C'], 3)]], False),
        # ... and a recursive step whose FROM list holds a user table BEFORE an un-named sub-query (the sub-query's alias is invented there)
        ("loop-table-then-subquery", "TUC", lambda n: f"from {q(n['T'])} | filter k == 1 | select {{k, {q(n['C'])}}} | loop (join side:inner {q(n['U'])} ({q(n['U'])}.k == this.k + 1) | "
                                                      f"join side:inner c=(from {q(n['T'])} | filter k > 0 | take 100 | filter k > 1) (c.k == {q(n['U'])}.k) | select {{c.k, {q(n['U'])}.{q(n['C'])}}})",
         lambda n: [[1, tag(n['T'], n['C'], 1)], [2, tag(n['U'], n['C'], 2)], [3, tag(n['U'], n['C'], 3)]], False),
        # CTE names (assign_names): several splits, let-tables, aliases, inline sides, set operations
        ("double-split", "TUCD", lambda n: f"from {q(n['T'])} | take 3 | filter k > 1 | take 3 | filter k > 2 | join {q(n['U'])} (==k) | select {{{q(n['T'])}.{q(n['C'])}, {q(n['U'])}.{q(n['D'])}}}",
         lambda n: [[tag(n['T'], n['C'], 3), tag(n['U'], n['D'], 3)]], False),
        ("let-split", "TUCDL", lambda n: f"let {q(n['L'])} = (from {q(n['T'])} | select {{{q(n['C'])}, k}} | take 3)\nfrom {q(n['L'])} | filter k > 1 | take 3 | filter k > 2 | join {q(n['U'])} (==k) | "
                                         f"select {{{q(n['L'])}.{q(n['C'])}, {q(n['U'])}.{q(n['D'])}}}",
         lambda n: [[tag(n['T'], n['C'], 3), tag(n['U'], n['D'], 3)]], False),
        ("alias-split", "TUCDA", lambda n: f"from {q(n['A'])} = {q(n['T'])} | take 3 | filter k > 0 | join {q(n['U'])} (==k) | select {{{q(n['A'])}.{q(n['C'])}, {q(n['U'])}.{q(n['D'])}}}",
         lambda n: [[tag(n['T'], n['C'], i), tag(n['U'], n['D'], i)] for i in R], False),
        ("join-alias-split", "TUCDA", lambda n: f"from {q(n['T'])} | join {q(n['A'])} = {q(n['U'])} (==k) | take 3 | filter {q(n['T'])}.k > 0 | select {{{q(n['T'])}.{q(n['C'])}, {q(n['A'])}.{q(n['D'])}}}",
         lambda n: [[tag(n['T'], n['C'], i), tag(n['U'], n['D'], i)] for i in R], False),
        ("inline-join-side", "TUCD", lambda n: f"from {q(n['T'])} | join s = (from {q(n['U'])} | select {{k, {q(n['D'])}}} | take 3) (==k) | select {{{q(n['T'])}.{q(n['C'])}, s.{q(n['D'])}}}",
         lambda n: [[tag(n['T'], n['C'], i), tag(n['U'], n['D'], i)] for i in R], False),
        ("inline-both-sides", "TUCD", lambda n: f"from (from {q(n['T'])} | select {{k, {q(n['C'])}}} | take 3) | join s = (from {q(n['U'])} | select {{k, {q(n['D'])}}} | take 3) (==k) | select {{{q(n['C'])}, s.{q(n['D'])}}}",
         lambda n: [[tag(n['T'], n['C'], i), tag(n['U'], n['D'], i)] for i in R], False),
        ("append-inline", "TUC", lambda n: f"from {q(n['T'])} | select {{{q(n['C'])}}} | append (from {q(n['U'])} | select {{{q(n['C'])}}} | take 3)",
         lambda n: [[tag(t, n['C'], i)] for t in (n['T'], n['U']) for i in R], False),
        ("append-both-wrapped", "TUC", lambda n: f"from {q(n['T'])} | select {{{q(n['C'])}}} | take 3 | append (from {q(n['U'])} | select {{{q(n['C'])}}} | take 3)",
         lambda n: [[tag(t, n['C'], i)] for t in (n['T'], n['U']) for i in R], False),
        ("append-split", "TUC", lambda n: f"from {q(n['T'])} | select {{k, {q(n['C'])}}} | take 3 | filter k > 0 | append (from {q(n['U'])} | select {{k, {q(n['C'])}}} | take 3 | filter k > 1) | select {{{q(n['C'])}}}",
         lambda n: [[tag(n['T'], n['C'], i)] for i in R] + [[tag(n['U'], n['C'], i)] for i in R if i > 1], False),
        ("group-take-join", "TUCD", lambda n: f"from {q(n['T'])} | group {{{q(n['C'])}}} (take 1) | join {q(n['U'])} (==k) | select {{{q(n['T'])}.{q(n['C'])}, {q(n['U'])}.{q(n['D'])}}}",
         lambda n: [[tag(n['T'], n['C'], i), tag(n['U'], n['D'], i)] for i in R], False),
        # column names (ensure_column_name / helper columns of the take and window rewrites): the invented column is KEPT next to the user's
        ("unnamed-kept", "TC", lambda n: f"from {q(n['T'])} | select {{{q(n['C'])}, k, k + 1}} | take 3 | filter k > 0",
         lambda n: [[tag(n['T'], n['C'], i), i, i + 1] for i in R], False),
        ("unnamed-two", "TCD", lambda n: f"from {q(n['T'])} | select {{{q(n['C'])}, k + 1, {q(n['D'])}, k + 2}} | take 3 | filter {q(n['C'])} != 'zz'",
         lambda n: [[tag(n['T'], n['C'], i), i + 1, tag(n['T'], n['D'], i), i + 2] for i in R], False),
        ("unnamed-first", "TCD", lambda n: f"from {q(n['T'])} | select {{k + 1, {q(n['C'])}, {q(n['D'])}}} | take 3 | filter {q(n['D'])} != 'zz'",
         lambda n: [[i + 1, tag(n['T'], n['C'], i), tag(n['T'], n['D'], i)] for i in R], False),
        ("group-sort-take", "TCD", lambda n: f"from {q(n['T'])} | group {{{q(n['C'])}}} (sort {{{q(n['D'])}}} | take 1) | select {{{q(n['C'])}, {q(n['D'])}}}",
         lambda n: [[tag(n['T'], n['C'], i), tag(n['T'], n['D'], i)] for i in R], False),
        ("window-filter", "TCA", lambda n: f"from {q(n['T'])} | sort {{{q(n['C'])}}} | derive {{{q(n['A'])} = row_number this}} | filter {q(n['A'])} > 1 | select {{{q(n['C'])}, {q(n['A'])}}}",
         lambda n: [[tag(n['T'], n['C'], i), i] for i in R if i > 1], True),
        ("aggregate-unnamed-split", "TCD", lambda n: f"from {q(n['T'])} | group {{{q(n['C'])}, {q(n['D'])}}} (aggregate {{count this}}) | take 3 | filter {q(n['C'])} != 'zz'",
         lambda n: [[tag(n['T'], n['C'], i), tag(n['T'], n['D'], i), 1] for i in R], False),
        ("sort-hidden-key", "TC", lambda n: f"from {q(n['T'])} | sort {{k + 1}} | select {{{q(n['C'])}}} | take 3 | filter {q(n['C'])} != 'zz'",
         lambda n: [[tag(n['T'], n['C'], i)] for i in R], True),
    ]


def sq(n):
    return '"' + n.replace('"', '""') + '"'


def make_db():
    con = sqlite3.connect(":memory:")
    names = DB_NAMES
    cols = [c for c in names]
    for t in names:
        con.execute(f"CREATE TABLE {sq(t)} (k INTEGER, " + ", ".join(f"{sq(c)} TEXT" for c in cols) + ")")
        for i in range(1, NROWS + 1):
            con.execute(f"INSERT INTO {sq(t)} VALUES (" + ",".join(["?"] * (len(cols) + 1)) + ")", [i] + [tag(t, c, i) for c in cols])
    return con


def run_sql(con, sql):
    # guard against a statement that does not terminate (a recursive step that binds to the wrong relation): abort after ~2e7 VM steps
    budget = [200]
    def tick():
        budget[0] -= 1
        return 1 if budget[0] < 0 else 0
    con.set_progress_handler(tick, 100000)
    try:
        cur = con.execute(sql)
        return [list(r) for r in cur.fetchall()], None
    except Exception as e:
        return None, f"{type(e).__name__}: {e}"
    finally:
        con.set_progress_handler(None, 0)


def compile_req(prql, dialect="sqlite"):
    return {"op": "compile", "prql": prql, "target": "sql." + dialect, "format": False, "signature": False}


def words(ans):
    return [t["Word"] for t in ans.get("tokens", []) if isinstance(t, dict) and "Word" in t]


def cte_names(ans):
    toks = [t for t in ans.get("tokens", []) if not (isinstance(t, dict) and "Whitespace" in t)]
    out = []
    for a, b, c in zip(toks, toks[1:], toks[2:]):
        if isinstance(a, dict) and "Word" in a and isinstance(b, dict) and b.get("Word", {}).get("keyword") == "AS" and c == "LParen":
            out.append(a["Word"]["value"])
    return out


def ident_class(dialect, name, quote):
    """finding classes for identifier quoting (call site translate_ident_part + predicate on the name).  Only ids `open` in
    known_findings.json excuse a failure; `ident-already-escaped-heuristic` is fixed (3b64e89) and is reported again if it returns."""
    if name.startswith("$") and re.fullmatch(r"[a-z0-9_$]+", name) and dialect != "snowflake":
        return "dollar-leading-identifier-emitted-bare"
    if dialect == "ansi" and name.startswith("_") and re.fullmatch(r"[a-z0-9_$]+", name):
        return "underscore-leading-identifier-bare-on-ansi"
    if quote + quote in name or "\\" + quote in name:
        return "ident-already-escaped-heuristic"
    return None


CLASS_PRIORITY = ["dollar-leading-identifier-emitted-bare", "underscore-leading-identifier-bare-on-ansi", "ident-already-escaped-heuristic"]


def pick_class(classes):
    """one failure, several candidate causes: the open, independently sufficient causes first (a bare `$d` or a bare `_x` on ansi breaks the
    statement whatever else it contains); the fixed quote-character class only when nothing else explains the failure"""
    for c in CLASS_PRIORITY:
        if c in classes:
            return c
    return None


def sql_class(dialect, sql):
    """the same predicates on the emitted text (generated names `_expr_N` are bare words starting with `_`)"""
    if dialect == "ansi" and re.search(r"(?<![\w\"$])_[a-z0-9_$]*", re.sub(r"'(?:[^']|'')*'|\"(?:[^\"]|\"\")*\"", "", sql)):
        return "underscore-leading-identifier-bare-on-ansi"
    return None


# ---------------------------------------------------------------------------------------------------------------

def suite_hooks(ctx, br, S_ident, S_kw, rng, thorough, stats):
    kws = S_kw.get("all", [])
    names = set(POOL)
    for k in kws:
        names |= {k, k.lower(), k.capitalize(), k.lower() + "_", "_" + k.lower(), k.lower()[:-1]}
    # regex boundary strings: characters around the class edges, in first and later position
    edge = set()
    for lo, hi in [tuple(p) for p in S_ident.get("start", []) + S_ident.get("cont", [])]:
        for c in (lo, hi):
            for d in (-1, 0, 1):
                if 0 < ord(c) + d < 0x110000:
                    edge.add(chr(ord(c) + d))
    edge |= set("*AZaz09_$ .-\"'`\\é\n")
    for c in edge:
        names |= {c, "a" + c, c + "a", "a" + c + "b", c + c}
    names |= {"", "*", "**", "a*", "*a", "a" * 70, "ｆｕｌｌ", "ǅ", "ß", "İ", "ı", "ſelect", "ſ", "K"}      # U+212A KELVIN, long s: non-ASCII case folding must not apply
    for _ in range(20000 if thorough else 2000):
        L = rng.randrange(1, 9)
        k = rng.random()
        if k < 0.4:
            names.add("".join(rng.choice("abz_$019AZ .-\"'\\*é") for _ in range(L)))
        elif k < 0.7:
            w = rng.choice(kws) if kws else "select"
            names.add("".join(ch.upper() if rng.random() < 0.5 else ch.lower() for ch in w))
        else:
            names.add("".join(chr(rng.choice([rng.randrange(32, 127), rng.randrange(0xa0, 0x800), rng.randrange(0x800, 0xd800), rng.randrange(0xe000, 0x110000)])) for _ in range(L)))
    names = sorted(n for n in names if "`" not in n or True)
    nbad = 0
    if not br.hooks:
        ctx.obligation("correspondence (hooks): translate_ident_part / is_keyword = Model.Names", True, "SKIPPED: harness built without the verif feature")
        return
    for d in DIALECTS:
        impl = vh_batch([{"op": "hook_ident", "ident": n, "dialect": d} for n in names])
        implk = vh_batch([{"op": "hook_is_keyword", "ident": n, "dialect": d} for n in names])
        mod = drv_batch([f"ident\t{d}\t{enc(n)}" for n in names])
        modv = drv_batch([f"ident_value\t{d}\t{enc(n)}" for n in names])
        modk = drv_batch([f"is_keyword\t{d}\t{enc(n)}" for n in names])
        for n, i, ik, m, mk, mv in zip(names, impl, implk, mod, modk, modv):
            ctx.case(("hook", d, n), nontrivial=bool(n.strip()))
            want = "bare" if i.get("quote") is None else f"quoted {ord(i['quote'])}"
            stats["hook"][want.split(" ")[0]] += 1
            if i.get("value") != dec(mv) or not m.startswith(want + " ") and m != want + " ":
                nbad += 1
                ctx.disagreement("translate_ident_part", f"hook and model differ on {n!r} for {d}", {"ident": n, "dialect": d, "impl": i, "model": m})
            if str(ik.get("keyword")).lower() != mk:
                nbad += 1
                ctx.disagreement("is_keyword", f"hook and model differ on {n!r} for {d}", {"ident": n, "dialect": d, "impl": ik, "model": mk})
    ctx.obligation("correspondence (hooks): translate_ident_part / is_keyword = Model.Names on keywords (3 casings, near misses), regex boundary "
                   "strings, the name pool and random Unicode, all 12 dialects", nbad == 0, f"{len(names)} names x {len(DIALECTS)} dialects, {nbad} disagreements")


_EMIT = {}


def emit_text(name, dialect="sqlite"):
    k = (dialect, name)
    if k not in _EMIT:
        x = drv_batch([f"ident\t{dialect}\t{enc(name)}"])[0]
        _EMIT[k] = dec(x.split(" ", 2 if x.startswith("quoted") else 1)[-1])
    return _EMIT[k]


def rq_tables(rq):
    out = []
    for t in rq.get("tables", []):
        kind = t["relation"]["kind"]
        ext = None
        if "ExternRef" in kind:
            lt = kind["ExternRef"].get("LocalTable")
            ext = ".".join(lt) if isinstance(lt, list) else lt
        out.append((t["id"], ext if ext is not None else t.get("name"), ext is not None))
    return sorted(out)


def suite_oracle(ctx, br, progs, con, stats, dialects, label):
    """progs: [(template id, names dict, source, expected rows, ordered)]"""
    comp = vh_batch([compile_req(p[2]) for p in progs])
    rqs = vh_batch([{"op": "rq", "prql": p[2]} for p in progs])
    tokreq = vh_batch([{"op": "sqlparse", "dialect": "sqlite", "sql": a.get("sql", ""), "tokens": True} for a in comp])
    # model: CTE names from the RQ table list
    lines, idx = [], []
    for k, r in enumerate(rqs):
        if "rq" in r:
            tabs = rq_tables(r["rq"])
            lines.append("assign\t" + enc("table_") + "\t0\t" + "\t".join((enc(n) if n is not None and n != "" else "-") for _, n, _ in tabs)); idx.append((k, tabs))
    pred = {}
    for (k, tabs), m in zip(idx, drv_batch(lines)):
        pred[k] = (tabs, m)
    nbad_assign = 0
    # identifier text in the SQL = model
    uniq = sorted({n for p in progs for n in p[1].values()})
    mtext = dict(zip(uniq, [dec(x.split(" ", 2 if x.startswith("quoted") else 1)[-1]) for x in drv_batch([f"ident\tsqlite\t{enc(n)}" for n in uniq])]))
    nbad_text = 0
    for k, (p, a, t) in enumerate(zip(progs, comp, tokreq)):
        tid, names, src, want, ordered = p
        ctx.case(("oracle", src), nontrivial="sql" in a)
        stats["templates"][tid] += 1
        for pos, n in names.items():
            stats["name_kinds"][kind_of(n)] += 1
        if "sql" not in a:
            ctx.oracle_failure("program-rejected", f"a well-formed program over quoted names does not compile: {src!r}",
                               {"prql": src, "errors": [e.get("reason") for e in a.get("errors", [])], "panic": a.get("panic")})
            continue
        sql = a["sql"]
        used = {n for pos, n in names.items() if pos in tid_positions(tid)}
        for n in used:
            if mtext[n] not in sql:
                nbad_text += 1
                ctx.disagreement("identifier text", f"the text Model.Names.emitIdent predicts for {n!r} does not occur in the SQL", {"prql": src, "sql": sql, "model": mtext[n]})
        renamed = None
        if k in pred and tid not in NO_CTE_MODEL:      # nested sub-queries of a recursive step / of a set operation get no CTE name: not modelled
            tabs, m = pred[k]
            if m.startswith("ok "):
                assigned = [dec(x) for x in m.split(" ", 2)[2].split(";")] if len(m.split(" ", 2)) > 2 else []
                for (tid_, nm, ext), asg in zip(tabs, assigned):
                    if ext and asg != nm:
                        renamed = (nm, asg)
                    etxt = emit_text(asg)
                    if (not ext and not re.search(r"(WITH|WITH RECURSIVE|,) " + re.escape(etxt) + r" AS \(", sql)) or (ext and etxt not in sql):
                        nbad_assign += 1
                        ctx.disagreement("assign_names", f"the CTE / table name Model.Names.assignSeq predicts ({asg!r}) does not occur in the SQL",
                                         {"prql": src, "sql": sql, "rq_tables": tabs, "model": assigned})
        got, err = run_sql(con, sql)
        stats["sqlite_exec"] += 1
        ok = got is not None and (got == want if ordered else sorted(map(repr, got)) == sorted(map(repr, want)))
        if not ok:
            fid = None
            bad = pick_class([ident_class("sqlite", n, '"') for n in used])
            if bad and bad != "ident-already-escaped-heuristic":
                fid = bad
            elif renamed:
                fid = "extern-table-renamed-by-assign-names"
            elif ((tid.startswith("split-") and (re.fullmatch(r"_expr_\d+", names["C"]) or re.fullmatch(r"_expr_\d+", names["D"])))
                  or (sql.startswith("WITH ") and sum(1 for p_ in "CDA" if p_ in tid_positions(tid) and re.fullmatch(r"_expr_\d+", names[p_])) >= 2)):
                # a split whose columns hold a duplicate / a column still to be named, next to user columns called like generated names:
                # the first generated name clashes, the regenerated one is not re-checked (two user columns _expr_0/_expr_1 suffice)
                fid = "split-regenerated-name-not-rechecked"
            elif any(re.fullmatch(r"_expr_\d+", names[p_]) and re.search(r" AS " + names[p_] + r"\b", sql + " ") is None and names[p_] + "." in sql
                     for p_ in "TU" if p_ in tid_positions(tid)):
                fid = "dedup-conflates-qualifier-and-alias"
            elif quoted_duplicate_dropped(want, got, names):
                fid = "same-named-quoted-column-of-second-relation-dropped"
            elif bad:
                fid = bad          # the (fixed) quote-character class: only when no open cause explains the failure
            stats["fail"][("sqlite", tid, fid)] += 1
            ctx.oracle_failure(fid, f"{tid}: names bind to the wrong objects or the statement fails: {err or str(got)[:160]}",
                               {"prql": src, "dialect": "sqlite", "sql": sql, "expected": want, "observed": got if got is not None else err},
                               det_key=(src,) if src in DET_SRCS or sum(1 for p_, v_ in names.items() if PLAIN.get(p_) != v_) <= 1 else None)
        elif renamed:
            ctx.disagreement("assign_names", "the model predicts that an extern table is renamed but the result is right", {"prql": src, "sql": sql, "renamed": renamed})
    ctx.obligation(f"correspondence[{label}]: identifier text in the emitted SQL = Model.Names.emitIdent", nbad_text == 0, f"{len(progs)} programs")
    ctx.obligation(f"correspondence[{label}]: CTE / extern table names = Model.Names.assignSeq over the RQ declarations in id order", nbad_assign == 0, f"{len(pred)} programs")
    # all dialects: parses, and the identifier tokens carry the exact names
    sel = [p for k, p in enumerate(progs)]
    reqs, meta = [], []
    for p in sel:
        for d in dialects:
            if d != "sqlite":
                reqs.append(compile_req(p[2], d)); meta.append((p, d))
    comp = vh_batch(reqs)
    toks = vh_batch([{"op": "sqlparse", "dialect": d, "sql": a.get("sql", ""), "tokens": True} for (p, d), a in zip(meta, comp)])
    quote_of = stats["quote_of"]
    for (p, d), a, t in zip(meta, comp, toks):
        tid, names, src, want, ordered = p
        ctx.case(("dialect", d, src), nontrivial="sql" in a)
        used = {n for pos, n in names.items() if pos in tid_positions(tid)}
        if "sql" not in a:
            stats["fail"][(d, tid, "program-rejected")] += 1
            ctx.oracle_failure("program-rejected", f"sql.{d}: program does not compile: {src!r}", {"prql": src, "dialect": d, "errors": [e.get("reason") for e in a.get("errors", [])]})
            continue
        vals = {w["value"] for w in words(t)}
        missing = [n for n in used if n not in vals]
        if t.get("statements") != 1 or missing:
            fid = pick_class([ident_class(d, n, quote_of.get(d, '"')) for n in used] + [sql_class(d, a["sql"])])
            stats["fail"][(d, tid, fid)] += 1
            ctx.oracle_failure(fid, f"sql.{d}: the SQL does not parse or does not carry the names {missing!r} as identifier tokens",
                               {"prql": src, "dialect": d, "sql": a["sql"], "missing": missing, "err": t.get("tokenize_error") or t.get("parse_error")})


def quoted_duplicate_dropped(want, got, names, quote='"'):
    """class predicate of the finding `same-named-quoted-column-of-second-relation-dropped`: the observed rows are EXACTLY the expected rows
    without the cells of those columns whose name contains the quote character and equals the name of a column further left in the row
    (column names are read off the origin tags); anything else - another column missing, a wrong cell, a failing statement - is not this class"""
    if got is None or not want:
        return False
    def reduce(row):
        seen, out = set(), []
        for c in row:
            m = re.fullmatch(r"t:.*?/c:(.*)/r:\d+", c, re.S) if isinstance(c, str) else None
            l = re.fullmatch(r"lit:[ab]/([CD])/\d+", c) if isinstance(c, str) else None
            nm = m.group(1) if m else names.get(l.group(1)) if l else None
            if nm is not None and quote in nm:
                if nm in seen:
                    continue
                seen.add(nm)
            out.append(c)
        return out
    red = [reduce(r) for r in want]
    return red != [list(r) for r in want] and sorted(map(repr, red)) == sorted(map(repr, got))


TEMPL_POS = {}
NO_CTE_MODEL = {"loop-join-subquery", "loop-table-then-subquery", "append-inline", "append-both-wrapped", "append-split"}


def tid_positions(tid):
    return TEMPL_POS[tid]


def kind_of(n):
    if re.fullmatch(r"table_\d+|_expr_\d+", n):
        return "generated-pattern"
    if n in PLAIN.values():
        return "plain"
    if n.lower() in ("where", "having", "order", "union", "table", "index", "user", "limit"):
        return "keyword"
    if any(ord(c) > 127 for c in n):
        return "non-ascii"
    if any(c in n for c in "\"'\\"):
        return "quotes"
    if n != n.lower():
        return "mixed-case"
    return "other-special"


def _init_templates():
    T = templates()
    for tid, pos, *_ in T:
        TEMPL_POS[tid] = set(pos)
    return T


def build_programs(rng, n_random):
    T = _init_templates()
    progs = []
    for tid, pos, mk, ex, ordered in T:
        for p in pos:
            for name in POOL:
                names = dict(PLAIN)
                names[p] = name
                progs.append((tid, names, mk(names), ex(names), ordered))
    for _ in range(n_random):
        tid, pos, mk, ex, ordered = rng.choice(T)
        pick = rng.sample(POOL, len(pos))
        names = dict(PLAIN)
        for p, nme in zip(pos, pick):
            names[p] = nme
        progs.append((tid, names, mk(names), ex(names), ordered))
    seen, out = set(), []
    for p in progs:
        if p[2] not in seen:
            seen.add(p[2]); out.append(p)
    return out


def pos_pool(tid, p):
    """the generated-name pattern a position can collide with: relation positions (table, second table, let name, relation alias) draw from
    table_N, column positions (column, second column, column alias) from _expr_N"""
    return GEN_T if p in "TUL" or (p == "A" and tid in A_IS_TABLE) else GEN_C


def build_capture_programs(rng, n_random, skip, full):
    """every template with its positions drawn from the generated-name patterns, seed-independent: the product of the relation positions over
    {plain, table_0..5} with plain columns, and the product of the column positions over {plain, _expr_0..3} with plain relations (pairwise
    distinct names); `full` (thorough tier): the product over all positions at once. The random part mixes generated-pattern names with
    plain and pool names in all positions"""
    T = _init_templates()
    det, out, seen = [], [], set(skip)
    for tid, pos, mk, ex, ordered in T:
        rel = [p for p in pos if pos_pool(tid, p) is GEN_T]
        groups = [list(pos)] if full else [rel, [p for p in pos if p not in rel]]
        for grp in groups:
            for pick in itertools.product(*[[PLAIN[p]] + pos_pool(tid, p) for p in grp]):
                names = dict(PLAIN)
                names.update(zip(grp, pick))
                if len(set(names[p] for p in pos)) < len(pos):
                    continue
                src = mk(names)
                if src not in seen:
                    seen.add(src); det.append((tid, names, src, ex(names), ordered))
    for _ in range(n_random):
        tid, pos, mk, ex, ordered = rng.choice(T)
        names = dict(PLAIN)
        for p in pos:
            k = rng.random()
            names[p] = rng.choice(pos_pool(tid, p)) if k < 0.6 else rng.choice(GEN_T + GEN_C) if k < 0.75 else rng.choice(POOL) if k < 0.9 else PLAIN[p]
        if len(set(names[p] for p in pos)) < len(pos):
            continue
        src = mk(names)
        if src not in seen:
            seen.add(src); out.append((tid, names, src, ex(names), ordered))
    DET_SRCS.update(p[2] for p in det)
    return det + out


# ---------------------------------------------------------------------------------------------------------------
# QUALIFIED names stay distinct: two relations that share ALL their column names (k and the two tagged columns) are joined and the program
# addresses exactly one of the same-named columns by its qualifier, in every position a qualified name can stand in.  A template is
# (relation kind) x (tail): the kind says how the two relations come into being and what their qualifiers are, the tail is the rest of the
# pipeline together with the join condition it needs.  Expected rows are computed from the joined row pairs (i, j) and the origin tags.
QUAL_SPECIAL = [n for n in POOL if not re.fullmatch(r"table_\d+|_expr_\d+", n) and n != "$d"]
QUAL_JOINS = {      # condition text from the two qualifiers, joined pairs (row of the left relation, row of the right relation)
    "eqk": (lambda a, b: "==k", [(i, i) for i in range(1, NROWS + 1)]),
    "sum4": (lambda a, b: f"{a}.k + {b}.k == 4", [(i, 4 - i) for i in range(1, NROWS + 1)]),
    "shift": (lambda a, b: f"{a}.k == {b}.k + 1", [(j + 1, j) for j in range(1, NROWS)]),
    "shift-rev": (lambda a, b: f"{b}.k == {a}.k + 1", [(i, i + 1) for i in range(1, NROWS)]),
    "thisthat": (lambda a, b: "this.k == that.k + 1", [(j + 1, j) for j in range(1, NROWS)]),
    "thisthat-qual": (lambda a, b: f"this.{a}.k == that.{b}.k + 1", [(j + 1, j) for j in range(1, NROWS)]),
    "le": (lambda a, b: f"{a}.k <= {b}.k", [(i, j) for i in range(1, NROWS + 1) for j in range(i, NROWS + 1)]),
}


def _qcols(n):
    return f"{{k, {q(n['C'])}, {q(n['D'])}}}"


def _qdecl(n, t):
    return f"let {q(n[t])} <[{{k = int, {q(n['C'])} = text, {q(n['D'])} = text}}]>"


def _qlit(n, side):
    return "[" + ", ".join(f"{{k = {i}, {q(n['C'])} = 'lit:{side}/C/{i}', {q(n['D'])} = 'lit:{side}/D/{i}'}}" for i in range(1, NROWS + 1)) + "]"


def qual_kinds():
    """(kind, letters of the relation names that certainly occur in the SQL, column lists known to the compiler?, prelude, left relation,
    right relation, left qualifier, right qualifier, position letters of the extern tables behind the two sides / None for literals)"""
    let1 = lambda n: f"let {q(n['L'])} = (from {q(n['T'])} | select {_qcols(n)})\n"
    let2 = lambda n: f"let {q(n['M'])} = (from {q(n['U'])} | select {_qcols(n)})\n"
    decl2 = lambda n: f"module default_db {{ {_qdecl(n, 'T')}\n{_qdecl(n, 'U')} }}\n"
    decl1 = lambda n: f"module default_db {{ {_qdecl(n, 'T')} }}\n"
    none = lambda n: ""
    T, U, A, B, L, M = (lambda n, p=p: q(n[p]) for p in "TUABLM")
    al = lambda x, y: (lambda n: f"{x(n)} = {y(n)}")
    return [
        ("extern", "TU", False, none, T, U, T, U, "TU"),
        ("alias", "TUAB", False, none, al(A, T), al(B, U), A, B, "TU"),
        ("twice", "TAB", False, none, al(A, T), al(B, T), A, B, "TT"),
        ("let", "TULM", True, lambda n: let1(n) + let2(n), L, M, L, M, "TU"),
        ("let-alias", "TUAB", True, lambda n: let1(n) + let2(n), al(A, L), al(B, M), A, B, "TU"),
        ("let-twice", "TLAB", True, let1, al(A, L), al(B, L), A, B, "TT"),
        ("let-extern", "TUL", False, let1, L, U, L, U, "TU"),
        ("extern-let", "TUM", False, let2, T, M, T, M, "TU"),
        # the left side is itself the result of a join that picked its columns by qualifier: C comes from U, D from T
        ("let-of-join", "TULM", True, lambda n: f"let {q(n['L'])} = (from {q(n['T'])} | join {q(n['U'])} (==k) | select {{k = {q(n['T'])}.k, {q(n['C'])} = {q(n['U'])}.{q(n['C'])}, "
                                                f"{q(n['D'])} = {q(n['T'])}.{q(n['D'])}}})\n" + let2(n), L, M, L, M, ({"C": "U", "D": "T"}, {"C": "U", "D": "U"})),
        ("sub", "TU", True, none, lambda n: f"{q(n['A'])} = (from {q(n['T'])} | select {_qcols(n)})", lambda n: f"{q(n['B'])} = (from {q(n['U'])} | select {_qcols(n)})", A, B, "TU"),
        ("declared", "TU", True, decl2, T, U, T, U, "TU"),
        ("declared-alias", "TUAB", True, decl2, al(A, T), al(B, U), A, B, "TU"),
        ("declared-twice", "TAB", True, decl1, al(A, T), al(B, T), A, B, "TT"),
        ("literal", "", True, none, lambda n: f"{q(n['A'])} = {_qlit(n, 'a')}", lambda n: f"{q(n['B'])} = {_qlit(n, 'b')}", A, B, None),
        ("module", "TULM", True, lambda n: f"module qm1 {{ {let1(n).strip()} }}\nmodule qm2 {{ {let2(n).strip()} }}\n", lambda n: "qm1." + q(n['L']), lambda n: "qm2." + q(n['M']), L, M, "TU"),
        ("module-same", "TUAB", True, lambda n: f"module qm1 {{ {let1(n).strip()} }}\nmodule qm2 {{ {let2(n).strip().replace(q(n['M']), q(n['L']), 1)} }}\n",
         lambda n: f"{q(n['A'])} = qm1.{q(n['L'])}", lambda n: f"{q(n['B'])} = qm2.{q(n['L'])}", A, B, "TU"),
    ]


def qual_tails():
    """(tail, join, needs known column lists?, letters of the columns that certainly occur in the SQL, text(a, b, C, D), expected rows from the
    joined pairs P and the cell functions va / vb / v3 (column letter 'k' | 'C' | 'D', row), ordered?)"""
    def rows(f):
        return lambda P, va, vb, v3: [f(i, j, va, vb) for i, j in P]
    grp = lambda P, key: sorted({key(i, j) for i, j in P})
    return [
        # select / derive
        ("sel-ab", "sum4", False, "C", lambda a, b, C, D: f"select {{{a}.{C}, {b}.{C}}}", rows(lambda i, j, va, vb: [va('C', i), vb('C', j)]), False),
        ("sel-ba", "sum4", False, "C", lambda a, b, C, D: f"select {{{b}.{C}, {a}.{C}}}", rows(lambda i, j, va, vb: [vb('C', j), va('C', i)]), False),
        ("sel-a", "sum4", False, "C", lambda a, b, C, D: f"select {{{a}.{C}}}", rows(lambda i, j, va, vb: [va('C', i)]), False),
        ("sel-b", "sum4", False, "C", lambda a, b, C, D: f"select {{{b}.{C}}}", rows(lambda i, j, va, vb: [vb('C', j)]), False),
        ("sel-mixed", "sum4", False, "CD", lambda a, b, C, D: f"select {{{a}.{C}, {b}.{D}, {b}.{C}, {a}.{D}}}",
         rows(lambda i, j, va, vb: [va('C', i), vb('D', j), vb('C', j), va('D', i)]), False),
        ("sel-k", "sum4", False, "", lambda a, b, C, D: f"select {{{b}.k, {a}.k, {b}.{C}}}", rows(lambda i, j, va, vb: [j, i, vb('C', j)]), False),
        ("sel-this", "sum4", False, "C", lambda a, b, C, D: f"select {{this.{a}.{C}, this.{b}.{C}}}", rows(lambda i, j, va, vb: [va('C', i), vb('C', j)]), False),
        ("sel-alias-cross", "sum4", False, "CD", lambda a, b, C, D: f"select {{{C} = {b}.{C}, {D} = {a}.{C}}}", rows(lambda i, j, va, vb: [vb('C', j), va('C', i)]), False),
        ("sel-alias-one", "sum4", False, "CD", lambda a, b, C, D: f"select {{{C} = {b}.{D}}}", rows(lambda i, j, va, vb: [vb('D', j)]), False),
        ("sel-eqk", "eqk", False, "C", lambda a, b, C, D: f"select {{{b}.{C}, {a}.{C}}}", rows(lambda i, j, va, vb: [vb('C', j), va('C', i)]), False),
        ("derive", "sum4", False, "C", lambda a, b, C, D: f"derive {{dx = {b}.{C}}} | select {{dx, {a}.{C}}}", rows(lambda i, j, va, vb: [vb('C', j), va('C', i)]), False),
        ("derive-two", "sum4", False, "D", lambda a, b, C, D: f"derive {{dx = {a}.{D}, dy = {b}.{D}}} | select {{dy, dx}}", rows(lambda i, j, va, vb: [vb('D', j), va('D', i)]), False),
        ("derive-expr", "sum4", False, "", lambda a, b, C, D: f"derive {{dx = {b}.k * 10 + {a}.k}} | select {{dx}}", rows(lambda i, j, va, vb: [j * 10 + i]), False),
        ("derive-case", "sum4", False, "C", lambda a, b, C, D: f"derive {{dx = case [{b}.k > 1 => {b}.{C}, true => {a}.{C}]}} | select {{dx}}",
         rows(lambda i, j, va, vb: [vb('C', j) if j > 1 else va('C', i)]), False),
        ("derive-fstr", "sum4", False, "CD", lambda a, b, C, D: f"derive {{dx = f\"{{{a}.{C}}}-{{{b}.{D}}}\"}} | select {{dx}}", rows(lambda i, j, va, vb: [va('C', i) + "-" + vb('D', j)]), False),
        ("derive-sstr", "sum4", False, "C", lambda a, b, C, D: f"derive {{dx = s\"{{{b}.{C}}}\"}} | select {{dx, {a}.{C}}}", rows(lambda i, j, va, vb: [vb('C', j), va('C', i)]), False),
        ("sel-expr", "sum4", False, "C", lambda a, b, C, D: f"select {{x = {b}.{C} ?? {a}.{C}, y = {b}.k - {a}.k}}", rows(lambda i, j, va, vb: [vb('C', j), j - i]), False),
        ("sel-star-a", "sum4", True, "CD", lambda a, b, C, D: f"select {{{a}.*}}", rows(lambda i, j, va, vb: [i, va('C', i), va('D', i)]), False),
        ("sel-star-b", "sum4", True, "CD", lambda a, b, C, D: f"select {{{b}.*, {a}.{C}}}", rows(lambda i, j, va, vb: [j, vb('C', j), vb('D', j), va('C', i)]), False),
        # select !{..}: needs column lists known to the compiler (SQLite has no EXCLUDE)
        ("excl-a", "sum4", True, "CD", lambda a, b, C, D: f"select !{{{a}.{C}}}", rows(lambda i, j, va, vb: [i, va('D', i), j, vb('C', j), vb('D', j)]), False),
        ("excl-b", "sum4", True, "CD", lambda a, b, C, D: f"select !{{{b}.{C}}}", rows(lambda i, j, va, vb: [i, va('C', i), va('D', i), j, vb('D', j)]), False),
        ("excl-a-eqk", "eqk", True, "CD", lambda a, b, C, D: f"select !{{{a}.{C}}}", rows(lambda i, j, va, vb: [i, va('D', i), j, vb('C', j), vb('D', j)]), False),
        ("excl-b-eqk", "eqk", True, "CD", lambda a, b, C, D: f"select !{{{b}.{D}}}", rows(lambda i, j, va, vb: [i, va('C', i), va('D', i), j, vb('C', j)]), False),
        ("excl-ab", "sum4", True, "CD", lambda a, b, C, D: f"select !{{{a}.{C}, {b}.{D}}}", rows(lambda i, j, va, vb: [i, va('D', i), j, vb('C', j)]), False),
        ("excl-k", "sum4", True, "CD", lambda a, b, C, D: f"select !{{{b}.k}}", rows(lambda i, j, va, vb: [i, va('C', i), va('D', i), vb('C', j), vb('D', j)]), False),
        ("excl-all-a", "sum4", True, "CD", lambda a, b, C, D: f"select !{{{a}.k, {a}.{C}, {a}.{D}}}", rows(lambda i, j, va, vb: [j, vb('C', j), vb('D', j)]), False),
        ("excl-derive", "sum4", True, "CD", lambda a, b, C, D: f"derive {{dx = {b}.k + 10}} | select !{{{b}.k, {a}.{C}}}",
         rows(lambda i, j, va, vb: [i, va('D', i), vb('C', j), vb('D', j), j + 10]), False),
        ("excl-then-sel", "sum4", True, "CD", lambda a, b, C, D: f"select !{{{a}.{C}}} | select {{{b}.{C}, {a}.{D}}}", rows(lambda i, j, va, vb: [vb('C', j), va('D', i)]), False),
        ("excl-filter", "sum4", True, "CD", lambda a, b, C, D: f"filter {b}.k > 1 | select !{{{b}.{C}, {a}.k}}",
         lambda P, va, vb, v3: [[va('C', i), va('D', i), j, vb('D', j)] for i, j in P if j > 1], False),
        # filter / sort / take
        ("filter-a", "sum4", False, "C", lambda a, b, C, D: f"filter {a}.k > 1 | select {{{a}.{C}, {b}.{C}}}", lambda P, va, vb, v3: [[va('C', i), vb('C', j)] for i, j in P if i > 1], False),
        ("filter-b", "sum4", False, "C", lambda a, b, C, D: f"filter {b}.k > 1 | select {{{a}.{C}, {b}.{C}}}", lambda P, va, vb, v3: [[va('C', i), vb('C', j)] for i, j in P if j > 1], False),
        ("filter-both", "sum4", False, "C", lambda a, b, C, D: f"filter {a}.k == 1 && {b}.k == 3 | select {{{a}.{C}, {b}.{C}}}", lambda P, va, vb, v3: [[va('C', 1), vb('C', 3)]], False),
        ("sort-a", "sum4", False, "C", lambda a, b, C, D: f"sort {{{a}.k}} | select {{{b}.{C}}}", lambda P, va, vb, v3: [[vb('C', j)] for i, j in sorted(P)], True),
        ("sort-b", "sum4", False, "C", lambda a, b, C, D: f"sort {{{b}.k}} | select {{{b}.{C}, {a}.k}}", lambda P, va, vb, v3: [[vb('C', j), i] for i, j in sorted(P, key=lambda p: p[1])], True),
        ("sort-b-desc", "sum4", False, "C", lambda a, b, C, D: f"sort {{-{b}.k}} | select {{{a}.{C}}}", lambda P, va, vb, v3: [[va('C', i)] for i, j in sorted(P, key=lambda p: -p[1])], True),
        ("sort-tag", "sum4", False, "C", lambda a, b, C, D: f"sort {{-{b}.{C}}} | select {{{a}.k}}", lambda P, va, vb, v3: [[i] for i, j in sorted(P, key=lambda p: -p[1])], True),
        ("sort-take-a", "sum4", False, "C", lambda a, b, C, D: f"sort {{-{a}.k}} | take 1 | select {{{a}.{C}, {b}.{C}}}", lambda P, va, vb, v3: [[va('C', i), vb('C', j)] for i, j in P if i == NROWS], False),
        ("sort-take-b", "sum4", False, "C", lambda a, b, C, D: f"sort {{-{b}.k}} | take 1 | select {{{a}.{C}, {b}.{C}}}", lambda P, va, vb, v3: [[va('C', i), vb('C', j)] for i, j in P if j == NROWS], False),
        ("split-sort", "sum4", False, "C", lambda a, b, C, D: f"sort {{{a}.k}} | take 5 | select {{{b}.{C}, {a}.{C}}}", lambda P, va, vb, v3: [[vb('C', j), va('C', i)] for i, j in sorted(P)], True),
        ("split-filter", "sum4", False, "C", lambda a, b, C, D: f"take 5 | filter {b}.k > 1 | select {{{a}.{C}, {b}.{C}}}", lambda P, va, vb, v3: [[va('C', i), vb('C', j)] for i, j in P if j > 1], False),
        # group keys, aggregate arguments, window partitions, group-take
        ("group-a", "le", False, "", lambda a, b, C, D: f"group {{{a}.k}} (aggregate {{n = count this}})", lambda P, va, vb, v3: [[x, sum(1 for i, j in P if i == x)] for x in grp(P, lambda i, j: i)], False),
        ("group-b", "le", False, "", lambda a, b, C, D: f"group {{{b}.k}} (aggregate {{n = count this, m = min {a}.k}})", lambda P, va, vb, v3: [[x, sum(1 for i, j in P if j == x), 1] for x in grp(P, lambda i, j: j)], False),
        ("group-tag-a", "le", False, "C", lambda a, b, C, D: f"group {{{a}.{C}}} (aggregate {{m = sum {b}.k}})", lambda P, va, vb, v3: [[va('C', x), sum(j for i, j in P if i == x)] for x in grp(P, lambda i, j: i)], False),
        ("group-tag-b", "le", False, "C", lambda a, b, C, D: f"group {{{b}.{C}}} (aggregate {{m = sum {a}.k}})", lambda P, va, vb, v3: [[vb('C', x), sum(i for i, j in P if j == x)] for x in grp(P, lambda i, j: j)], False),
        ("agg-arg-b", "le", False, "C", lambda a, b, C, D: f"group {{{a}.k}} (aggregate {{m = sum {b}.k, s = max {b}.{C}}})",
         lambda P, va, vb, v3: [[x, sum(j for i, j in P if i == x), vb('C', NROWS)] for x in grp(P, lambda i, j: i)], False),
        ("agg-arg-a", "le", False, "C", lambda a, b, C, D: f"group {{{b}.k}} (aggregate {{m = sum {a}.k, s = max {a}.{C}}})",
         lambda P, va, vb, v3: [[x, sum(i for i, j in P if j == x), va('C', x)] for x in grp(P, lambda i, j: j)], False),
        ("agg-global", "le", False, "C", lambda a, b, C, D: f"aggregate {{x = sum {a}.k, y = sum {b}.k, s = min {b}.{C}, t = max {a}.{C}}}",
         lambda P, va, vb, v3: [[sum(i for i, j in P), sum(j for i, j in P), vb('C', 1), va('C', NROWS)]], False),
        ("window-part-a", "le", False, "", lambda a, b, C, D: f"group {{{a}.k}} (derive {{s = sum {b}.k}}) | select {{{a}.k, {b}.k, s}}",
         lambda P, va, vb, v3: [[i, j, sum(y for x, y in P if x == i)] for i, j in P], False),
        ("window-part-b", "le", False, "", lambda a, b, C, D: f"group {{{b}.k}} (derive {{s = sum {a}.k}}) | select {{{a}.k, {b}.k, s}}",
         lambda P, va, vb, v3: [[i, j, sum(x for x, y in P if y == j)] for i, j in P], False),
        ("window-rn", "le", False, "", lambda a, b, C, D: f"group {{{b}.k}} (sort {{-{a}.k}} | derive {{rn = row_number this}}) | select {{{a}.k, {b}.k, rn}}",
         lambda P, va, vb, v3: [[i, j, sum(1 for x, y in P if y == j and x >= i)] for i, j in P], False),
        ("group-take-a", "le", False, "C", lambda a, b, C, D: f"group {{{a}.k}} (sort {{-{b}.k}} | take 1) | select {{{a}.k, {b}.k, {b}.{C}}}",
         lambda P, va, vb, v3: [[x, NROWS, vb('C', NROWS)] for x in grp(P, lambda i, j: i)], False),
        ("group-take-b", "le", False, "C", lambda a, b, C, D: f"group {{{b}.k}} (sort {{{a}.k}} | take 1) | select {{{a}.{C}, {b}.k}}",
         lambda P, va, vb, v3: [[va('C', 1), x] for x in grp(P, lambda i, j: j)], False),
        # join conditions
        ("on-shift", "shift", False, "C", lambda a, b, C, D: f"select {{{a}.{C}, {b}.{C}}}", rows(lambda i, j, va, vb: [va('C', i), vb('C', j)]), False),
        ("on-shift-rev", "shift-rev", False, "C", lambda a, b, C, D: f"select {{{a}.{C}, {b}.{C}}}", rows(lambda i, j, va, vb: [va('C', i), vb('C', j)]), False),
        ("on-thisthat", "thisthat", False, "C", lambda a, b, C, D: f"select {{{a}.{C}, {b}.{C}}}", rows(lambda i, j, va, vb: [va('C', i), vb('C', j)]), False),
        ("on-thisthat-qual", "thisthat-qual", False, "C", lambda a, b, C, D: f"select {{{a}.{C}, {b}.{C}}}", rows(lambda i, j, va, vb: [va('C', i), vb('C', j)]), False),
        ("on-le", "le", False, "", lambda a, b, C, D: f"select {{{a}.k, {b}.k}}", rows(lambda i, j, va, vb: [i, j]), False),
        # a third relation with the same column names, bound to the right one of the first two
        ("third-on-b", "sum4", False, "C", lambda a, b, C, D: f"join q3 = `\x00T` (q3.k == {b}.k + 1) | select {{q3.{C}, {b}.{C}, {a}.{C}}}",
         lambda P, va, vb, v3: [[v3('C', j + 1), vb('C', j), va('C', i)] for i, j in P if j < NROWS], False),
        ("third-on-a", "sum4", False, "C", lambda a, b, C, D: f"join q3 = `\x00T` ({a}.k + 1 == q3.k) | select {{q3.{C}, {b}.{C}, {a}.{C}}}",
         lambda P, va, vb, v3: [[v3('C', i + 1), vb('C', j), va('C', i)] for i, j in P if i < NROWS], False),
    ]


def qual_templates():
    out = []
    for kind, rels, known, pre, left, right, QA, QB, tabs in qual_kinds():
        for tail, join, need_known, cols, text, ex, ordered in qual_tails():
            if need_known and not known:
                continue
            def mk(n, pre=pre, left=left, right=right, QA=QA, QB=QB, join=join, text=text, tail=tail):
                a, b = QA(n), QB(n)
                if tail in ("derive-fstr", "derive-sstr") and re.search(r"[\"'\\{}]", a + b + n['C'] + n['D']):
                    return None       # the names are written inside a string literal here: no quote characters, backslashes or braces
                return (f"{pre(n)}from {left(n)} | join {right(n)} ({QUAL_JOINS[join][0](a, b)}) | " + text(a, b, q(n['C']), q(n['D']))).replace("`\x00T`", q(n['T']))
            def exp(n, tabs=tabs, join=join, ex=ex):
                def cell(side):
                    if tabs is None:
                        return lambda c, i: i if c == 'k' else f"lit:{'ab'[side]}/{c}/{i}"
                    return lambda c, i: i if c == 'k' else tag(n[tabs[side][c] if isinstance(tabs[side], dict) else tabs[side]], n[c], i)
                return ex(QUAL_JOINS[join][1], cell(0), cell(1), lambda c, i: i if c == 'k' else tag(n['T'], n[c], i))
            out.append((f"q:{kind}/{tail}", rels + "".join(c for c in cols if c not in rels), mk, exp, ordered))
    return out


def build_qualified_programs(rng, n_random):
    """every (kind, tail) with the plain names and once with all eight names drawn from the special-name pool (keywords, mixed case, spaces,
    quotes, non-ASCII; a fixed draw per template, seed-independent), then seeded random draws"""
    import random
    T = qual_templates()
    for tid, pos, *_ in T:
        TEMPL_POS[tid] = set(pos)
    det, out, seen = [], [], set()
    for tid, pos, mk, ex, ordered in T:
        for names in (dict(PLAIN), dict(zip("TUCDABLM", random.Random("C09/" + tid).sample(QUAL_SPECIAL, 8)))):
            src = mk(names)
            if src is not None and src not in seen:
                seen.add(src); det.append((tid, names, src, ex(names), ordered))
    for _ in range(n_random):
        tid, pos, mk, ex, ordered = rng.choice(T)
        names = dict(PLAIN)
        for p, nme in zip("TUCDABLM", rng.sample(QUAL_SPECIAL, 8)):
            if rng.random() < 0.6:
                names[p] = nme
        if len(set(names.values())) < len(names):
            continue
        src = mk(names)
        if src is not None and src not in seen:
            seen.add(src); out.append((tid, names, src, ex(names), ordered))
    DET_SRCS.update(p[2] for p in det)
    return det + out


EXCLUDE_DIALECTS = ["duckdb", "snowflake", "bigquery"]      # the dialects whose handler has a column_exclude (EXCLUDE / EXCEPT)


def parse_star_projection(tokens):
    """`SELECT q1.* [EXCLUDE|EXCEPT (c, ..)], q2.* [..] FROM` -> [(qualifier, set of excluded names)] or None if the projection has another shape"""
    toks = [t for t in tokens if not (isinstance(t, dict) and "Whitespace" in t)]
    word = lambda t: t["Word"] if isinstance(t, dict) and "Word" in t else None
    if not toks or not word(toks[0]) or word(toks[0])["keyword"] != "SELECT":
        return None
    i, out = 1, []
    while True:
        if i + 2 >= len(toks) or not word(toks[i]) or toks[i + 1] != "Period" or toks[i + 2] != "Mul":
            return None
        qual, ex = word(toks[i])["value"], set()
        i += 3
        if i < len(toks) and word(toks[i]) and word(toks[i])["keyword"] in ("EXCLUDE", "EXCEPT"):
            if toks[i + 1] != "LParen":
                return None
            i += 2
            while True:
                if not word(toks[i]):
                    return None
                ex.add(word(toks[i])["value"]); i += 1
                if toks[i] == "Comma":
                    i += 1
                elif toks[i] == "RParen":
                    i += 1; break
                else:
                    return None
        out.append((qual, ex))
        if i < len(toks) and toks[i] == "Comma":
            i += 1
        elif i < len(toks) and word(toks[i]) and word(toks[i])["keyword"] == "FROM":
            return out
        else:
            return None


def suite_wildcard_exclusion(ctx, stats, rng, n_random):
    """`select !{rel.col, ..}` over relations whose columns are NOT known (bare tables, aliases, the same table twice): the exclusion can only be
    emitted for dialects with `* EXCLUDE / EXCEPT (..)`, so it cannot be executed on SQLite; the oracle reads the projection of the emitted
    SQL (tokens of that dialect's sqlparser): each of the two stars must carry exactly the columns excluded under ITS qualifier"""
    import random
    kinds = {k[0]: k for k in qual_kinds()}
    shapes = [[("a", "C")], [("b", "C")], [("a", "C"), ("b", "D")], [("b", "k")], [("a", "C"), ("b", "C")], [("a", "k"), ("a", "D"), ("b", "D")], [("b", "C"), ("b", "D"), ("a", "D")]]
    progs, seen = [], set()
    def add(kind, join, shape, n):
        _, _, _, pre, left, right, QA, QB, _ = kinds[kind]
        la, lb = ("TU" if kind == "extern" else "AB")
        a, b = QA(n), QB(n)
        excl = ", ".join(f"{a if s_ == 'a' else b}.{'k' if c == 'k' else q(n[c])}" for s_, c in shape)
        src = f"{pre(n)}from {left(n)} | join {right(n)} ({QUAL_JOINS[join][0](a, b)}) | select !{{{excl}}}"
        want = [(n[la], {'k' if c == 'k' else n[c] for s_, c in shape if s_ == 'a'}), (n[lb], {'k' if c == 'k' else n[c] for s_, c in shape if s_ == 'b'})]
        if src not in seen:
            seen.add(src); progs.append((f"wild-excl:{kind}", src, want))
    for kind in ("extern", "alias", "twice"):
        for join in ("eqk", "shift"):
            for k, shape in enumerate(shapes):
                add(kind, join, shape, dict(PLAIN))
                add(kind, join, shape, dict(zip("TUCDABLM", random.Random(f"C09/wild/{kind}/{join}/{k}").sample(QUAL_SPECIAL, 8))))
    for _ in range(n_random):
        n = dict(PLAIN)
        for p_, nme in zip("TUCDAB", rng.sample(QUAL_SPECIAL, 6)):
            if rng.random() < 0.6:
                n[p_] = nme
        if len(set(n.values())) == len(n):
            add(rng.choice(["extern", "alias", "twice"]), rng.choice(["eqk", "shift", "sum4", "le"]), rng.choice(shapes), n)
    reqs = [(p, d) for p in progs for d in EXCLUDE_DIALECTS]
    comp = vh_batch([compile_req(p[1], d) for p, d in reqs])
    toks = vh_batch([{"op": "sqlparse", "dialect": d, "sql": a.get("sql", ""), "tokens": True} for (p, d), a in zip(reqs, comp)])
    for ((sid, src, want), d), a, t in zip(reqs, comp, toks):
        ctx.case(("wild-excl", d, src), nontrivial="sql" in a)
        stats["templates"][sid] += 1
        if "sql" not in a:
            stats["fail"][(d, sid, "program-rejected")] += 1
            ctx.oracle_failure("program-rejected", f"sql.{d}: program does not compile: {src!r}", {"prql": src, "dialect": d, "errors": [e.get("reason") for e in a.get("errors", [])]})
            continue
        got = parse_star_projection(t.get("tokens", []))
        if got != want:
            stats["fail"][(d, sid, None)] += 1
            ctx.oracle_failure(None, f"{sid} sql.{d}: the columns excluded under a qualifier are not exactly the exclusions of the star of that relation: {got}",
                               {"prql": src, "dialect": d, "sql": a["sql"], "expected": [[x, sorted(y)] for x, y in want], "observed": [[x, sorted(y)] for x, y in got] if got else None})
    stats["wildcard_exclusion_programs"] = len(progs)


DET_SRCS = set()


LITERAL_SWEEP = 300


def suite_literal_names(ctx, stats):
    """the resolver invents a global name `_literal_<node id>` in default_db for every relation literal: sweep the user's table name over
    `_literal_0..N` in four shapes (literal appended / joined, before / after the user's table); seed-independent, executed on SQLite"""
    con = sqlite3.connect(":memory:")
    for n in range(LITERAL_SWEEP):
        con.execute(f'CREATE TABLE "_literal_{n}" (k INTEGER, c1 TEXT)')
        con.executemany(f'INSERT INTO "_literal_{n}" VALUES (?,?)', [(i, tag(f"_literal_{n}", "c1", i)) for i in range(1, NROWS + 1)])
    R = range(1, NROWS + 1)
    shapes = [
        ("literal-appended", lambda X: f"from {q(X)} | select {{c1}} | append [{{c1 = 'x'}}]", lambda X: [[tag(X, "c1", i)] for i in R] + [["x"]]),
        ("literal-first-append", lambda X: f"from [{{c1 = 'x'}}] | append (from {q(X)} | select {{c1}})", lambda X: [[tag(X, "c1", i)] for i in R] + [["x"]]),
        ("literal-joined", lambda X: f"from {q(X)} | join side:inner l=[{{k = 1}}] (==k) | select {{{q(X)}.c1}}", lambda X: [[tag(X, "c1", 1)]]),
        ("literal-first-join", lambda X: f"from [{{k = 1}}] | join {q(X)} (==k) | select {{{q(X)}.c1}}", lambda X: [[tag(X, "c1", 1)]]),
    ]
    for sid, mk, ex in shapes:
        names = [f"_literal_{n}" for n in range(LITERAL_SWEEP)]
        srcs = [mk(X) for X in names]
        for X, src, a in zip(names, srcs, vh_batch([compile_req(x) for x in srcs])):
            ctx.case(("literal", src), nontrivial="sql" in a)
            stats["templates"][sid] += 1
            if "sql" not in a:
                # the user's extern table and the literal's invented global name are the same entry of default_db: the program is rejected
                # (internal compiler error / unknown name / no wildcard). Only a REJECTION of such a program belongs to this class.
                fid = "literal-global-name-captures-user-table" if a.get("panic") is None and a.get("errors") else None
                stats["fail"][("sqlite", sid, fid)] += 1
                ctx.oracle_failure(fid, f"{sid}: a program over the user table {X} and a relation literal is rejected",
                                   {"prql": src, "dialect": "sqlite", "errors": [e.get("reason") for e in a.get("errors", [])], "panic": a.get("panic")}, det_key=(src,))
                continue
            got, err = run_sql(con, a["sql"])
            stats["sqlite_exec"] += 1
            want = ex(X)
            if got is None or sorted(map(repr, got)) != sorted(map(repr, want)):
                stats["fail"][("sqlite", sid, None)] += 1
                ctx.oracle_failure(None, f"{sid}: the user table {X} next to a relation literal binds to the wrong object or the statement fails: {err or str(got)[:160]}",
                                   {"prql": src, "dialect": "sqlite", "sql": a["sql"], "expected": want, "observed": got if got is not None else err}, det_key=(src,))


def suite_split_model(ctx, stats):
    """directed: the anchor_split renaming loop, model vs the CTE's projection"""
    cases = [("c1", "c2"), ("_expr_0", "c2"), ("_expr_1", "c2"), ("c1", "_expr_0"), ("_expr_0", "_expr_1")]
    nbad = 0
    for C, D in cases:
        src = f"from tbl1 | join tbl2 (==k) | select {{tbl1.{q(C)}, tbl1.{q(D)}, tbl2.{q(D)}}} | take 5 | filter {q(C)} != 'zz'"
        a = vh_batch([compile_req(src)])[0]
        m = drv_batch(["split\t" + enc("_expr_") + "\t0\t" + "\t".join(enc(x) for x in (C, D, D))])[0]
        model = [dec(x) for x in m.split(" ", 1)[1].split(";")]
        ctx.case(("split", C, D))
        if "sql" not in a:
            continue
        mm = re.match(r"WITH table_0 AS \(SELECT (.*?) FROM tbl1 ", a["sql"])
        got = [it.split(" AS ")[-1].split(".")[-1].strip('"') for it in mm.group(1).split(", ")] if mm else None
        stats["split"]["duplicate names" if len(set(model)) < len(model) else "distinct"] += 1
        if got != model:
            nbad += 1
            ctx.disagreement("split names", "anchor_split column names differ from Model.Names.splitNames", {"prql": src, "sql": a["sql"], "model": model, "impl": got})
    ctx.obligation("correspondence: column names of the CTE made by anchor_split = Model.Names.splitNames (directed cases incl. user columns _expr_0/_expr_1)",
                   nbad == 0, f"{len(cases)} cases")


def run(ctx):
    br = vlib.standard_proof_obligations(ctx, ["PrqlModel.Props.C09"], ["Ident", "Keywords", "Dialects"],
        required_theorems=["ident_roundtrip_partial", "ident_roundtrip_dollar_counterexample", "ident_roundtrip_std", "emit_ident_eq_doubling",
                           "ident_value_doubled", "bare_never_sqlite_reserved", "bare_is_regex_and_not_keyword", "assign_names_fresh",
                           "assign_names_keeps_leading", "assign_names_keeps_user_counterexample", "idgen_load_fresh",
                           "split_names_unique_partial", "split_names_unique_counterexample"])
    thorough = ctx.tier == "thorough"
    ctx.rule = ("function level: every keyword of the extracted arrays in 3 casings plus near misses, strings around every edge of the regex's character "
                "classes, the name pool, seeded random ASCII/Unicode names, for each of the 12 dialects; a case is one (name, dialect). Oracle: 14 program "
                "templates (select, alias, derive, join, let, sort+take, group+take, split before join, split with unnamed column, literal before "
                "extern table, split with duplicate column names, aggregate, table alias, derive+sort); systematically every pool name (30: keywords, "
                "mixed case, spaces, quotes, non-ASCII, punctuation, table_0..3, _expr_0..3) in every position (table, second table, column, second "
                "column, alias, let name) with plain names elsewhere, then seeded random draws without repetition for all positions; a case is one "
                "program executed on SQLite (cells tagged t:<table>/c:<column>/r:<row>) or one (program, dialect) parse; non-trivial = compiled. "
                "Plus 30 templates that force an invented name (relation joined twice / thrice, self-join, let-table joined with itself, alias next "
                "to an invented alias, invention inside a CTE / let / inline side, two more recursive steps, double split, let + split, alias + split, "
                "inline sides, three append shapes, group-take + join, unnamed columns kept across a split, group-sort-take, window + filter, unnamed "
                "aggregate, hidden sort key): same pool stream (quick: sqlite + one dialect per quoting style; thorough: all 12), and for ALL templates "
                "the generated-name stream: relation positions x {plain, table_0..5} with plain columns and column positions x {plain, _expr_0..3} "
                "with plain relations (thorough: the product over all positions at once), pairwise distinct, SQLite only, then seeded random mixes; "
                "4 relation-literal shapes x user table _literal_0..299. Qualified names: 16 relation kinds x 59 tails (tails that need known "
                "column lists only for the 11 kinds that have them), each with the plain names and with one fixed draw of all eight names from the "
                "special-name pool (seed-independent), then seeded random name mixes, SQLite; 3 kinds with unknown columns x 2 join conditions x 7 "
                "exclusion sets x {plain, special} names x {duckdb, snowflake, bigquery}, then seeded random mixes")
    ctx.assumptions += ["which object a name binds to is observed on SQLite only (origin-tagged cells); for the other 11 dialects the check is that the "
                        "dialect's sqlparser parses the SQL as one statement and the user names occur verbatim as identifier tokens",
                        "the trusted list of SQLite reserved words is https://sqlite.org/lang_keywords.html (147 words) as written in Props/C09.lean",
                        "identifiers inside s-strings are opaque SQL and are not generated"]
    if not (br.cargo_ok and br.drv_ok):
        return
    G = br.gen
    stats = dict(hook=Counter(), templates=Counter(), name_kinds=Counter(), fail=Counter(), split=Counter(), sqlite_exec=0, quote_of={})
    # the quote character per dialect, from the regenerated dialect table (through the model)
    stats["quote_of"] = {d: chr(int(a.split(" ")[1])) for d, a in zip(DIALECTS, drv_batch([f"ident\t{d}\t{enc('a b')}" for d in DIALECTS]))}
    suite_hooks(ctx, br, G.get("Ident", {}).get("summary", {}), G.get("Keywords", {}).get("summary", {}), ctx.rng, thorough, stats)
    con = make_db()
    progs = build_programs(ctx.rng, 10000 if thorough else 250)
    t0 = time.time()
    first_new = [t[0] for t in templates()].index("join-twice")
    newer = {t[0] for t in templates()[first_new:]}
    suite_oracle(ctx, br, [p for p in progs if p[0] not in newer], con, stats, DIALECTS, "templates")
    # the templates that force an invented name: all 12 dialects in the thorough tier, one dialect per quoting style in the quick tier
    suite_oracle(ctx, br, [p for p in progs if p[0] in newer], con, stats, DIALECTS if thorough else ["sqlite", "postgres", "mssql", "mysql", "bigquery"], "templates forcing invented names")
    cap = build_capture_programs(ctx.rng, 20000 if thorough else 1500, {p[2] for p in progs}, thorough)
    stats["capture_programs"] = len(cap)
    suite_oracle(ctx, br, cap, con, stats, ["sqlite"], "generated-name patterns")
    qual = build_qualified_programs(ctx.rng, 4000 if thorough else 150)
    stats["qualified_programs"] = len(qual)
    suite_oracle(ctx, br, qual, con, stats, ["sqlite"], "qualified names")
    suite_wildcard_exclusion(ctx, stats, ctx.rng, 2000 if thorough else 100)
    suite_literal_names(ctx, stats)
    ctx.exhaustive = True
    suite_split_model(ctx, stats)
    unknown = {str(k): n for k, n in stats["fail"].items() if k[2] not in ctx.known}
    ctx.obligation("oracle: every name binds to the object of exactly that name on SQLite and is carried verbatim for every dialect (outside recorded findings)",
                   not unknown, json.dumps({str(k): n for k, n in stats["fail"].items()})[:1500])
    ctx.coverage_extra["distribution"] = {"hook_results": dict(stats["hook"]), "templates": dict(stats["templates"]), "name_kinds_in_programs": dict(stats["name_kinds"]),
                                          "sqlite_statements_executed": stats["sqlite_exec"], "generated_name_stream_programs": stats.get("capture_programs"), "qualified_name_programs": stats.get("qualified_programs"),
                                          "wildcard_exclusion_programs": stats.get("wildcard_exclusion_programs"), "split_model_cases": dict(stats["split"]),
                                          "property_failures_by_site_and_class": {str(k): n for k, n in sorted(stats["fail"].items(), key=str)}}
    ctx.coverage_extra["timing_s"] = {"oracle": round(time.time() - t0, 1)}
    ctx.sample({"prql": "let a = (from [{k = 1}] | take 1)\nfrom table_0 | join a (==k) | select {table_0.c1}",
                "sql": "WITH table_0 AS (SELECT 1 AS k), a AS (…) SELECT table_0.c1 FROM table_1 AS table_0 INNER JOIN a ON …"})


def replay(obj):
    if obj.get("kind") in ("no-failing-input-found", "correspondence") or obj.get("correspondence"):
        return vlib.replay_correspondence(obj)
    print(json.dumps(obj, indent=1, ensure_ascii=True)[:3000])
    r = obj.get("replay", obj)
    if isinstance(r, dict) and "prql" in r:
        a = vh_batch([compile_req(r["prql"], r.get("dialect", "sqlite"))])[0]
        print("compile:", a)
        if "sql" in a and r.get("dialect", "sqlite") == "sqlite":
            print("sqlite :", run_sql(make_db(), a["sql"]))
    return 0
