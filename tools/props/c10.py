"""C10 ill-scoped programs are rejected, never compiled to something else."""
import json, random, re
import vlib, relgen, c10grid
from vlib import vh_batch, drv_batch

MANIFEST = dict(
    text="Lean theorems over a model of name resolution (Model/Scope.lean: Module::lookup as the set of matches with the root redirects "
         "regenerated from module.rs and the std top-level names regenerated from std.prql; resolve_ident_core; the frames after "
         "from/select/derive/aggregate/group/join/append incl. name clearing and intra-tuple aliases): resolve_unique (an accepted "
         "reference denotes the one candidate; two distinct candidates are an error), closed_frame_rejects (fully known frame and no "
         "candidate: Unknown name), args_checked (surplus positional / unknown named argument: error, from Model.Fn.bindArgs), "
         "relation_required, accept_iff_wellScoped and scope_break_rejected (a program with an ill-scoped site is not accepted). "
         "Tie: every well-scoped generated program (declared and undeclared tables) and every one-edit ill-scoped variant of it "
         "(dropped column referenced later, bare name of two joined relations, surplus/unknown argument, scalar/relation confusion) "
         "is compiled by the real compiler and judged by the model: same verdict, same error kind and name, same final frame. "
         "Two seed-independent grids (tools/c10grid.py) run first: (1) an ill-scoped reference (unknown, dropped, qualified, ambiguous) at "
         "every syntactic position (tuple items, filter, sort keys, ranges of take / window / in, group keys and group / window / loop "
         "sub-pipelines, join conditions and inline join / append sides, values of named arguments incl. calls that carry only named "
         "arguments, bodies and used defaults of user functions, used and UNUSED let pipelines) under every kind of expression context "
         "(operators, f-/s-string interpolations, statically dead and live case branches with literal / let-constant / folded conditions, "
         "coalesce and && / || operands next to constants, arguments the callee ignores; nested two deep), each next to its well-scoped "
         "twin which must compile; (2) malformed calls of std transforms, std scalar / aggregate functions and user functions (with and "
         "without defaults): surplus positional, unknown named (first / last / next to valid ones / near misses / the name of a "
         "positional parameter), duplicated named, arguments given to a non-function, in full / piped / partially applied form at every "
         "host position; bindArgs gives the verdict on the signature, well-formed calls must compile and honour their named arguments.",
    note="the model covers one-level qualifiers and the core transforms; `select !{}`, user-written this./that., module paths and types are "
         "outside. A broken program must end in an error (never SQL, a panic is its own class); the oracle for 'broken' is the "
         "generator's own frame bookkeeping, not the model. The unchanged tree accepts a relation in scalar position "
         "(`derive {x = (from t)}` -> `t AS t`; listed finding relation-as-scalar-passes-through, with follow-up panics listed as "
         "panic-after-relation-as-scalar); scalars in relation position end in the internal error 4317 (an error, as required).",
    technique="Lean 4 proofs over a resolution model + one-edit mutation testing of well-scoped programs through the real compiler", ref="4/C10")

KEYWORDS = {"case", "null", "true", "false", "this", "that", "in", "sum", "count", "min", "max", "count_distinct", "average", "side",
            "inner", "left", "right", "full", "math", "round", "row_number", "from", "select", "lag", "lead", "rank",
            "math.abs", "math.round", "math.pow", "as", "int", "take", "rows"}
REF = r"[a-z_][a-z0-9_]*(?:\.[a-z_][a-z0-9_]*)?"


def split_top(s, sep):
    """split at top-level occurrences of sep (outside (), {}, [], quotes)"""
    out, depth, cur, i, q = [], 0, "", 0, None
    while i < len(s):
        ch = s[i]
        if q:
            cur += ch
            if ch == q:
                q = None
            i += 1
            continue
        if ch in "'\"":
            q = ch
        elif ch in "([{":
            depth += 1
        elif ch in ")]}":
            depth -= 1
        if depth == 0 and s.startswith(sep, i):
            out.append(cur); cur = ""; i += len(sep)
            continue
        cur += ch
        i += 1
    out.append(cur)
    return [x.strip() for x in out]


def refs_of(expr):
    e = re.sub(r"'[^']*'", "''", expr)
    e = re.sub(r'\b[fs]"([^"]*)"', lambda m: "(" + " , ".join(re.findall(r"\{([^}]*)\}", m.group(1))) + ")", e)
    e = e.replace("..", " .. ")          # a range bound is a reference site
    out = []
    for m in re.finditer(r"(?<![\w.])(" + REF + r")(?![\w]*:)", e):
        r = m.group(1)
        if r.split(".")[0] in KEYWORDS and "." not in r:
            continue
        if r in KEYWORDS:
            continue
        if e[m.end():m.end() + 1] == ":":      # named argument
            continue
        out.append(r)
    return out


def item_sx(text, sort=False):
    t = text.strip()
    if sort and t.startswith("-"):
        t = t[1:].strip()
    m = re.match(r"^([a-z_][a-z0-9_]*) = (.*)$", t, re.S)
    alias, expr = (m.group(1), m.group(2)) if m else (None, t)
    rs = refs_of(expr)
    plain = 1 if re.fullmatch(REF, expr.strip()) and len(rs) == 1 else 0
    return "( " + (alias or "-") + f" {plain} " + " ".join(rs) + " )"


def first_arg(rest):
    """split `rest` after its first argument (balanced brackets, quotes): -> (argument, remainder)"""
    depth, q = 0, None
    for i, ch in enumerate(rest):
        if q:
            if ch == q:
                q = None
            continue
        if ch in "'\"":
            q = ch
        elif ch in "([{":
            depth += 1
        elif ch in ")]}":
            depth -= 1
        elif ch == " " and depth == 0:
            return rest[:i], rest[i + 1:].strip()
    return rest, ""


def tuple_items(body):
    b = body.strip()
    assert b.startswith("{") and b.endswith("}"), body
    inner = b[1:-1].strip()
    return [x for x in split_top(inner, ",") if x] if inner else []


class Translator:
    """relgen case (or edited text) -> program s-expression of Drv/Scope"""

    def __init__(self, schema, declared, extra_globals=()):
        self.tables = {n: [c.name for c in cols] for n, cols in schema.tables}
        self.declared = declared
        self.globals = list(extra_globals)
        self.pipes = []          # model pipelines in order
        self.let_index = {}      # let name -> model index

    def source(self, name):
        name = name.strip()
        if re.fullmatch(r"-?\d+|'[^']*'|true|false|null", name):
            return "( scalar )"
        if name in self.let_index:
            return f"( let {name} {self.let_index[name]} )"
        if name.startswith("(") and name.endswith(")"):
            idx = self.add_pipeline(split_top(name[1:-1], " | "), None)
            return f"( inline {idx} )"
        cols = self.tables.get(name)
        if cols is not None and self.declared:
            return f"( table {name} ( " + " ".join(cols) + " ) )"
        return f"( table {name} - )"

    def step(self, line):
        line = line.strip()
        kw, _, rest = line.partition(" ")
        rest = rest.strip()
        if kw in ("select", "derive", "aggregate"):
            return f"( {kw} " + " ".join(item_sx(i) for i in tuple_items(rest)) + " )"
        if kw == "filter":
            return "( filter " + " ".join(refs_of(rest)) + " )"
        if kw == "sort":
            items = tuple_items(rest) if rest.startswith("{") else [rest]
            return "( sort " + " ".join(item_sx(i, sort=True) for i in items) + " )"
        if kw == "take":
            return "( take )"
        if kw == "group":
            karg, body = first_arg(rest)
            assert body.startswith("(") and body.endswith(")"), rest
            keys = tuple_items(karg) if karg.startswith("{") else [karg]
            inner = split_top(body[1:-1], " | ")
            ks = "( " + " ".join(item_sx(k) for k in keys) + " )"
            if inner[0].startswith("aggregate"):
                return f"( groupagg {ks} ( " + " ".join(item_sx(i) for i in tuple_items(inner[0][len("aggregate"):])) + " ) )"
            srt = []
            for t in inner:
                if t.startswith("sort"):
                    b = t[4:].strip()
                    srt = tuple_items(b) if b.startswith("{") else [b]
                elif t.startswith("derive "):       # sites of a windowed derive inside the group (same frame as the sort keys)
                    srt = srt + tuple_items(t[len("derive"):])
            return f"( groupwin {ks} ( " + " ".join(item_sx(i, sort=True) for i in srt) + " ) )"
        if kw == "join":
            m = re.match(r"^(?:side:\w+ )?(?:([a-z_][a-z0-9_]*) = )?(.*)$", rest, re.S)
            alias = m.group(1)
            rname, cond = first_arg(m.group(2))
            assert cond.startswith("(") and cond.endswith(")"), rest
            cond = cond[1:-1].strip()
            src = self.source(rname)
            if cond.startswith("=="):
                n = cond[2:].strip()
                return f"( join {src} {alias or '-'} ( ) ( {n} ) ( {n} ) )"
            return f"( join {src} {alias or '-'} ( " + " ".join(refs_of(cond)) + " ) ( ) ( ) )"
        if kw == "append":
            return f"( append {self.source(rest)} )"
        if kw == "window":
            m = re.match(r"^(?:\w+:\S+ )*\((derive \{.*\})\)$", rest, re.S)
            return self.step(m.group(1))
        raise ValueError("untranslatable step: " + line)

    def add_pipeline(self, lines, letname):
        first = lines[0].strip()
        assert first.startswith("from "), first
        m = re.match(r"^from (?:([a-z_][a-z0-9_]*) = )?(.*)$", first, re.S)
        alias, sname = m.group(1), m.group(2)
        src = self.source(sname)
        steps = [self.step(l) for l in lines[1:]]
        self.pipes.append(f"( {src} {alias or '-'} " + " ".join(steps) + " )")
        idx = len(self.pipes) - 1
        if letname:
            self.let_index[letname] = idx
            self.globals.append(letname)
        return idx

    def program(self, lets, main_lines):
        for (n, t, _) in lets:
            self.add_pipeline(split_top(t, " | "), n)
        self.add_pipeline(main_lines, None)
        return "( ( " + " ".join(self.globals) + " ) ( " + " ".join(self.pipes[:-1]) + " ) " + self.pipes[-1] + " )"


def render(c, lines, lets=None, prelude=""):
    decl = c.schema.decl() if c.declared else ""
    lets = [l for l in c.lets if not l[0].startswith('_h')] if lets is None else lets
    body = " ".join(lines)
    used = set()
    for i in range(len(lets) - 1, -1, -1):
        if re.search(rf"\b{lets[i][0]}\b", body):
            used.add(i); body += " " + lets[i][1]
    return decl + "\n" + prelude + "".join(f"let {n} = ({t})\n" for i, (n, t, _) in enumerate(lets) if i in used) + "\n".join(lines) + "\n"


def model_program(c, lines, lets=None, extra_globals=()):
    lets = [l for l in c.lets if not l[0].startswith('_h')] if lets is None else lets
    body = " ".join(lines)
    used = []
    marks = set()
    for i in range(len(lets) - 1, -1, -1):
        if re.search(rf"\b{lets[i][0]}\b", body):
            marks.add(i); body += " " + lets[i][1]
    used = [l for i, l in enumerate(lets) if i in marks]
    return Translator(c.schema, c.declared, extra_globals).program(used, lines)


# ---------------------------------------------------------------------------------------------------
# the generator's own knowledge of frames (the oracle for "this edit breaks the scope")
# ---------------------------------------------------------------------------------------------------

def frame_closed_flags(c):
    """for every frame of the main pipeline: is it fully known?  declared tables: always; undeclared: after select/aggregate/group-aggregate
    and until the next join with an undeclared relation"""
    if c.declared:
        return [True] * len(c.frames)
    flags = [False]
    closed = False
    letclosed = {}
    for (n, t, _) in c.lets:
        if n.startswith('_h'):
            continue          # hidden let of the generator (bottom of an inline append), not part of the program text
        parts = split_top(t, " | ")
        cl = parts[0].split()[1] in letclosed and letclosed[parts[0].split()[1]]
        for p in parts[1:]:
            cl = step_closes(p, cl, letclosed)
        letclosed[n] = cl
    src = c.text[0].split()[1]
    closed = letclosed.get(src, False)
    flags = [closed]
    for line in c.text[1:]:
        closed = step_closes(line, closed, letclosed)
        flags.append(closed)
    return flags


def step_closes(line, closed, letclosed):
    kw = line.split()[0]
    if kw in ("select", "aggregate"):
        return True
    if kw == "group" and "(aggregate" in line:
        return True
    if kw == "join":
        m = re.match(r"^join (?:side:\w+ )?([a-z0-9_]+) ", line)
        r = m.group(1) if m else None
        return closed and letclosed.get(r, False)
    return closed


CONTEXT_STEPS = ["derive {zq = §}", "select {zq = §}", "select {§}", "filter ((§) == null)", "sort {§}", "aggregate {zq = count (§)}",
                 "group {kq = §} (take 1)", "window rows:-1..0 (derive {zq = §})", "derive {zq = zg9 ¤ n:(§)}", "derive {zq = (¤ | zg9 n:(§))}",
                 "derive {(¤ | zg9 n:(§))}"]


def edits(c, rng):
    """one scope-breaking edit per (kind, site): yields dict(kind, lines, lets, prelude, expect)  expect in {'unknown','ambiguous','args','relation', None}"""
    out = []
    closed = frame_closed_flags(c)
    seen_names = []          # names that were in some earlier frame
    for j, fr in enumerate(c.frames):
        names = [col.name for col in fr]
        # (a) a column dropped earlier, referenced now
        dropped = [n for n in dict.fromkeys(seen_names) if n not in names]
        if dropped and closed[j]:
            n = rng.choice(dropped)
            new = rng.choice([f"derive {{zq = {n}}}", f"filter ({n} != null)", f"sort {{{n}}}", f"select {{{n}}}",
                              f"aggregate {{zq = min {n}}}", f"group {{{n}}} (take 1)"])
            out.append(dict(kind="dropped-column", site=j, lines=c.text[:j + 1] + [new] + c.text[j + 1:], expect="unknown", name=n))
        # a name that never existed, in a fully known frame
        if closed[j]:
            new = rng.choice(["derive {zq = zz9}", "filter (zz9 != null)", "sort {zz9}", "select {zz9}", "derive {zq = (zz9 + 1)}",
                              "derive {zq = case [zz9 == 1 => 2]}", 'derive {zq = f"{zz9}x"}', 'derive {zq = s"abs({zz9})"}',
                              "derive {zq = (lag 1 zz9)}", "aggregate {zq = count_distinct zz9}", "group {zz9} (aggregate {zq = count this})",
                              "filter (zz9 | in 1..3)"])
            out.append(dict(kind="unknown-column", site=j, lines=c.text[:j + 1] + [new] + c.text[j + 1:], expect="unknown", name="zz9"))
            # qualified by a relation that is not (or no longer) an input of the frame
            new = "derive {zq = zrel.zz9}"
            out.append(dict(kind="unknown-qualified", site=j, lines=c.text[:j + 1] + [new] + c.text[j + 1:], expect="unknown", name="zrel.zz9"))
        # the same inside a join condition (the joined relation is not used anywhere else in the program)
        alltext0 = " ".join(c.text) + " " + " ".join(t for _, t, _ in c.lets)
        free = [n for n, _ in c.schema.tables if not re.search(rf"\b{n}\b", alltext0)]
        if closed[j] and free and c.declared:
            t = free[0]
            tcols = [col.name for col in dict(c.schema.tables)[t]]
            tcol = tcols[0]
            cand = [d for d in dropped if d not in tcols]        # the joined relation must not provide the name either
            nm = rng.choice(cand) if cand else "zz9"
            new = f"join side:left {t} ({nm} == {t}.{tcol})"
            out.append(dict(kind="unknown-in-join-condition", site=j, lines=c.text[:j + 1] + [new] + c.text[j + 1:], expect="unknown", name=nm))
        # (b) bare name that two relations in scope provide
        quals = {}
        for col in fr:
            if "." in col.ref:
                quals.setdefault(col.name, set()).add(col.ref.split(".")[0])
        amb = [n for n, q in quals.items() if len(q) >= 2 and names.count(n) == len(q)]
        # a relation joined a second time under the same name takes the name over from its first instance (the generator's qualifiers
        # of the older columns are then not the real ones): no ambiguity edit at such a join
        mj = re.match(r"^join (?:side:\w+ )?(?:[a-z_][a-z0-9_]*\s*=\s*)?([a-z_][a-z0-9_]*) ", c.text[j])
        rejoined = bool(mj and re.search(rf"\b{mj.group(1)}\b", " ".join(c.text[:j])))
        if amb and c.text[j].startswith("join") and not rejoined:
            n = rng.choice(amb)
            new = rng.choice([f"derive {{zq = {n}}}", f"filter ({n} != null)", f"select {{{n}}}", f"sort {{{n}}}"])
            out.append(dict(kind="ambiguous-bare-name", site=j, lines=c.text[:j + 1] + [new] + c.text[j + 1:], expect="ambiguous", name=n))
        seen_names += names
    # (a') the same two kinds with the reference wrapped in a random expression context at a random position, and random malformed calls
    cj = [j for j in range(len(c.frames)) if closed[j]]
    for j in sorted(rng.sample(cj, min(3, len(cj)))):
        fr = c.frames[j]
        names = [col.name for col in fr]
        earlier = [col.name for f2 in c.frames[:j] for col in f2]
        dropped = [n for n in dict.fromkeys(earlier) if n not in names]
        ints = [col.ref for col in fr if col.ty == "int" and names.count(col.name) == 1] or ["1"]
        for kind, n in (("dropped-column-in-context", rng.choice(dropped) if dropped else None), ("unknown-column-in-context", "zz9")):
            if n is None:
                continue
            g = rng.choice(ints)
            cl, e, _ = c10grid.random_context(rng, n, g)
            new = rng.choice(CONTEXT_STEPS).replace("¤", g).replace("§", e)
            hs = c10grid.helpers_for(new)
            out.append(dict(kind=kind, site=j, lines=c.text[:j + 1] + [new] + c.text[j + 1:], expect="unknown", name=n, context=cl,
                            prelude="".join(c10grid.HELPERS[h] + "\n" for h in hs), globals=tuple(hs)))
    # (c) arguments
    j = rng.randrange(len(c.frames))
    ints = [col.ref for col in c.frames[j] if col.ty == "int"] or ["1"]
    a = rng.choice(ints)
    fn = "let f9 = x -> x + 1\nlet g9 = x n:0 -> x + n\n"
    for kind, new, exp in [("surplus-positional-std", f"derive {{zq = math.round 2 {a} 3}}", "args"),
                           ("surplus-positional-agg", f"aggregate {{zq = sum {a} {a}}}", "args"),
                           ("surplus-positional-user", f"derive {{zq = f9 {a} 2}}", "args"),
                           ("unknown-named-user", f"derive {{zq = f9 {a} nn:2}}", "args"),
                           ("unknown-named-user-2", f"derive {{zq = g9 {a} n:1 mm:2}}", "args"),
                           ("unknown-named-std", f"derive {{zq = math.round 2 {a} digits:3}}", "args"),
                           ("surplus-positional-transform", "take 1 2", "args")]:
        out.append(dict(kind=kind, site=j, lines=c.text[:j + 1] + [new] + c.text[j + 1:], expect=exp, prelude=fn, name=None))
    uniq = [col.ref for col in c.frames[j] if col.ty == "int" and [x.name for x in c.frames[j]].count(col.name) == 1] or ["1"]
    for _ in range(3):
        a1, a2 = rng.choice(uniq), rng.choice(uniq)
        cal = rng.choice(c10grid.SCALAR_CALLEES)
        label, kind, p, n, _, _, _ = rng.choice([v for v in c10grid.call_variants(cal) if v[1] != "valid"])
        p = [a1 if x == "u0" else a2 if x in ("a0", "k") else x for x in p]
        n = [x.replace(":u0", ":" + a1) for x in n]
        form = rng.choice(["full"] + (["piped"] if p else []) + (["partial"] if n and p else []))
        call = c10grid.render_call(cal["fn"], p, n, form)
        new = rng.choice(["derive {zq = §}", "select {zq = §}", "filter ((§) == null)", "sort {§}", "derive {§}"]).replace("§", call)
        hs = c10grid.helpers_for(new)
        out.append(dict(kind="call-" + kind, site=j, lines=c.text[:j + 1] + [new] + c.text[j + 1:], expect="call", name=None,
                        prelude="".join(c10grid.HELPERS[h] + "\n" for h in hs), globals=tuple(hs)))
    for new in rng.sample(("ztop9 limit:5", "ztop9 n:2 limit:5", "zkeep9 zq9:1", "take zq9:1 2", "(take zq9:1) 2", f"sort zq9:1 {{{a}}}", "zkeep9 1", "ztop9 1 2",
                f"zsrt9 zq9:{a}", f"derive {{zq = {a} zq9:1}}", f"filter ({a} zq9:1) == null", f"select {{zq = ({a} | zf9 zq9:1)}}"), 4):
        hs = c10grid.helpers_for(new)
        out.append(dict(kind="call-transform:" + new.split()[0], site=j, lines=c.text[:j + 1] + [new] + c.text[j + 1:], expect="call", name=None,
                        prelude="".join(c10grid.HELPERS[h] + "\n" for h in hs), globals=tuple(hs)))
    # (d) scalar where a relation is required / relation where a scalar is required
    out.append(dict(kind="scalar-as-from", site=0, lines=["from 5"] + c.text[1:], expect="relation", name=None))
    out.append(dict(kind="scalar-as-append", site=j, lines=c.text[:j + 1] + ["append 7"] + c.text[j + 1:], expect="relation", name=None))
    out.append(dict(kind="scalar-as-join", site=j, lines=c.text[:j + 1] + ["join 3 (true)"] + c.text[j + 1:], expect="relation", name=None))
    # a relation that is no input of any frame of the program (an input's name denotes the tuple of its columns: legal)
    alltext = " ".join(c.text) + " " + " ".join(t for _, t, _ in c.lets)
    other = [n for n, _ in c.schema.tables if not re.search(rf"\b{n}\b", alltext)]
    if other:
        t = rng.choice(other)
        if closed[j]:       # in a frame that is not fully known a bare table name is read as one more unknown column: by design
            out.append(dict(kind="relation-as-scalar-name", site=j, lines=c.text[:j + 1] + [f"derive {{zq = {t}}}"] + c.text[j + 1:],
                            expect="relation-as-scalar", name=t))
        out.append(dict(kind="relation-as-scalar-pipeline", site=j, lines=c.text[:j + 1] + [f"derive {{zq = (from {t})}}"] + c.text[j + 1:],
                        expect="relation-as-scalar", name=t))
        out.append(dict(kind="relation-as-scalar-filter", site=j, lines=c.text[:j + 1] + [f"filter (from {t})"] + c.text[j + 1:],
                        expect="relation-as-scalar", name=t))
    return out


# ---------------------------------------------------------------------------------------------------

def err_class(a):
    """classify a harness answer: ('sql',) ('panic', msg) ('unknown', name) ('ambiguous', None) ('args', msg) ('bug', msg) ('other', msg)"""
    if "sql" in a or "rq" in a:
        return ("ok", None)
    if "panic" in a or "crash" in a:
        return ("panic", str(a.get("panic", a.get("crash")))[:160])
    r = (a.get("errors") or [{}])[0].get("reason", "")
    m = re.match(r"Unknown name `(.*)`", r)
    if m:
        return ("unknown", m.group(1))
    if r.startswith("Ambiguous name"):
        return ("ambiguous", None)
    if r.startswith("Too many arguments to function") or r.startswith("unknown named argument"):
        return ("args", r[:80])
    if "internal compiler error" in r:
        return ("bug", r[:80])
    return ("other", r[:120])


def model_class(ans):
    if ans.startswith("ok"):
        return ("ok", ans[3:])
    m = re.match(r"err (unknown|ambiguous) (\S+)", ans)
    if m:
        return (m.group(1), m.group(2))
    if ans.startswith("err not-relation"):
        return ("relation", None)
    return ("bad", ans)


def strip_this(n):
    return re.sub(r"^(this|that)\.", "", n)


ARG_SIGS = {  # positional count, named parameters  (validated on the unbroken calls below)
    "math.round": (2, []), "sum": (1, []), "f9": (1, []), "g9": (1, ["n"]), "take": (2, []),
}
ARG_CASES = [  # (function, given positional, given named, expected bindArgs verdict)
    ("math.round", 3, [], "too-many"), ("sum", 2, [], "too-many"), ("f9", 2, [], "too-many"), ("f9", 1, ["nn"], "unknown-named nn"),
    ("g9", 1, ["n", "mm"], "unknown-named mm"), ("math.round", 2, ["digits"], "unknown-named digits"), ("take", 3, [], "too-many"),
    ("math.round", 2, [], "ok"), ("sum", 1, [], "ok"), ("f9", 1, [], "ok"), ("g9", 1, ["n"], "ok"), ("g9", 1, [], "ok"), ("take", 2, [], "ok"),
]


def final_names(rq):
    out = []
    for c in rq["relation"]["columns"]:
        if c == "Wildcard":
            out.append("*")
        else:
            out.append(c["Single"] if c["Single"] is not None else "?")
    return out


def model_names(frame_text):
    out = []
    for c in frame_text.split(",") if frame_text else []:
        out.append("*" if c.endswith(".*") else c.split(".")[-1])
    return out


def explore(ctx, label, rng, n, profile, quick):
    cases = [relgen.make_case(rng, **profile) for _ in range(n)]
    # 1. the unbroken programs: resolver verdict = model verdict, final frame = model frame
    base = vh_batch([{"op": "rq", "prql": c.prql} for c in cases])
    progs = []
    for c in cases:
        try:
            progs.append(model_program(c, c.text))
        except Exception as e:      # the translator does not understand the text: a defect of the check, not of the compiler
            progs.append(None)
            ctx.disagreement("translator", f"cannot translate a generated program: {e}", {"prql": c.prql})
    mans = drv_batch(["scope\t" + (p or "( )") for p in progs])
    good = []
    for c, a, p, m in zip(cases, base, progs, mans):
        if p is None:
            continue
        ic, mc = err_class(a), model_class(m)
        ctx.case((c.prql,), nontrivial=ic[0] == "ok" and len(c.text) >= 3)
        ctx.count(f"{label}:unbroken:" + ic[0])
        if ic[0] == "ok":
            if mc[0] != "ok":
                ctx.disagreement("accept-unbroken", f"the compiler accepts, the model says {m}", {"prql": c.prql, "model_program": p, "model": m})
            else:
                fn, mn = final_names(a["rq"]), model_names(mc[1])
                if "*" in fn:
                    ctx.count(f"{label}:final-frame-open (columns inferred for undeclared tables are listed by the compiler: not compared)")
                elif fn != mn and sorted(fn) == sorted(mn):
                    ctx.count(f"{label}:final-frame-same-columns-other-order (column order after group: C05/C06 matter, not scope)")
                elif fn != mn:
                    ctx.disagreement("final-frame", f"final frame: compiler {fn}, model {mn}", {"prql": c.prql, "model_program": p, "model": m})
                good.append(c)
                if len(ctx.samples) < 2:
                    ctx.sample({"prql": c.prql.split("}\n", 1)[-1][:300], "model_frame": mc[1]})
        elif ic[0] in ("unknown", "ambiguous"):
            # the generator produced an ill-scoped program (shadowing by std names etc.): the model must reject the same way
            if mc[0] != ic[0]:
                ctx.disagreement("reject-unbroken", f"the compiler says {ic}, the model says {m}", {"prql": c.prql, "model_program": p, "model": m})
        else:
            ctx.count(f"{label}:unbroken-rejected-for-other-reasons")
    # 2. one edit at every site
    reqs, meta = [], []
    for c in good:
        es = edits(c, rng)
        for e in es:
            prql = render(c, e["lines"], prelude=e.get("prelude", ""))
            try:
                mp = model_program(c, e["lines"], extra_globals=e.get("globals", ("f9", "g9") if e.get("prelude") else ()))
            except Exception as ex:
                mp = None
            reqs.append({"op": "compile", "prql": prql, "target": "sql.sqlite"})
            meta.append((c, e, prql, mp))
    ans = vh_batch(reqs)
    mans = drv_batch(["scope\t" + (mp or "( )") for (_, _, _, mp) in meta])
    for (c, e, prql, mp), a, m in zip(meta, ans, mans):
        ic, mc = err_class(a), model_class(m)
        kind, exp = e["kind"], e["expect"]
        ctx.case((prql,), nontrivial=True)
        ctx.count(f"edit:{kind}:" + ic[0])
        rep = {"prql": prql, "edit": kind, "site": e["site"], "inserted": [l for l in e["lines"] if l not in c.text][:1],
               "compiler": ic, "model": m, "sql": (a.get("sql") or "")[:400]}
        # --- the oracle: a broken program must end in an error
        if ic[0] == "ok":
            fid = classify_accept(kind, e, a)
            ctx.oracle_failure(fid, f"{kind}: the ill-scoped program compiles to SQL", rep)
        elif ic[0] == "panic":
            ctx.oracle_failure(classify_panic(kind, ic[1]), f"{kind}: the compiler panics: {ic[1]}", rep)
        # --- the model
        if exp in ("unknown", "ambiguous"):
            if mp is None:
                ctx.disagreement("translator", "cannot translate an edited program", rep)
                continue
            if mc[0] != exp:
                ctx.disagreement("model-rejects-edit", f"{kind}: expected the model to say {exp}, it says {m}", rep)
            elif exp == "unknown" and mc[1] != e["name"]:
                ctx.disagreement("model-rejects-edit", f"{kind}: the model reports {mc[1]}, the edit introduced {e['name']}", rep)
            if ic[0] in ("unknown", "ambiguous") and (ic[0] != mc[0] or (ic[0] == "unknown" and strip_this(ic[1]) != mc[1])):
                ctx.disagreement("error-kind", f"{kind}: compiler {ic}, model {m}", rep)
            if ic[0] not in ("unknown", "ambiguous", "ok", "panic"):
                ctx.count(f"edit:{kind}:rejected-for-another-reason")
        elif exp == "relation":
            if mp is not None and mc[0] != "relation":
                ctx.disagreement("model-rejects-edit", f"{kind}: expected the model to say not-relation, it says {m}", rep)
        elif exp in ("args", "call"):
            if ic[0] not in ("args", "ok", "panic"):
                ctx.count(f"edit:{kind}:rejected-for-another-reason")



# ---------------------------------------------------------------------------------------------------
# systematic grids (tools/c10grid.py): references in every position / context, malformed calls
# ---------------------------------------------------------------------------------------------------

class GridSchema:
    tables = [(n, [relgen.Col(c, "int") for c in cols]) for n, cols in c10grid.TABLES.items()]


def grid_model(declared, lets, lines, helpers):
    try:
        return Translator(GridSchema, declared, tuple(helpers)).program([(n, t, None) for n, t in lets], lines)
    except Exception:
        return None


def compile_all(texts):
    uniq = list(dict.fromkeys(texts))
    return dict(zip(uniq, vh_batch([{"op": "compile", "prql": p, "target": "sql.sqlite"} for p in uniq])))


def context_grid(ctx, level):
    """an ill-scoped reference in every syntactic position under every expression context: must be rejected (oracle); the model
    says `unknown R` / `ambiguous R` and accepts the well-scoped twin (tie)"""
    cells = list(c10grid.context_cells(level))
    ans = compile_all([c["text"] for c in cells] + [c["twin"] for c in cells])
    mlines, mkey = [], {}
    for c in cells:
        if not c["model"]:
            continue
        for key, lets, lines in ((c["text"], c["lets"], c["lines"]), (c["twin"], c["tlets"], c["tlines"])):
            if key not in mkey:
                mp = grid_model(c["declared"], lets, lines, c["helpers"])
                mkey[key] = len(mlines)
                mlines.append("scope\t" + (mp or "( )"))
    mans = drv_batch(mlines)
    twins_ok, twins_all = set(), set()
    for c in cells:
        a, t = ans[c["text"]], ans[c["twin"]]
        ic, tc = err_class(a), err_class(t)
        base, pos, cl, rk = c["id"]
        ctx.case(("grid", c["text"]), nontrivial=True)
        ctx.count(f"grid:{pos}:{rk}:" + ic[0])
        ctx.count("grid-context:" + ("static:" if c["static"] else "plain:") + cl.split("/")[0] + ("/nested" if "/" in cl else ""))
        if not c["no_twin"]:
            twins_all.add(c["twin"])
        if tc[0] == "ok":
            twins_ok.add(c["twin"])
        elif not c["no_twin"]:
            ctx.count(f"grid:twin-rejected:{pos}:{cl}")
        rep = {"prql": c["text"], "grid": list(c["id"]), "reference": c["name"], "compiler": ic, "twin": c["twin"], "twin_compiler": tc,
               "sql": (a.get("sql") or "")[:400]}
        if ic[0] == "ok":
            # listed finding: the field names of a range / tuple argument leak into the scope of the enclosing transform; the reference
            # then resolves to a tuple field that is never lowered, and the program is accepted where the value is not needed
            leak = (rk in ("range-field", "range-field-end", "tuple-alias") and pos in ("aggregate", "group-aggregate", "unused-let")
                    and ((c["name"] in ("start", "end") and ".." in c["text"]) or (c["name"] + " =") in c["text"]))
            ctx.oracle_failure("tuple-field-name-leaks-into-scope" if leak else None,
                               f"reference `{c['name']}` ({rk}) at {pos} under {cl} over {base}: the ill-scoped program compiles to SQL", rep)
        elif ic[0] == "panic":
            ctx.oracle_failure(None, f"reference `{c['name']}` ({rk}) at {pos} under {cl} over {base}: the compiler panics: {ic[1]}", rep)
        elif tc[0] == "ok" and not (ic[0] == c["expect"] and (ic[0] == "ambiguous" or strip_this(ic[1]) == c["name"])):
            ctx.count(f"grid:{pos}:rejected-for-another-reason")
        if c["model"]:
            m, mt = mans[mkey[c["text"]]], mans[mkey[c["twin"]]]
            mc, mtc = model_class(m), model_class(mt)
            rep = dict(rep, model=m, twin_model=mt)
            if mc[0] != c["expect"] or mc[1] != c["name"]:
                ctx.disagreement("grid-model", f"{c['id']}: expected the model to say {c['expect']} {c['name']}, it says {m}", rep)
            if tc[0] == "ok" and mtc[0] != "ok":
                ctx.disagreement("grid-model-twin", f"{c['id']}: the compiler accepts the well-scoped twin, the model says {mt}", rep)
            if ic[0] in ("unknown", "ambiguous") and (ic[0] != mc[0] or (ic[0] == "unknown" and strip_this(ic[1]) != mc[1])):
                ctx.disagreement("grid-error-kind", f"{c['id']}: compiler {ic}, model {m}", rep)
    ctx.obligation("grid: the well-scoped twin of (nearly) every cell compiles, so the rejections are due to the reference",
                   len(twins_ok) * 100 >= len(twins_all) * 97, f"{len(twins_ok)}/{len(twins_all)} twins compile; {len(cells)} ill-scoped cells")


HONOURED = ("zg9", "zh9", "ztop9", "join", "window")     # callees whose named arguments change the SQL (values differ from the defaults)


def call_grid(ctx):
    """malformed calls (surplus positional, unknown / duplicated named, arguments to a non-function) in full / piped / partial form
    at every host position: must be rejected (oracle); Model.Fn.bindArgs gives the same verdict on the signature (tie)"""
    cells = list(c10grid.call_cells())
    ans = compile_all([c["text"] for c in cells] + [c["twin"] for c in cells])
    sigs = list(dict.fromkeys((c["sig"][0], tuple(c["sig"][1]), c["sig"][2], tuple(c["sig"][3])) for c in cells if c["sig"]))
    bind = dict(zip(sigs, drv_batch([f"bindargs\t{p}\t{' '.join(nm)}\t{gp}\t{' '.join(gn)}" for p, nm, gp, gn in sigs])))
    plain_sql = {}
    for c in cells:
        if c["kind"] == "valid" and c["id"][1] == "valid":
            plain_sql[(c["id"][0],) + tuple(c["id"][2:])] = ans[c["text"]].get("sql")
    nvalid = nok = 0
    for c in cells:
        a, t = ans[c["text"]], ans[c["twin"]]
        ic, tc = err_class(a), err_class(t)
        kind = c["kind"]
        ctx.case(("callgrid", c["text"]), nontrivial=True)
        ctx.count(f"callgrid:{kind}:{c['id'][0]}:" + ic[0])
        rep = {"prql": c["text"], "grid": list(c["id"]), "kind": kind, "compiler": ic, "twin": c["twin"], "twin_compiler": tc,
               "sql": (a.get("sql") or "")[:400]}
        mv = None
        if c["sig"] and kind != "duplicate-named":
            mv = bind[(c["sig"][0], tuple(c["sig"][1]), c["sig"][2], tuple(c["sig"][3]))]
            want = {"valid": "ok", "surplus": "too-many", "unknown-named": "unknown-named " + str(c["bad"])}[kind]
            # fewer positional arguments than parameters: bindArgs reports the missing one first (the compiler curries and reports the name)
            if mv != want and not (kind == "unknown-named" and c["sig"][2] < c["sig"][0] and mv == "missing"):
                ctx.disagreement("bindArgs", f"{c['id']}: bindArgs on {c['sig']} = {mv}, expected {want}", rep)
        if kind == "valid":
            nvalid += 1
            if ic[0] == "ok":
                nok += 1
                base = plain_sql.get((c["id"][0],) + tuple(c["id"][2:]))
                if (c["id"][1].startswith("valid-named") and c["id"][0] in HONOURED and c["id"][3] not in ("case-dead", "unused-let-body")
                        and base is not None and base == a.get("sql")):
                    ctx.disagreement("named-argument-ignored", f"{c['id']}: the call with the named arguments compiles to the SQL of the call without them", rep)
            else:
                ctx.disagreement("bindArgs-vs-compiler", f"{c['id']}: a well-formed call is rejected: {ic}", rep)
            continue
        if tc[0] != "ok":
            ctx.count(f"callgrid:twin-rejected:{kind}")
        if ic[0] == "ok":
            ctx.oracle_failure(None, f"{kind} at {c['id']}: the malformed call compiles to SQL", rep)
        elif ic[0] == "panic":
            ctx.oracle_failure(None, f"{kind} at {c['id']}: the compiler panics: {ic[1]}", rep)
        elif tc[0] == "ok" and ic[0] != "args":
            ctx.count(f"callgrid:{kind}:rejected-for-another-reason")
    ctx.obligation("call grid: every well-formed call of the grid compiles (the signature table is the real one)", nok == nvalid, f"{nok}/{nvalid}")


def classify_accept(kind, e, a):
    """known-finding predicates for an ill-scoped program that compiles"""
    if kind in ("relation-as-scalar-pipeline", "relation-as-scalar-filter"):
        return "relation-as-scalar-passes-through"
    return None


def classify_panic(kind, msg):
    if kind == "relation-as-scalar-pipeline":
        return "panic-after-relation-as-scalar"
    return None


def arg_cases(ctx):
    """T3 tie: Model.Fn.bindArgs on the signatures used by the edits (through drv) = what the table says"""
    lines = []
    for fn, npos, named, _ in ARG_CASES:
        p, nm = ARG_SIGS[fn]
        lines.append(f"bindargs\t{p}\t{' '.join(nm)}\t{npos}\t{' '.join(named)}")
    ans = drv_batch(lines)
    bad = [(c, a) for c, a in zip(ARG_CASES, ans) if a != c[3]]
    for c, a in bad:
        ctx.disagreement("bindArgs", f"bindArgs on {c[:3]} = {a}, expected {c[3]}", {"case": list(c), "model": a})
    ctx.case(("bindargs",), nontrivial=True)
    # and the real compiler on the same calls
    D = "module default_db {\n let t <[{a = int, b = int}]>\n}\nlet f9 = x -> x + 1\nlet g9 = x n:0 -> x + n\n"
    call = {"math.round": lambda np, nm: "derive {z = math.round " + " ".join(["2", "a", "3"][:np]) + "".join(f" {k}:1" for k in nm) + "}",
            "sum": lambda np, nm: "aggregate {z = sum " + " ".join(["a", "b"][:np]) + "}",
            "f9": lambda np, nm: "derive {z = f9 " + " ".join(["a", "2"][:np]) + "".join(f" {k}:1" for k in nm) + "}",
            "g9": lambda np, nm: "derive {z = g9 " + " ".join(["a", "2"][:np]) + "".join(f" {k}:1" for k in nm) + "}",
            "take": lambda np, nm: "take " + " ".join(["1", "2", "3"][:np - 1])}
    reqs = [{"op": "compile", "prql": D + "from t | " + call[fn](npos, named), "target": "sql.sqlite"} for fn, npos, named, _ in ARG_CASES]
    for (fn, npos, named, exp), a in zip(ARG_CASES, vh_batch(reqs)):
        ic = err_class(a)
        ctx.case(("argcall", fn, npos, tuple(named)), nontrivial=True)
        ctx.count("args:" + ("accepted" if ic[0] == "ok" else ic[0]))
        want_ok = exp == "ok"
        if want_ok != (ic[0] == "ok"):
            if ic[0] == "ok":
                ctx.oracle_failure(None, f"call of {fn} with {npos} positional and named {named} compiles", {"prql": reqs[0]["prql"], "case": [fn, npos, named]})
            else:
                ctx.disagreement("bindArgs-vs-compiler", f"{fn} with {npos} positional, named {named}: compiler {ic}, model {exp}", {"case": [fn, npos, named]})
        elif not want_ok and ic[0] != "args" and not (fn == "take" and ic[0] == "bug"):
            ctx.disagreement("bindArgs-vs-compiler", f"{fn} with {npos} positional, named {named}: compiler {ic}, model {exp}", {"case": [fn, npos, named]})


DECL_P = dict(declared=True, shared_k=True, append_inline=True, open_take=False, dup_names=False)
DECL_K = dict(declared=True, shared_k=False, append_inline=True, open_take=False, dup_names=False)
DUP_P = dict(declared=True, shared_k=True, append_inline=False, open_take=True, dup_names=True)
UNDECL_P = dict(declared=False, shared_k=False, append_inline=True, open_take=False, dup_names=False)

# hand-written programs for the parts of the model the generator does not reach: (program, model program, expected class, expected name)
T0 = "( table t0 ( u0 a0 k ) )"
T1 = "( table t1 ( u1 a1 k ) )"
CD = "module default_db {\n let t0 <[{u0 = int, a0 = int, k = int}]>\n let t1 <[{u1 = int, a1 = int, k = int}]>\n}\n"


def P(src, *steps, lets="", alias="-", globals_=""):
    return f"( ( {globals_} ) ( {lets} ) ( {src} {alias} " + " ".join(steps) + " ) )"


CORPUS = [
    # a column named like a top-level std function: `std` is a root redirect
    (CD + "from t0 | select {sum = a0} | filter sum > 1", P(T0, "( select ( sum 0 a0 ) )", "( filter sum )"), "ambiguous", "sum"),
    (CD + "from t0 | select {average = a0, u0} | filter average > u0", P(T0, "( select ( average 0 a0 ) ( - 1 u0 ) )", "( filter average u0 )"), "ambiguous", "average"),
    # aliases of a tuple are in scope for the following fields; an alias equal to a column name is then ambiguous
    (CD + "from t0 | select {x = a0, y = x + 1, z = t0.a0}", P(T0, "( select ( x 0 a0 ) ( y 0 x ) ( z 0 t0.a0 ) )"), "ok", None),
    (CD + "from t0 | derive {u0 = a0, y = u0 + 1}", P(T0, "( derive ( u0 0 a0 ) ( y 0 u0 ) )"), "ambiguous", "u0"),
    (CD + "from t0 | select {a0 = u0, y = a0 + 1}", P(T0, "( select ( a0 0 u0 ) ( y 0 a0 ) )"), "ambiguous", "a0"),
    (CD + "from t0 | aggregate {x = sum u0, y = x + 1}", P(T0, "( aggregate ( x 0 u0 ) ( y 0 x ) )"), "ok", None),
    # a new column takes the name away from older columns of that name
    (CD + "from t0 | derive {u0 = a0} | filter t0.u0 > 0", P(T0, "( derive ( u0 0 a0 ) )", "( filter t0.u0 )"), "unknown", "t0.u0"),
    (CD + "from t0 | derive {u0 = a0} | select {u0, t0.a0}", P(T0, "( derive ( u0 0 a0 ) )", "( select ( - 1 u0 ) ( - 1 t0.a0 ) )"), "ok", None),
    (CD + "from t0 | join t1 (t0.k == t1.k) | derive {k = 1} | filter k > 0 | select {t0.k}",
     P(T0, f"( join {T1} - ( t0.k t1.k ) ( ) ( ) )", "( derive ( k 0 ) )", "( filter k )", "( select ( - 1 t0.k ) )"), "unknown", "t0.k"),
    (CD + "from t0 | join t1 (==k) | select {t0.k, t1.k} | filter k > 1",
     P(T0, f"( join {T1} - ( ) ( k ) ( k ) )", "( select ( - 1 t0.k ) ( - 1 t1.k ) )", "( filter k )"), "ok", None),
    # select keeps the input of a plain reference, an alias does not
    (CD + "from t0 | select {u0} | filter t0.u0 > 1", P(T0, "( select ( - 1 u0 ) )", "( filter t0.u0 )"), "ok", None),
    (CD + "from t0 | select {x = u0} | filter t0.u0 > 1", P(T0, "( select ( x 0 u0 ) )", "( filter t0.u0 )"), "unknown", "t0.u0"),
    # bare name of two joined relations; the join condition
    (CD + "from t0 | join t1 (==k) | select {k}", P(T0, f"( join {T1} - ( ) ( k ) ( k ) )", "( select ( - 1 k ) )"), "ambiguous", "k"),
    (CD + "from t0 | join t1 (k == k)", P(T0, f"( join {T1} - ( k k ) ( ) ( ) )"), "ambiguous", "k"),
    (CD + "from t0 | join t1 (==zz)", P(T0, f"( join {T1} - ( ) ( zz ) ( zz ) )"), "unknown", "zz"),
    (CD + "from t0 | join t1 (==u0)", P(T0, f"( join {T1} - ( ) ( u0 ) ( u0 ) )"), "unknown", "u0"),
    (CD + "from t0 | join t1 (u0 == u1) | select {t0.k, y = k + 1}", P(T0, f"( join {T1} - ( u0 u1 ) ( ) ( ) )", "( select ( - 1 t0.k ) ( y 0 k ) )"), "ambiguous", "k"),
    # group: the keys are not visible inside, keep their input outside
    (CD + "from t0 | group k (sort k | take 1)", P(T0, "( groupwin ( ( - 1 k ) ) ( ( - 1 k ) ) )"), "unknown", "k"),
    (CD + "from t0 | group k (aggregate {x = sum k})", P(T0, "( groupagg ( ( - 1 k ) ) ( ( x 0 k ) ) )"), "unknown", "k"),
    (CD + "from t0 | group k (take 1) | filter k > 1 | filter t0.k > 1 | select {t0.u0}",
     P(T0, "( groupwin ( ( - 1 k ) ) ( ) )", "( filter k )", "( filter t0.k )", "( select ( - 1 t0.u0 ) )"), "ok", None),
    (CD + "from t0 | join t1 (==k) | group t0.k (aggregate {x = sum a1}) | filter t1.k > 1",
     P(T0, f"( join {T1} - ( ) ( k ) ( k ) )", "( groupagg ( ( - 1 t0.k ) ) ( ( x 0 a1 ) ) )", "( filter t1.k )"), "unknown", "t1.k"),
    (CD + "from t0 | join t1 (==k) | group t0.k (aggregate {x = sum a1}) | filter k > 1 | filter t0.k > 1",
     P(T0, f"( join {T1} - ( ) ( k ) ( k ) )", "( groupagg ( ( - 1 t0.k ) ) ( ( x 0 a1 ) ) )", "( filter k )", "( filter t0.k )"), "ok", None),
    # aliases of relations, let relations, append
    (CD + "from x = t0 | filter x.u0 > 1 | filter t0.u0 > 1", P(T0, "( filter x.u0 )", "( filter t0.u0 )", alias="x"), "unknown", "t0.u0"),
    (CD + "let l0 = (from t0 | select {u0, z = a0})\nfrom l0 | filter l0.z > 1 | filter u0 > 0 | filter t0.u0 > 0",
     P("( let l0 0 )", "( filter l0.z )", "( filter u0 )", "( filter t0.u0 )", lets=f"( {T0} - ( select ( - 1 u0 ) ( z 0 a0 ) ) )", globals_="l0"), "unknown", "t0.u0"),
    (CD + "from t0 | append t1 | filter u0 > 1 | filter t0.u0 > 1", P(T0, f"( append {T1} )", "( filter u0 )", "( filter t0.u0 )"), "ok", None),
    (CD + "from t0 | append t1 | filter u1 > 1", P(T0, f"( append {T1} )", "( filter u1 )"), "unknown", "u1"),
    (CD + "from t0 | select {a = u0} | append (from t1 | select {b = u1}) | filter b > 1",
     P(T0, "( select ( a 0 u0 ) )", "( append ( inline 0 ) )", "( filter b )", lets=f"( {T1} - ( select ( b 0 u1 ) ) )"), "unknown", "b"),
    # undeclared tables: inference while the frame has a wildcard, and only then
    ("from t0 | filter a0 > 1", P("( table t0 - )", "( filter a0 )"), "ok", None),
    ("from t0 | select {t0.u0} | filter a0 > 1", P("( table t0 - )", "( select ( - 1 t0.u0 ) )", "( filter a0 )"), "unknown", "a0"),
    ("from t0 | join t1 (t0.k == t1.k) | select {zz}", P("( table t0 - )", "( join ( table t1 - ) - ( t0.k t1.k ) ( ) ( ) )", "( select ( - 1 zz ) )"), "ambiguous", "zz"),
    ("from t0 | join t1 (t0.k == t1.k) | select {t0.zz}", P("( table t0 - )", "( join ( table t1 - ) - ( t0.k t1.k ) ( ) ( ) )", "( select ( - 1 t0.zz ) )"), "ok", None),
    ("from t0 | join t1 (t0.k == t1.k) | select {t0.a, t1.b} | filter t1.zz > 1",
     P("( table t0 - )", "( join ( table t1 - ) - ( t0.k t1.k ) ( ) ( ) )", "( select ( - 1 t0.a ) ( - 1 t1.b ) )", "( filter t1.zz )"), "unknown", "t1.zz"),
    ("from t0 | aggregate {s = sum a} | filter a > 1", P("( table t0 - )", "( aggregate ( s 0 a ) )", "( filter a )"), "unknown", "a"),
    # scalar where a relation is required
    ("from 5", P("( scalar )"), "relation", None),
    (CD + "from t0 | append 7", P(T0, "( append ( scalar ) )"), "relation", None),
]


def corpus_cases(ctx):
    ans = vh_batch([{"op": "compile", "prql": p, "target": "sql.sqlite"} for p, _, _, _ in CORPUS])
    mod = drv_batch(["scope\t" + m for _, m, _, _ in CORPUS])
    for (p, mp, exp, name), a, m in zip(CORPUS, ans, mod):
        ic, mc = err_class(a), model_class(m)
        ctx.case(("corpus", p), nontrivial=True)
        ctx.count("corpus:" + ic[0])
        rep = {"prql": p, "model_program": mp, "compiler": ic, "model": m, "expected": [exp, name]}
        icn = "relation" if (exp == "relation" and ic[0] in ("bug", "other")) else ic[0]
        if mc[0] != exp or (name and exp != "ok" and mc[1] != name):
            ctx.disagreement("corpus-model", f"the model says {m}, the corpus entry expects {exp} {name}", rep)
        if icn != exp or (exp == "unknown" and strip_this(ic[1]) != name):
            if ic[0] == "ok" and exp != "ok":
                ctx.oracle_failure(None, f"corpus: an ill-scoped program compiles ({exp} {name} expected)", rep)
            else:
                ctx.disagreement("corpus-compiler", f"the compiler says {ic}, the corpus entry expects {exp} {name}", rep)


def run(ctx):
    br = vlib.standard_proof_obligations(ctx, ["PrqlModel.Props.C10"], ["StdNames"],
        required_theorems=["resolve_unique", "resolve_two_candidates", "closed_frame_rejects", "args_checked_surplus", "args_checked_named",
                           "relation_required", "accept_iff_wellScoped", "scope_break_rejected", "resolve_ok_iff_denotes",
                           "inferred_only_if_open", "unknown_reference_rejected", "ambiguous_reference_rejected", "call_rejects"])
    ctx.rule = ("two systematic grids (every syntactic position x every expression context x fully known base frames x kinds of ill-scoped "
                "reference, each cell with its well-scoped twin; malformed calls x callee x call form x host position), then "
                "well-scoped programs of the relational generator (declared schemas with and without a shared column name; undeclared tables) "
                "and, for each, one scope-breaking edit at every site: a column dropped by an earlier select/aggregate/group referenced later, a "
                "name that never existed (bare and qualified) in a fully known frame, a bare name two joined relations provide, a surplus "
                "positional / unknown named argument to a std, aggregate, user function or transform, the dropped / unknown name wrapped in a random "
                "expression context at a random position, random malformed calls of the call grid, a scalar as from/join/append argument, a "
                "relation as a scalar; each variant is compiled by the real compiler (must end in an error) and judged by the Lean model "
                "(same verdict, error kind and name; same final frame on the unbroken program); a case is one program; non-trivial = an accepted "
                "program of >= 3 transforms, or an edited program")
    ctx.assumptions += ["'fully known' and 'dropped' are judged by the generator's own frame bookkeeping (tools/relgen.py frames), "
                        "independently of the Lean model"]
    if not (br.cargo_ok and br.drv_ok):
        return
    quick = ctx.tier == "quick"
    fixed = random.Random(101010)
    arg_cases(ctx)
    corpus_cases(ctx)
    call_grid(ctx)
    context_grid(ctx, "quick" if quick else "thorough")
    explore(ctx, "declared-shared-k", fixed, 500 if quick else 4000, DECL_P, quick)
    explore(ctx, "declared", fixed, 300 if quick else 2500, DECL_K, quick)
    explore(ctx, "declared-dup-names", fixed, 300 if quick else 2500, DUP_P, quick)
    explore(ctx, "undeclared", fixed, 300 if quick else 2500, UNDECL_P, quick)
    explore(ctx, "seed-tail-declared", ctx.rng, 300 if quick else 4000, DECL_P, quick)
    explore(ctx, "seed-tail-undeclared", ctx.rng, 200 if quick else 2000, UNDECL_P, quick)
    ctx.obligation("oracle: every ill-scoped variant ends in an error, never in SQL or a panic (all unlisted cases)",
                   not [v for v in ctx.violations if v["kind"] == "failing-input"], f"{ctx.oracle_failures} failing variants")
    dis = [v for v in ctx.violations if v["kind"] == "correspondence"]
    ctx.obligation("correspondence: model verdict / error kind / name / final frame = the real resolver's on unbroken and edited programs",
                   not dis, f"{ctx.disagreements} disagreements")


def replay(obj):
    if obj.get("kind") in ("no-failing-input-found", "correspondence") or obj.get("correspondence"):
        return vlib.replay_correspondence(obj)
    r = obj.get("replay", obj)
    print(json.dumps(r, indent=1)[:3000])
    if "prql" in r:
        print("now:", str(vh_batch([{"op": "compile", "prql": r["prql"], "target": "sql.sqlite"}])[0])[:600])
    return 0
