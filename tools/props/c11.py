"""C11 compilation is a pure function of source tree and options (PARTIAL: order-independence and log non-interference
proved on models, the runtime explored)."""
import concurrent.futures, hashlib, itertools, json, re
import vlib
from vlib import drv_batch

MANIFEST = dict(
    text="PARTIAL. Proved (Lean, Props/C11.lean): for every way the compiler consumes the enumeration of a HashMap/HashSet - first "
         "match, first element, collect into a map, first error of try_collect, per-value update, stable sort by key, commutative "
         "reductions, toposort over the sorted dependency list - the result is independent of the enumeration under an explicit side "
         "condition (unique match / distinct keys / injective sort key / at most one entry), with a counterexample theorem where the "
         "code's use does depend on it; and log_noninterference: over a state machine of the global debug log (absent / active with "
         "suppress count / poisoned) a compile returns its pure value for every log state and every interleaving of log operations "
         "of other threads unless the lock is poisoned, with the two poisoning routes as theorems. Tie: tools/gen_hashsites.py lists "
         "every enumeration of a hash container in prqlc / prqlc-parser by (file, function, snippet), requires each to be classified "
         "(sorted-before-use / order-independent by a named theorem / order-leak with a finding / not a hash / debug only), checks the "
         "syntactic evidence of each classification and the shapes of debug/log.rs and the list of statics; the log model is run "
         "against the real prqlc::debug API on all short call histories. Explored, not proved: the same corpus compiled in fresh "
         "processes (fresh hash seeds), from 8 threads concurrently, after histories of successful / failing / panicking calls, and "
         "multi-file projects in every insertion order must give byte-identical SQL, RQ, formatter output, PL JSON and error fields.",
    note="level is partial: hash-order and log-state LOGIC is proved on models; hash seeds, thread scheduling, allocator and process "
         "state are runtime and only explored. Side conditions of the theorems (redirect targets injective, Decl.order distinct among "
         "emitted entries, no repeated path in a file list) are invariants of the implementation that are assumed, not proved. "
         "Known findings (the unchanged tree is NOT a pure function): see known_findings.json, property C11.",
    technique="Lean 4 proofs over enumeration-consumer models + regenerated site inventory; process/thread/history/insertion-order "
              "differential exploration through the harness", ref="4/C11")

REQUIRED = ["find_unique_order_indep", "find_order_dependent_counterexample", "singleton_enum_order_indep",
            "first_of_enumeration_order_dependent_counterexample", "collect_distinct_keys_order_indep",
            "collect_last_order_dependent_counterexample", "pointwise_update_order_indep", "lookup_set_semantics",
            "first_error_unique_order_indep", "first_error_order_dependent_counterexample",
            "print_enumeration_order_dependent_counterexample", "sort_perm", "stable_sort_equal_keys_order_dependent_counterexample",
            "toposort_stable", "linearize_tree_sorted", "reduce_order_indep", "all_consumers_order_independent_counterexample",
            "all_consumers_order_independent_partial", "log_noninterference", "log_noninterference_sequential",
            "log_double_start_poisons_counterexample", "log_restart_race_poisons_counterexample", "oncelock_idempotent"]

# ---------------------------------------------------------------------------------------------------------------------
# corpus directed at the inventory
# ---------------------------------------------------------------------------------------------------------------------
DECL = "module default_db { let t <[{a = int, b = int, c = int}]>\n let u <[{a = int, d = int, e = text}]> }\n"
DIRECTED = [
    # two aliases of one column + final sort (postprocess.rs alias_last_sorting)
    "let k = 3\nfrom t | derive {x0 = b} | take 2..4 | sort {-b, a} | derive {x0 = {(+(!true))}, x1 = b}",
    "from t | sort {a} | derive {x = a, y = a, z = a} | take 5 | select {y, z, x}",
    "from t | derive {p = b, q = b} | sort {-b} | take 3 | select {q, p, a}",
    DECL + "from t | sort {b, -c} | derive {b1 = b, b2 = b, c1 = c} | take 4 | select {b2, c1, b1}",
    # two instances of one CTE (postprocess.rs relation_instances.find)
    "let c = (from t | sort a | select {b})\nfrom c | join d=c (c.b == d.b)",
    "let c = (from t | sort a | select {b} | take 10)\nfrom c | join side:left d=c (c.b == d.b) | take 5",
    "let c = (from t | sort a | select {b})\nfrom d=c | join c (c.b == d.b) | select {c.b, e = d.b}",
    "let c = (from t | sort a | select {b})\nfrom c | append c",
    "let c = (from t | filter a > 1)\nlet d = (from c | join e=c (==a) | select {c.a, e.b})\nfrom d | join c (==a)",
    # named arguments (functions.rs, ast_expand.rs, codegen/ast.rs, serde)
    "let f = a:1 b:2 x -> x + a + b\nfrom t | select {y = f zz:3 yy:4 c}",
    "from t | select {y = std.math.round zz:3 yy:4 c}",
    "let f = a:1 b:2 c:3 x -> x + a + b\nfrom t | select {y = f c:9 b:4 a:3 c}",
    "let f = a:1 b:2 c:3 d:4 x -> x + a + b + c + d\nfrom t | select {y = f d:1 c:9 b:4 a:3 c, z = f a:5 6}",
    "let f = a:1 b:2 x -> x + a + b\nfrom t | select {y = f a:(==x.y) b:(==1) c}",
    "let f = a:1 b:2 c:4 x -> x + a + b + c\nfrom t | derive {k = 1} | select {y = f a:(k+1) b:(k+2) c:(k+3) k}",
    "from t | join side:left u (==a) | sort {t.a} | take 3",
    "from t | window rows:-1..1 expanding:false (sort a | derive {s = sum b})",
    "from t | window rows:-1..1 range:0..2 (derive {s = sum b})",
    # query header
    "prql foo:1 bar:2 baz:3\nfrom t",
    "prql target:sql.sqlite zz:1 yy:2\nfrom t | take 3",
    "prql target:sql.postgres version:\"0.13\"\nfrom t | take 3",
    # many columns / aliases / hints
    "from t | select {a, b, c} | derive {x1 = 1, x2 = 2, x3 = 3, x4 = zz}",
    "from t | select {a, b} | derive {k = 1, l = 2, m = 3} | filter zzz",
    "from t | join u (==id) | select {id, x = y}",
    "from t | join u (==a) | select {k = 1, t.b, u.c} | select {this.*}",
    "from t | select {a, b, c} | join u=(from u | select {d, e}) (a==d) | derive {k = 1, l = 2} | select !{a}",
    "from t | join u (==a) | derive {k = 1, l = 2} | select {t.*, k, u.*}",
    # exclusions of exclusions (the surviving names of a set difference become columns), over unknown and known frames
    "from t | select !{!{a, b, c, d}}",
    "from t | select !{!{zeta, alpha, mid, beta, omega}} | sort alpha",
    "from t | join u (==a) | select !{!{t.b, t.c, t.d, u.e, u.f}}",
    "from t | select !{a} | select !{!{b, c, d, e}}",
    DECL + "from t | select !{!{a, b, c}}",
    DECL + "from t | join u (==a) | select {this.*}",
    DECL + "from t | join u (==a) | derive {k = t.b + u.d, l = 2} | select !{t.a, u.e}",
    DECL + "from t | select {q1 = a, q2 = a, q3 = b, q4 = b, q5 = c, q6 = c, q7 = a + b} | sort {q7, -q2} | take 3 | select {q6, q1, q4}",
    "from t | derive {a1 = a, a2 = a, a3 = a} | group {a1} (aggregate {n = count this, s = sum a2}) | sort {-s} | take 2",
    "from t | group {a, b} (sort c | take 1) | sort {b} | select {b, a}",
    "from t | group a (take 3)",
    "from t | select {a, b} | take 5 | filter a > 1 | sort b | take 2 | derive c = a + b | filter c < 9",
    "from t | sort a | take 10 | join u (==a) | sort {u.d} | take 3 | select {t.a, u.d, x = u.d}",
    "from t | derive {d1 = a + 1, d2 = a + 1} | sort {d1} | take 2 | select {d2, d1}",
    "from t | take 3 | append (from u | take 2) | sort a",
    "from t | remove (from u | select {a}) | sort a",
    "from t | select {a} | intersect (from u | select {a})",
    "let x = (from t | take 5)\nlet y = (from x | filter a > 1)\nlet z = (from x | join y (==a))\nfrom z | join x (==a) | take 1",
    "let b1 = (from t)\nlet a1 = (from b1)\nlet c1 = (from a1 | join b1 (==a))\nfrom c1",
    "from t | select {x = s\"SELECT a, b FROM q\"}",
    "from s\"SELECT a, b FROM q\" | sort a | derive {a1 = a, a2 = a} | take 2 | select {a2, a1}",
    "from [{a = 1, b = 2}, {a = 3, b = 4}] | derive {c = a, d = a} | sort {-a} | take 1 | select {d, c}",
    "from (read_json '[{\"b\": 1, \"a\": 2}, {\"a\": 3, \"b\": 4}]')",
    "from t | select {f\"{a}-{b}\", g = f\"{c}\"}",
    "from t | derive {x = case [a > 1 => b, a < 0 => c, true => 0]} | sort x",
    "from t | loop (filter a < 10 | derive a = a + 1)",
    # error programs of every class
    "from t | fiter a", "from t | select {a} | filter zz > 1", "from t | select", "from t | take -1", "from t | derive {x = a +}",
    "from t | select {a = 1 +", "let a = \nfrom t", "from t | join u", "from t | sort {a, +}", "from t | aggregate {sum}", "from",
    "", "# only a comment", "let x = 1", "from t | select {a, b} | select {c}", "from t | select {x = a ?? }", "from t | take 1..x",
    "from t | derive {x = 1e999}", "from t | select {`a b`, \"q\", 'q', @2020-01-01, 5days}", "from t | select {x = f\"{a\"}",
    "from é | select {ü = 1 +", "from t | select {a = 'é' + }", "from t | derive x = (1 | std.nope)", "from t | std.nope",
    "from t | join side:diagonal u (==a)", "from t | group", "from t | window (derive x = 1) | take", "let f = x -> x + 1\nfrom t | f",
    "from t | select {a, a = b}", "from t | select {x = t.u.v.w}", "from t | derive {x = this.nope.a}", "from a.b.c | select {d.e}",
    "prql version:\"99\"\nfrom t", "prql target:sql.nope\nfrom t", "prql target:1\nfrom t",
]
# histories: calls that succeed, fail, or panic (caught), before the probes
PANICKY = [
    {"op": "compile", "prql": "from é | select {ü = 1 +"}, {"op": "compile", "prql": "é" * 3 + "from t | select {a = "},
    {"op": "rq_json_to_sql", "json": "{\"def\":{\"version\":null,\"other\":{}},\"tables\":[],\"relation\":{\"kind\":{\"Pipeline\":[]},\"columns\":[]}}"},
    {"op": "pl_json_to_sql", "json": "{}"}, {"op": "compile", "prql": "from t | take 1..x"},
]
# multi-file projects: (files, main_path)
TREES = [
    ({"Project.prql": "from a.x | join b.z (==k)", "a.prql": "let x = (from t1)\nlet y = (from t2)", "b.prql": "let z = (from t3 | select {k, w})"}, []),
    ({"Project.prql": "from a.x | select {q = zz1}", "a.prql": "let x = (from t1 | select {q = 1 +})", "b.prql": "let z = (from t3 | select {k, w = })"}, []),
    ({"": "from m.x | join m.sub.y (==a) | sort {m.sub.y.b} | take 3", "m.prql": "let x = (from t | sort a)", "m/sub.prql": "let y = (from u | select {a, b})"}, []),
    ({"Main.prql": "let main = (from lib.base | derive {k1 = a, k2 = a} | sort {-a} | take 2 | select {k2, k1})", "lib.prql": "let base = (from t)",
      "other.prql": "let unused = (from nope | fiter 1)"}, []),
    ({"Project.prql": "from a.x", "a.prql": "let x = (from t1 | filter zz.yy > 1)", "b.prql": "let z = (from t3 | select {nope.q})", "c.prql": "let w = (from t4)"}, []),
    ({"p.prql": "let q = (from t | take 1)", "r.prql": "let main = (from p.q)"}, ["r", "main"]),
    ({"p.prql": "let q = (from t | take 1)", "r.prql": "from p.q", "s.prql": "let v = 1"}, []),
    # known: two candidates for the root / two files with one module path
    ({"Project.prql": "from a.x", "Other.prql": "from a.y", "a.prql": "let x = (from t1)\nlet y = (from t2)"}, []),
    ({"Project.prql": "from a.x", "a.prql": "let x = (from t1)", "a.txt": "let x = (from t2)"}, []),
]
OPS = ["compile", "rq", "fmt", "pl_json_text"]


# ---------------------------------------------------------------------------------------------------------------------
# corpus directed at what makes HashMap order OBSERVABLE in the intermediate outputs (RQ, PL, lineage, the stages of the debug
# log) even when the SQL text is the same: tables with unknown columns (no declaration) of which SEVERAL columns are referenced
# by name before the whole input is used as a tuple (`e.*`, `select {e}`, `group e.* (..)`) - the table instance then holds
# {named columns + wildcard} in a map (lowering.rs LoweredTarget::Input) and every consumer must order it by position
# ---------------------------------------------------------------------------------------------------------------------
WTABLES = {"e": ("employees", ["emp_id", "dept", "age", "name", "city"]),
           "s": ("salaries", ["emp_id", "salary", "year", "grade", "bonus"]),
           "d": ("departments", ["dept", "head", "floor", "budget"])}


def _wrefs(alias, cols, style):
    """transforms that reference the columns `cols` of input `alias` by name, one transform per column"""
    q = (alias + ".") if alias else ""
    out = []
    for i, c in enumerate(cols):
        st = style[i % len(style)]
        if st == "f":
            out.append(f"filter {q}{c} != null")
        elif st == "d":
            out.append(f"derive {{x{i} = {q}{c}}}")
        elif st == "s":
            out.append(f"sort {{{'-' if i % 2 else ''}{q}{c}}}")
        else:
            out.append(f"filter ({q}{c} ?? {q}{cols[0]}) != null")
    return out


# whole-input uses; {e} = alias of the first input, {s} = alias of the joined one (None: single-table use)
WUSES_1 = ["select {{{e}.*}}", "select {{{e}}}", "group {e}.* (aggregate {{n = count this}})", "group {{{e}.*}} (take 1)",
           "derive {{k = 1}} | select {{{e}.*, k}}", "select {{{e}.*}} | take 3 | derive {{z = 1}}", "select {{w = {e}}}",
           "select {{{e}.*}} | select {{this.*}}", "select {{k = 1, {e}.*}} | select {{this.*}}", "aggregate {{n = count {e}.*}}",
           "group {e}.* (sort {{{e}.*}} | take 1)", "select {{{e}.*, {e}.*}}", "take 5 | select {{{e}.*}} | sort {{{e}.*}}"]
WUSES_2 = ["select {{{e}.*, {s}.salary}}", "select {{{s}.salary, {e}.*}}", "select {{{e}.*, {s}.*}}", "select {{{s}.*, {e}.*}}", "select {{{e}, {s}.salary}}",
           "group {e}.* (aggregate {{m = max {s}.salary}})", "group {{{e}.*}} (sort {s}.salary | take 1)", "select {{{e}, {s}}}",
           "derive {{k = {s}.salary + 1}} | select {{{e}.*, k}}", "select {{{e}.*, {s}.salary}} | take 3 | derive {{z = 1}}",
           "group {{{e}.*, {s}.year}} (aggregate {{m = max {s}.salary, n = count this}})", "select {{k = 1, {e}.*, {s}.salary}} | select {{this.*}}",
           "select !{{{s}.salary}}", "select {{{s}.salary, k = 2, {e}.*}} | select !{{k}}"]


def wild_systematic():
    """seed-independent stream: (alias kind) x (number of named references 2..4) x (reference style) x (whole-input use)"""
    out = []
    styles = ["f", "fd", "sfd", "c"]
    n = 0
    for use in WUSES_1:
        for k in (2, 3, 4):
            for alias in ("e", ""):
                n += 1
                st = styles[n % len(styles)]
                tab, cols = WTABLES["e"]
                a = alias or tab
                src = f"from {alias + '=' if alias else ''}{tab}"
                refs = _wrefs(alias if (n % 3) else "", cols[:k], st) if not alias else _wrefs(alias, cols[:k], st)
                out.append(" | ".join([src] + refs + [use.format(e=a)]))
    for use in WUSES_2:
        for k in (2, 3, 4):
            n += 1
            st = styles[n % len(styles)]
            (te, ce), (ts, cs) = WTABLES["e"], WTABLES["s"]
            side = ["", "side:left ", "side:full "][n % 3]
            before = _wrefs("e", ce[1:k], st)                       # emp_id is referenced by the join condition
            after = _wrefs("e", ce[k:k + (n % 2)], "f") + _wrefs("s", cs[1:1 + (n % 3)], "f")
            out.append(" | ".join([f"from e={te}"] + before[:n % 2 + 1] + [f"join {side}s={ts} (==emp_id)"] + before[n % 2 + 1:] + after + [use.format(e="e", s="s")]))
    # three wildcard inputs, several columns of each referenced
    for n, use in enumerate(["select {e.*, s.*, d.*}", "select {d.*, e.*, s.salary}", "select {e.*, d.head}", "group e.* (aggregate {m = max s.salary, h = min d.head})",
                             "select {e, s, d}", "group {e.*, d.*} (take 1)", "select {s.*} | select {this.*}"]):
        out.append(" | ".join(["from e=employees", "filter e.age != null", "join s=salaries (==emp_id)", "join side:left d=departments (e.dept == d.dept)",
                               "filter s.year != null", "filter d.floor != null", "filter e.city != null", "filter s.grade != null", use]))
    # the instance behind a let / a second instance of the same table / inside append and loop
    out += ["let a = (from e=employees | filter e.age != null | filter e.dept != null | select {e.*})\nfrom a | take 2",
            "let a = (from e=employees | filter e.age != null | filter e.dept != null | filter e.city != null)\nfrom a | join s=salaries (==emp_id) | filter s.year != null | filter s.grade != null | select {s.*, a.*}",
            "let a = (from employees | filter age != null | filter dept != null)\nfrom x=a | join y=a (x.emp_id == y.emp_id) | filter x.city != null | filter y.name != null | select {x.*, y.*}",
            "from e=employees | filter e.age != null | filter e.dept != null | select {e.*} | append (from f=employees | filter f.city != null | filter f.name != null | select {f.*})",
            "from e=employees | filter e.age != null | filter e.dept != null | group e.* (aggregate {n = count this}) | join s=salaries (==emp_id) | filter s.year != null | select {s.*, n}",
            "from e=employees | join s=salaries (==emp_id) | filter e.dept == \"R&D\" | filter e.age > 30 | select {e.*, s.salary}",
            "from e=employees | filter e.age != null | filter e.dept != null | filter e.city != null | filter e.name != null | filter e.emp_id != null | select {e.*}",
            "from e=employees | window rows:-1..1 (sort {e.age, e.dept} | derive {m = sum e.emp_id}) | select {e.*, m}",
            "from e=employees | derive {a2 = e.age * 2, d2 = e.dept, c2 = e.city} | select {e.*, a2} | sort {a2} | take 3",
            "from e=employees | filter e.age != null | filter e.dept != null | loop (filter e.age < 10 | select {e.*})"]
    return list(dict.fromkeys(out))


def wild_random(rng, n):
    """random members of the same family (from ctx.rng)"""
    out = []
    for _ in range(n):
        ali = rng.sample(sorted(WTABLES), rng.randint(1, 3))
        parts = []
        for i, a in enumerate(ali):
            tab, cols = WTABLES[a]
            if i == 0:
                parts.append(f"from {a}={tab}")
            else:
                b = ali[0]
                common = [c for c in cols if c in WTABLES[b][1]]
                cond = f"(=={common[0]})" if common and rng.random() < 0.6 else f"({b}.{rng.choice(WTABLES[b][1])} == {a}.{rng.choice(cols)})"
                parts.append(f"join {rng.choice(['', 'side:left ', 'side:right ', 'side:full '])}{a}={tab} {cond}")
            refs = rng.sample(cols, rng.randint(0, len(cols)))
            parts += _wrefs(a, refs, rng.choice(["f", "fd", "sfd", "c", "d"]))
        # keep `from` first and every join before the references to its input: shuffle only the reference transforms after the last join
        lj = max(i for i, p in enumerate(parts) if p.startswith(("from", "join")))
        tail = parts[lj + 1:]
        rng.shuffle(tail)
        parts = parts[:lj + 1] + tail
        e = ali[0]
        if len(ali) == 1:
            use = rng.choice(WUSES_1).format(e=e)
        else:
            s = ali[1]
            use = rng.choice(WUSES_2 + WUSES_1).format(e=rng.choice(ali), s=s)
            if "salary" in use and s != "s":
                use = use.replace(f"{s}.salary", f"{s}.{WTABLES[s][1][1]}")
        out.append(" | ".join(parts + [use]))
    return out


def many_things():
    """many lets / modules / functions / named arguments / columns / errors at once (seed-independent)"""
    out = []
    lets = "\n".join(f"let v{i} = (from w{i % 3} | filter w{i % 3}.k{i} != null | filter w{i % 3}.j{i} != null | derive {{c{i} = w{i % 3}.k{i} + {i}}})" for i in range(8))
    out.append(lets + "\nfrom v0 | join v3 (v0.c0 == v3.c3) | join side:left v5 (v3.c3 == v5.c5) | select {v0.*, v3.c3, v5.*}")
    out.append(lets + "\nfrom v7 | join v1 (v7.c7 == v1.c1) | join v2 (v1.c1 == v2.c2) | join v4 (v2.c2 == v4.c4) | join v6 (v4.c4 == v6.c6) | select {v6.*, v4.*, v2.*, v1.*, v7.*}")
    out.append(lets + "\nlet u = (from v0 | append v3 | append v6)\nfrom u | join v1 (u.c0 == v1.c1) | group v1.* (aggregate {n = count this})")
    mod = ("module m1 {\n let f = x -> x + 1\n let g = a:1 b:2 x -> x * a + b\n let base = (from tbl | filter tbl.p != null | filter tbl.q != null)\n"
           " module inner {\n  let h = x -> x - 1\n  let t = (from m1.base | derive {y = m1.f p})\n  module deep { let c = 7\n let r = (from m1.inner.t | derive {w = y + c}) }\n }\n}\n"
           "module m2 { let k = 3\n let t2 = (from other | filter other.p != null | filter other.z != null) }\n")
    out.append(mod + "from m1.inner.t | derive {z = m1.g a:2 y, w = m1.inner.h z, v = m2.k}")
    out.append(mod + "from m1.inner.deep.r | join t2=m2.t2 (==p) | select {r.*, t2.z, c = m1.inner.deep.c}")
    out.append(mod + "from m1.base | join t2=m2.t2 (==p) | group base.* (aggregate {n = count this, s = sum t2.z})")
    out.append(mod + "from m1.base | select {base.*} | join t2=m2.t2 (==p) | select {t2.*, base.*}")
    fns = "\n".join(f"let f{i} = a{i}:{i} b{i}:{i + 1} x -> x + a{i} * b{i}" for i in range(6))
    out.append(fns + "\nfrom t | select {" + ", ".join(f"y{i} = f{i} b{i}:{i + 5} a{i}:{i + 3} c" for i in range(6)) + "}")
    out.append(fns + "\nfrom t | derive {" + ", ".join(f"y{i} = f{i} (f{(i + 1) % 6} c)" for i in range(6)) + "} | sort {y3} | take 4 | select {y5, y0, y3}")
    cols = ", ".join(f"c{i:02d} = a + {i}" for i in range(16))
    out.append(f"from t | select {{{cols}}} | sort {{c03, -c11}} | take 5 | select {{c15, c00, c07, c03, c11}}")
    out.append(f"from t | derive {{{cols}}} | filter c05 > 1 | group {{c01, c02}} (aggregate {{s = sum c03, m = max c04, n = count this}}) | sort {{-s}}")
    out.append(f"from t | join u (==a) | derive {{{cols}}} | select {{t.*, c09, u.*, c01}}")
    out.append("from w | " + " | ".join(f"filter w.k{i:02d} != null" for i in range(14)) + " | select {w.*}")
    out.append("from w | " + " | ".join(f"filter w.k{i:02d} != null" for i in range(14)) + " | join v (==k00) | " + " | ".join(f"filter v.j{i:02d} != null" for i in range(9)) + " | group w.* (aggregate {n = count v.*})")
    # many errors at once (lexer / parser recover and report several; the resolver reports one)
    out += ["from t | select {a +, b *, c -}\nlet x = \nlet y = (from | )\nfrom u | derive {z = }",
            "let a = (from t | select {x = 1 +})\nlet b = (from t | select {y = * 2})\nlet c = (from t | filter)\nfrom a | join b (==) | join c",
            "from t | select {a = 'unterminated, b = \"also, c = $}\nfrom u | derive {d = @bad-date, e = 1..}",
            "from t | derive {x = 1 ~~ 2, y = 3 ^^ 4, z = 5 ## 6}\nlet w = ? ? ?",
            "module m { let a = \n let b = ) \n let c = ] }\nfrom m.a | join m.b | select {m.c +}",
            "from t | select {nope1, nope2, nope3} | filter nope4 > nope5 | sort nope6",
            "from t | select {a, b, c} | derive {x1 = zz1, x2 = zz2, x3 = zz3}",
            "from t | join u (==a) | join v (==b) | select {t.nope, u.nope, v.nope}"]
    return out


SRC_OPS = ["tokens", "lex"]                                  # take the source as `src`
MID_OPS = ["pl", "rq_json", "lineage"]                       # besides OPS: PL as a value, the RQ JSON text, lineage
DIALECTS = ["sql.any", "sql.ansi", "sql.bigquery", "sql.clickhouse", "sql.duckdb", "sql.generic", "sql.glaredb", "sql.mssql", "sql.mysql",
            "sql.postgres", "sql.redshift", "sql.sqlite", "sql.snowflake"]
LETTERS = "SFEUDQC"
LETTER_REQ = {"S": {"op": "debug_log_start"}, "F": {"op": "debug_log_finish"}, "E": {"op": "debug_log_stage"}, "U": {"op": "debug_log_suppress"},
              "D": {"op": "debug_log_unsuppress"}, "Q": {"op": "debug_log_is_enabled"}, "C": {"op": "compile", "prql": "from t | sort a | take 3"}}


def J(v):
    # a panic answer may carry the panic location / innermost function (added by the harness' panic hook, which only the
    # top-level request loop has): not part of the compiler's answer
    if isinstance(v, dict) and "panic" in v:
        v = {k: x for k, x in v.items() if k not in ("at", "fn")}
    return json.dumps(v, sort_keys=True, ensure_ascii=True)


def vh_each(reqs, timeout=300):
    """every request in its OWN fresh process (fresh hash seeds, fresh statics)"""
    def one(r):
        ans, rc = vlib._run_lines([vlib.VH], [json.dumps(r, ensure_ascii=True)], timeout)
        try:
            return json.loads(ans[0])
        except Exception:
            return {"crash": str(rc), "out": ans[:1]}
    with concurrent.futures.ThreadPoolExecutor(vlib.NCPU) as ex:
        return list(ex.map(one, reqs))


def vh_runs(reqs, k, timeout=600):
    """the whole request list k times, each time in one fresh process"""
    lines = [json.dumps(r, ensure_ascii=True) for r in reqs]

    def one(_):
        out = vlib._batch([vlib.VH], lines, timeout, lambda rc: json.dumps({"crash": str(rc)}))
        res = []
        for a in out:
            try:
                res.append(json.loads(a))
            except Exception:
                res.append({"garbled": a})
        return res
    with concurrent.futures.ThreadPoolExecutor(vlib.NCPU) as ex:
        return list(ex.map(one, range(k)))


# ---------------------------------------------------------------------------------------------------------------------
# classification of a difference: canonicalisers of the KNOWN order leaks, each tied to its site by a predicate
# ---------------------------------------------------------------------------------------------------------------------
def _map_text(ans, f):
    """apply f to every string of an answer"""
    if isinstance(ans, str):
        return f(ans)
    if isinstance(ans, list):
        return [_map_text(x, f) for x in ans]
    if isinstance(ans, dict):
        return {k: _map_text(v, f) for k, v in ans.items()}
    return ans


def _alias_sources(sql):
    src = {}
    for m in re.finditer(r"([^\s,(]+) AS ([A-Za-z_][A-Za-z0-9_]*)", sql):
        src.setdefault(m.group(2), set()).add(m.group(1).split(".")[-1])
    return src


def _orderby_terms(sql, f):
    def clause(m):
        terms = [t.strip() for t in m.group(2).split(",")]
        return m.group(1) + ", ".join(f(t) for t in terms)
    return re.sub(r"(ORDER BY )((?:[A-Za-z_][\w.]*(?: DESC| ASC)?(?:, )?)+)", clause, sql)


def _unquote_all(sql, wit):
    """sql.snowflake quotes EVERY identifier: read `"x"` as `x` so that the two ORDER BY canonicalisers see the same text shape as
    for the other dialects (only for that target, only simple identifiers)"""
    if isinstance(sql, str) and wit.get("target") == "sql.snowflake":
        return re.sub(r'"([A-Za-z_][A-Za-z0-9_]*)"', r"\1", sql)
    return sql


def canon_orderby_alias(ans, wit):
    """ORDER BY names an alias of the sort column: replace each term by the (sorted) set of things its name is an alias of"""
    sql = _unquote_all(ans.get("sql"), wit) if isinstance(ans, dict) else None
    if not sql:
        return ans
    src = _alias_sources(sql)

    def term(t):
        name, _, d = t.partition(" ")
        q, _, n = name.rpartition(".")
        s = sorted(src.get(n, {n}))
        # aliases of one column: x0 -> b, x1 -> b; a column and its own alias: b -> b
        return (q + "." if q else "") + "|".join(s) + (" " + d if d else "")
    return {**ans, "sql": _orderby_terms(sql, term)}


def canon_cte_instance(ans, wit):
    """ORDER BY qualifies the sort column with one of several instances of one CTE (or with a CTE that is not in scope)"""
    sql = _unquote_all(ans.get("sql"), wit) if isinstance(ans, dict) else None
    if not sql:
        return ans
    rels = re.findall(r"(?:FROM|JOIN) ([A-Za-z_]\w*)", sql)
    if len(rels) == len(set(rels)):
        return ans
    return {**ans, "sql": _orderby_terms(sql, lambda t: t.rpartition(".")[2] if "." in t.split(" ")[0] else t)}


def canon_unknown_named(ans, wit):
    return _map_text(ans, lambda s: re.sub(r"unknown named argument `\w+` to closure", "unknown named argument `?` to closure", s))


def canon_first_error(ans, wit):
    if len(re.findall(r"\b\w+:\(?==", wit.get("prql", ""))) < 2:
        return ans
    return _map_text(ans, lambda s: re.sub(r"self-equality operator (requires a column name|does not support namespace prefix)", "self-equality operator ?", s))


def canon_fmt_named(ans, wit):
    if wit.get("op") != "fmt" or not isinstance(ans, dict) or "prql" not in ans:
        return ans
    def line(l):
        # a named argument's value may contain spaces (`b:k + 2`): compare the multiset of tokens of a line with >= 2 named arguments
        toks = l.split(" ")
        return " ".join(sorted(toks)) if sum(1 for t in toks if re.match(r"[A-Za-z_]\w*:\S", t)) >= 2 else l
    return {**ans, "prql": "\n".join(line(l) for l in ans["prql"].split("\n"))}


def canon_pl_json(ans, wit):
    if wit.get("op") != "pl_json_text" or not isinstance(ans, dict) or "json" not in ans:
        return ans
    try:
        return {**ans, "json": J(json.loads(ans["json"]))}
    except Exception:
        return ans


def canon_query_def(ans, wit):
    def f(s):
        return re.sub(r"unknown query definition arguments ((?:`\w+`(?:, )?)+)", lambda m: "unknown query definition arguments " + ", ".join(sorted(m.group(1).split(", "))), s)
    return _map_text(ans, f)


def canon_except_set(ans, wit):
    def f(s):
        return re.sub(r"except: \{([^{}]*)\}", lambda m: "except: {" + ", ".join(sorted(x.strip() for x in m.group(1).split(","))) + "}", s)
    return _map_text(ans, f)


def canon_hint_columns(ans, wit):
    def f(s):
        return re.sub(r"available columns: ([\w.`, ]+)", lambda m: "available columns: " + ", ".join(sorted(x.strip() for x in m.group(1).split(","))), s)
    return _map_text(ans, f)


def canon_wildcard_order(ans, wit):
    """the whole frame expanded by construct_tuple_from_module (`this.*`, `t.*`, `!{..}`, the frame handed to `group`): entries
    with equal Decl.order - the namespace of input #n and the column at position n-1 - come out in map order, so the COLUMN ORDER
    of the relation varies.  Needs a second input (a join).  Compare projections as sets."""
    text = wit.get("prql", "") + " ".join(c for _, c in wit.get("files", []))
    if "join" not in text:
        return ans
    if not wild_trigger(text):
        return ans
    if wit.get("op") == "rq_json" and isinstance(ans, dict) and isinstance(ans.get("json"), str):
        try:
            ans = {"rq": json.loads(ans["json"])}
        except Exception:
            return ans
    if wit.get("op") == "lineage" and isinstance(ans, dict) and "lineage" in ans:
        return lineage_canon(ans)
    if isinstance(ans, dict) and "sql" in ans:
        def sel(m):
            # a star with an exclusion list next to the excluded columns themselves (`dept, * EXCLUDE (dept)`) is the star: where the
            # excluded column lands among the select items is the order this leak is about
            body = m.group(1)
            pre = re.match(r"DISTINCT ON \([^)]*\) |DISTINCT ", body)
            head, body = (pre.group(0), body[pre.end():]) if pre else ("", body)
            excluded = set()

            def star(mm):
                excluded.update((mm.group(1) or "") + x.strip() for x in mm.group(3).split(","))
                excluded.update(x.strip() for x in mm.group(3).split(","))
                return (mm.group(1) or "") + "*"
            body = re.sub(r"((?:[\w\"`]+\.)?)\* (EXCLUDE|EXCEPT) \(([^)]*)\)", star, body)
            items = [i for i in body.split(", ") if i not in excluded]
            stars = {i[:-1] for i in items if i.endswith(".*")}     # `t2.*` absorbs `t2.u2` when they are adjacent (translate_wildcards)
            items = [i for i in items if not any(i.startswith(q) and i != q + "*" and re.fullmatch(r"[\w.\"`]+", i) for q in stars)]
            if "*" in items:
                items = [i for i in items if i == "*" or not re.fullmatch(r"[\w\"`]+", i)]
            return "SELECT " + head + ", ".join(sorted(items)) + " FROM"
        return {**ans, "sql": re.sub(r"SELECT (.*?) FROM", sel, ans["sql"])}
    if isinstance(ans, dict) and "rq" in ans:
        # a different column order inside a table also shifts the column ids handed out after it: compare the RQ modulo the
        # numbering of column ids and the order of column lists
        CID_KEYS = ("ColumnRef", "column", "id")
        LIST_KEYS = ("columns", "Select", "partition", "compute")

        def walk(v, under=None):
            if isinstance(v, dict):
                if "Literal" in v:
                    return v
                out = {}
                for k, x in v.items():
                    if k in CID_KEYS and isinstance(x, int) and not ("relation" in v and "name" in v):
                        out[k] = "#"
                    elif k in LIST_KEYS and isinstance(x, list):
                        out[k] = sorted((("#" if isinstance(e, int) else walk(e, k)) for e in x), key=J)
                    else:
                        out[k] = walk(x, k)
                return out
            if isinstance(v, list):
                if under == "columns" and len(v) == 2 and isinstance(v[1], int):
                    return [walk(v[0]), "#"]
                return [walk(x, under) for x in v]
            return v
        # what the defect of the unchanged tree does NOT do: change the relative order of two columns of ONE input instance, change
        # which column an expression refers to.  The strict form keeps both (ids replaced by where they are defined).  Only when the
        # source gives a bare column an alias (`x = u.d`: in the RQ that column is indistinguishable from the other columns of `u`,
        # and as a PLAIN name it is what the defect moves) the loose form alone decides.
        if alias_of_ident(text):
            return walk(ans)
        return {"loose": walk(ans), "strict": rq_strict(ans)}
    return ans


def wild_trigger(text):
    """over-approximation of what wildcard-equal-order-choice needs in the source: a second input (join), a PLAIN column name (an
    alias `name = ..`: only aliased columns are inserted into the frame's root namespace, module.rs insert_frame) and a place where
    the whole frame is expanded (`this` / `that` - also `this.*`, `count this` -, `!{..}`, the frame handed to group / window)"""
    text = _no_table_alias(text)
    return ("join" in text and re.search(r"[\w`]\s*=(?!=)", text) is not None
            and re.search(r"\bthis\b|\bthat\b|!\{|\bgroup\b|\bwindow\b", text) is not None)


def _no_table_alias(text):
    """`from e=employees`, `join side:left s=salaries`, `let x = ..` name relations, not columns"""
    text = re.sub(r"\b(from|join)\s+((?:side:\w+\s+)?)[\w`]+\s*=(?!=)\s*", r"\1 \2", text)
    return re.sub(r"\blet\s+[\w`]+\s*=(?!=)", "let ", text)


def alias_of_ident(text):
    text = _no_table_alias(text)
    return re.search(r"[\w`]\s*=\s*[A-Za-z_`][\w.`]*\s*(?:[,}|)\n]|$)", text) is not None


def _short(s):
    return s if len(s) < 600 else "h:" + hashlib.md5(s.encode()).hexdigest()


def rq_strict(ans):
    """an RQ value with every column id replaced by a name made of its definition (input instance + column, or the computed
    expression with its span) and every list of column ids split, stably, by origin: the order BETWEEN origins is forgotten, the order
    among the columns of one input instance and among the computed columns is kept"""
    names = {}

    def nm(c):
        return names.get(c, ("?", "cid%s" % c))

    def is_tref_cols(x):
        return isinstance(x, list) and x and all(isinstance(e, list) and len(e) == 2 and isinstance(e[1], int) for e in x)

    def defs(v):
        if isinstance(v, dict):
            if "source" in v and is_tref_cols(v.get("columns")):
                inst = v.get("name") or "tid%s" % v.get("source")
                for col, cid in v["columns"]:
                    names[cid] = ("in:" + str(inst), str(inst) + "." + J(col))
            for x in v.values():
                defs(x)
        elif isinstance(v, list):
            for x in v:
                defs(x)

    def computes(v):
        if isinstance(v, dict):
            c = v.get("Compute")
            if isinstance(c, dict) and isinstance(c.get("id"), int):
                names[c["id"]] = ("computed", _short("c:" + J(walk({k: x for k, x in c.items() if k != "id"}))))
            for x in v.values():
                computes(x)
        elif isinstance(v, list):
            for x in v:
                computes(x)

    def part(cids):
        items = [nm(c) if isinstance(c, int) else ("?", J(walk(c))) for c in cids]
        return [[cl, [n for c2, n in items if c2 == cl]] for cl in sorted({c for c, _ in items})]

    def walk(v, under=None):
        if isinstance(v, dict):
            if "Literal" in v:
                return v
            out = {}
            for k, x in v.items():
                if k in ("ColumnRef", "column", "id") and isinstance(x, int) and not ("relation" in v and "name" in v):
                    out[k] = nm(x)[1]
                elif k in ("Select", "partition", "compute") and isinstance(x, list):
                    out[k] = part(x)
                elif k == "columns" and is_tref_cols(x):
                    out[k] = [[walk(c), nm(i)[1]] for c, i in x]
                else:
                    out[k] = walk(x, k)
            # a relation: its column names go with the last Select of its pipeline
            pl = v.get("kind", {}).get("Pipeline") if isinstance(v.get("kind"), dict) else None
            if isinstance(pl, list) and isinstance(v.get("columns"), list) and not is_tref_cols(v["columns"]):
                sels = [t["Select"] for t in pl if isinstance(t, dict) and isinstance(t.get("Select"), list)]
                if sels and len(sels[-1]) == len(v["columns"]) and all(isinstance(c, int) for c in sels[-1]):
                    items = [(nm(c)[0], J(col)) for c, col in zip(sels[-1], v["columns"])]
                    out["columns"] = [[cl, [n for c2, n in items if c2 == cl]] for cl in sorted({c for c, _ in items})]
            return out
        if isinstance(v, list):
            return [walk(x, under) for x in v]
        return v
    defs(ans)
    computes(ans)
    return walk(ans)


def lineage_canon(ans):
    """lineage under wildcard-equal-order-choice: node ids erased (they are handed out in expansion order), the nodes as a
    multiset, the columns of every frame split stably by input (order among the columns of one input kept)"""
    def erase(v):
        if isinstance(v, dict):
            return {k: ("#" if k in ("id", "parent", "target_id", "input_id") and isinstance(x, int) else
                        sorted("#" for _ in x) if k in ("targets", "children") and isinstance(x, list) else erase(x)) for k, x in v.items()}
        if isinstance(v, list):
            return [erase(x) for x in v]
        return v
    lin = ans["lineage"]
    frames = []
    for fr in lin.get("frames") or []:
        if not (isinstance(fr, list) and len(fr) == 2 and isinstance(fr[1], dict)):
            frames.append(erase(fr))
            continue
        inputs = {i.get("id"): i.get("name") for i in fr[1].get("inputs", []) if isinstance(i, dict)}
        items = []
        for c in fr[1].get("columns", []):
            cl = "plain"
            if isinstance(c, dict) and isinstance(c.get("All"), dict):
                cl = "in:" + str(inputs.get(c["All"].get("input_id")))
            elif isinstance(c, dict) and isinstance(c.get("Single"), dict) and isinstance(c["Single"].get("name"), list) and len(c["Single"]["name"]) > 1:
                cl = "in:" + str(c["Single"]["name"][0])
            items.append((cl, J(erase(c))))
        frames.append([fr[0], {"columns": [[cl, [n for c2, n in items if c2 == cl]] for cl in sorted({c for c, _ in items})],
                               "inputs": erase(fr[1].get("inputs"))}])
    return {"lineage": {"frames": frames, "nodes": sorted((erase(n) for n in lin.get("nodes") or []), key=J)}}


def _tree_paths(wit):
    return [p for p, _ in wit.get("files", [])]


def canon_root_choice(ans, wit):
    ps = _tree_paths(wit)
    if "" in ps or sum(1 for p in ps if p[:1].isupper()) < 2:
        return ans
    return {"root-ambiguous": True}


def canon_equal_module_path(ans, wit):
    ps = [p.rsplit(".", 1)[0] for p in _tree_paths(wit)]
    if len(ps) == len(set(ps)):
        return ans
    return {"module-path-ambiguous": True}


CANON = [("error-prints-except-hashset", canon_except_set), ("pl-json-named-args-order", canon_pl_json), ("fmt-named-args-order", canon_fmt_named),
         ("unknown-named-arg-choice", canon_unknown_named), ("named-args-first-error-choice", canon_first_error),
         ("query-def-unknown-args-order", canon_query_def), ("error-hint-available-columns-order", canon_hint_columns),
         ("wildcard-equal-order-choice", canon_wildcard_order), ("orderby-alias-choice", canon_orderby_alias), ("cte-instance-choice", canon_cte_instance),
         ("root-file-choice", canon_root_choice), ("equal-module-path-order", canon_equal_module_path)]


def classify(variants, wit):
    """variants: list of distinct answers (>= 2).  -> (list of finding ids that explain the difference, fully_explained)"""
    cur = list(variants)
    used = []
    for fid, fn in CANON:
        nxt = []
        for a in cur:
            try:
                c = fn(a, wit)
            except Exception:
                c = a
            nxt.append(c)
        if len({J(x) for x in nxt}) < len({J(x) for x in cur}):
            used.append(fid)
        cur = nxt
        if len({J(x) for x in cur}) == 1:
            return used, True
    return used, False


class Differ:
    """collects the answers seen for every request over all suites and judges them at the end"""

    def __init__(self, ctx):
        self.ctx = ctx
        self.seen = {}      # key -> {json: (answer, [where])}
        self.wit = {}

    def add(self, key, wit, ans, where):
        if wit.get("op") == "debug_stages" and "stage" not in wit and isinstance(ans, dict) and isinstance(ans.get("stages"), list):
            # the debug log of one compile: every recorded representation is an output of its own
            nth = {}
            for st in [{"kind": "result", "value": ans.get("result")}] + ans["stages"]:
                kind = st.get("kind") if isinstance(st, dict) else "?"
                nth[kind] = nth.get(kind, 0) + 1
                if isinstance(st, dict) and "value" in st:
                    self.add((key[0] + ":" + str(kind) + "#" + str(nth[kind]),) + tuple(key[1:]), {**wit, "stage": kind, "nth": nth[kind]}, st["value"], where)
            self.add((key[0] + ":kinds",) + tuple(key[1:]), {**wit, "stage": "kinds"}, [s.get("kind") if isinstance(s, dict) else s for s in ans["stages"]], where)
            return
        d = self.seen.setdefault(key, {})
        self.wit[key] = wit
        j = J(ans)
        if j not in d:
            d[j] = (ans, [where])
        elif len(d[j][1]) < 4 and where not in d[j][1]:
            d[j][1].append(where)

    # representations of the debug log that have no canonicaliser of their own: a difference is excused only by a known finding
    # that the SAME program exhibits (fully explained) in an output that has one, and whose site lies before that representation
    DERIVED = {"ReprPl": {"wildcard-equal-order-choice"},
               "ReprPqEarly": {"wildcard-equal-order-choice"},
               "ReprPq": {"wildcard-equal-order-choice", "orderby-alias-choice", "cte-instance-choice"},
               "ReprSqlParser": {"wildcard-equal-order-choice", "orderby-alias-choice", "cte-instance-choice"}}

    @staticmethod
    def pq_cte_instance(v):
        """cte-instance-choice seen in the PQ: with two instances of one CTE (two `Ref`s to one table id) the sort column that
        fold_sql_query adds is redirected on an arbitrary instance - the column id under `Sort` differs (the SQL text can be the same
        when the ORDER BY term is not qualified)"""
        refs = []

        def scan(x):
            if isinstance(x, dict):
                if isinstance(x.get("Ref"), int):
                    refs.append(x["Ref"])
                for y in x.values():
                    scan(y)
            elif isinstance(x, list):
                for y in x:
                    scan(y)
        scan(v)
        if len(refs) == len(set(refs)):
            return v

        def walk(x):
            if isinstance(x, dict):
                return {k: ([{**s, "column": "#"} if isinstance(s, dict) and isinstance(s.get("column"), int) else s for s in y]
                            if k == "Sort" and isinstance(y, list) else walk(y)) for k, y in x.items()}
            if isinstance(x, list):
                return [walk(y) for y in x]
            return x
        return walk(v)

    def judge(self):
        ctx = self.ctx
        exhibited = {}      # program text -> finding ids seen (explained) on it
        later = []
        for key, d in self.seen.items():
            wit = self.wit[key]
            nontrivial = any(("sql" in a or "rq" in a or "prql" in a or "json" in a or "errors" in a or "pl" in a or "lineage" in a or "ok" in a)
                             for a, _ in d.values() if isinstance(a, dict)) or "stage" in wit
            ctx.case(key, nontrivial=nontrivial)
            if len(d) == 1:
                continue
            if wit.get("stage") in self.DERIVED:
                later.append((key, d))
                continue
            variants = [a for a, _ in d.values()]
            cwit = wit
            if wit.get("stage") == "ReprRq":
                variants, cwit = [{"rq": a} for a in variants], {**wit, "op": "rq"}
            elif wit.get("stage") == "ReprSql":
                variants, cwit = [{"sql": a} for a in variants], {**wit, "op": "compile"}
            elif wit.get("stage") == "result":
                cwit = {**wit, "op": "compile"}
            ids, ok = classify(variants, cwit)
            replay = {"request": {k: v for k, v in wit.items() if k not in ("stage", "nth")}, "distinct_answers": len(d),
                      "answers": [{"where": w, "answer": _shorten(a)} for a, w in list(d.values())[:6]]}
            if "stage" in wit:
                replay["stage"] = [wit["stage"], wit.get("nth")]
            if ok:
                for fid in ids:
                    ctx.oracle_failure(fid, f"{len(d)} different answers for one request ({fid})", replay)
                    ctx.count("known-finding-exhibited:" + fid)
                    ctx.count("unstable-output:" + fid + ":" + str(wit.get("op")) + (":" + wit["stage"] if "stage" in wit else ""))
                    exhibited.setdefault(wit.get("prql", wit.get("src")), set()).add(fid)
            else:
                ctx.oracle_failure(None, f"{len(d)} different answers for one request; not explained by a known order leak "
                                         f"(partially: {ids})", replay)
        for key, d in later:
            wit = self.wit[key]
            ids = sorted(exhibited.get(wit.get("prql"), set()) & self.DERIVED[wit["stage"]])
            if not ids and wit["stage"] in ("ReprPq", "ReprPqEarly") and len({J(self.pq_cte_instance(a)) for a, _ in d.values()}) == 1:
                ids = ["cte-instance-choice"]
            replay = {"request": {k: v for k, v in wit.items() if k not in ("stage", "nth")}, "stage": [wit["stage"], wit.get("nth")], "distinct_answers": len(d),
                      "answers": [{"where": w, "answer": _shorten(a)} for a, w in list(d.values())[:4]]}
            if ids:
                for fid in ids:
                    ctx.oracle_failure(fid, f"{len(d)} different {wit['stage']} representations in the debug log of one compile; the same program "
                                            f"exhibits {fid} in its RQ / SQL", replay)
                    ctx.count("unstable-output:" + fid + ":debug_stages:" + wit["stage"])
            else:
                ctx.oracle_failure(None, f"{len(d)} different {wit['stage']} representations in the debug log of one compile, while no known order "
                                         f"leak shows in the RQ / SQL of the same program", replay)


def _shorten(a):
    s = J(a)
    return a if len(s) < 3000 else {"truncated": s[:3000]}


def canon_ids(ans, order):
    """replace source ids (= position in the caller's enumeration) inside span strings by the file path"""
    id2path = {str(i + 1): p for i, p in enumerate(order)}

    def f(s):
        return re.sub(r"^(\d+):(\d+-\d+)$", lambda m: "<" + id2path.get(m.group(1), "?" + m.group(1)) + ">:" + m.group(2), s)
    def walk(v):
        if isinstance(v, dict):
            out = {}
            for k, x in v.items():
                if k == "span" and isinstance(x, dict) and "src" in x:
                    out[k] = {kk: vv for kk, vv in x.items() if kk != "src"}
                elif k == "span" and isinstance(x, str):
                    out[k] = f(x)
                else:
                    out[k] = walk(x)
            return out
        if isinstance(v, list):
            return [walk(x) for x in v]
        return v
    return walk(ans)


def log_cause(letters):
    """which poisoning route a sequential history takes (classification of a witness, not the model)"""
    active, sup, toks = False, 0, 0
    for ch in letters:
        if ch == "S":
            if active:
                return "debug-log-double-start-poisons"
            active, sup = True, 0
        elif ch == "F":
            active = False
        elif ch == "U" and active:
            sup += 1; toks += 1
        elif ch == "D" and toks:
            toks -= 1
            if active:
                if sup == 0:
                    return "debug-log-suppress-token-outlives-log-poisons"
                sup -= 1
    return None


def obs_of(letter, a):
    if "panic" in a:
        return "panic"
    if letter in "SE":
        return "ok" if a.get("ok") else "?" + J(a)
    if letter == "F":
        return "nolog" if a.get("log") is None else ("log+" if a["log"].get("entries", 0) > 0 else "log0")
    if letter == "U":
        return "tok1" if a.get("suppressed") else "tok0"
    if letter == "D":
        return "ok" if a.get("unsuppressed") else "notoken"
    if letter == "Q":
        return "en1" if a.get("enabled") else "en0"
    return "ok" if "sql" in a else "?" + J(a)[:80]


def run(ctx):
    br = vlib.standard_proof_obligations(ctx, ["PrqlModel.Props.C11"], ["HashSites"], required_theorems=REQUIRED)
    thorough = ctx.tier == "thorough"
    ctx.rule = ("a case is one request (program x op in {compile [x dialect], rq, rq_json, pl, pl_json_text, fmt, lineage, tokens, lex, one "
                "representation of the debug log}, or multi-file project x op) whose answers are "
                "collected over: K fresh processes, 8 concurrent threads, call histories, repeated calls, every insertion order; "
                "non-trivial = it produced SQL / RQ / text / an error list; plus one case per sequential debug-log history")
    ctx.assumptions += ["redirect targets are injective (fresh cid per redirect) - side condition of find_unique_order_indep at the cid_redirects sites",
                        
                        "the runtime (hash seeds, scheduler, allocator, env var PRQL_VERSION_OVERRIDE) is explored, not modelled",
                        "harness is a dev-profile build (overflow checks on): the suppress-count underflow panics; in a release build it wraps"]
    summ = br.gen.get("HashSites", {}).get("summary") if br.gen else None
    if summ:
        ctx.coverage_extra["hash_site_inventory"] = {"sites": summ["sites"], "per_class": summ["per_class"], "leaks": summ["leaks"],
                                                      "theorems": summ["theorems"], "statics": summ["statics"], "inventory": summ["inventory"]}
        have = set()
        try:
            have = {t.split(".")[-1] for t in vlib.theorems_in(vlib.os.path.join(vlib.LEAN, "PrqlModel/Props/C11.lean"))}
        except Exception:
            pass
        missing = [t for t in summ["theorems"] if t not in have]
        ctx.obligation("every theorem named by a classified site exists in Props/C11.lean", not missing, str(missing))
        unlisted = [l for l in summ["leaks"] if l not in ctx.known]
        ctx.obligation("every order-leak class of the inventory is a recorded finding", not unlisted, str(unlisted))
    if not br.cargo_ok:
        return
    rng = ctx.rng

    # ---- 1. log state machine: model vs prqlc::debug on all short sequential histories (one fresh process each) ----------
    maxlen = 4 if thorough else 3
    hists = ["".join(p) for n in range(1, maxlen + 1) for p in itertools.product(LETTERS, repeat=n)]
    hists += ["CSCSCFQ", "SUFSDC", "SCFSUCDEF", "SUUDDEFC", "SUCDCFC", "USDC", "SFSFSC", "SUFDSC", "SSFSC", "SUFSDSC"]
    for _ in range(300 if thorough else 60):
        hists.append("".join(rng.choice(LETTERS) for _ in range(rng.randint(5, 9))))
    hists = sorted(set(hists), key=lambda h: (len(h), h))
    impl = vh_each([{"op": "history", "steps": [LETTER_REQ[c] for c in h]} for h in hists])
    model = drv_batch(["loghist\t" + h for h in hists]) if br.drv_ok else []
    base_c = None
    nbad = 0
    for h, a, m in zip(hists, impl, model):
        ans = a.get("answers")
        ctx.case(("loghist", h), nontrivial="S" in h or "C" in h)
        if ans is None or len(ans) != len(h):
            nbad += 1
            ctx.disagreement("log-model", f"history {h}: harness gave no answer list", {"history": h, "impl": a})
            continue
        obs = [obs_of(c, x) for c, x in zip(h, ans)]
        if " ".join(obs) != m:
            nbad += 1
            ctx.disagreement("log-model", f"history {h}: prqlc::debug behaves `{' '.join(obs)}`, model says `{m}`", {"history": h, "impl": obs, "model": m})
        # the property: every compile of the history answers what a compile answers in a fresh process
        for c, x in zip(h, ans):
            if c != "C":
                continue
            if "sql" in x and base_c is None:
                base_c = x
            if x != base_c and ("panic" in x or base_c is not None):
                ctx.oracle_failure(log_cause(h[:]), f"after the call history {h} the same compile answers {J(x)[:120]}",
                                   {"history": h, "steps": [LETTER_REQ[c] for c in h], "answers": ans})
                ctx.count("known-finding-exhibited:" + str(log_cause(h)))
                break
    ctx.obligation("correspondence: Model.Order.step/runHistory = prqlc::debug on all sequential histories up to length "
                   f"{maxlen} + directed + random", nbad == 0 and len(model) == len(hists), f"{len(hists)} histories, one process each")
    ctx.count("log-histories", len(hists))

    # ---- 2. the corpus -------------------------------------------------------------------------------------------------
    import relgen
    progs = list(DIRECTED)
    nrel = 1500 if thorough else 300
    profiles = [dict(declared=True, shared_k=True, append_inline=False, open_take=True, dup_names=True),
                dict(declared=False, shared_k=False, append_inline=True, open_take=False, dup_names=False),
                dict(declared=True, shared_k=False, append_inline=True, open_take=False, dup_names=False)]
    for i in range(nrel):
        try:
            c = relgen.make_case(rng, **profiles[i % 3])
            p = c.prql if isinstance(c.prql, str) else c.prql()
            progs.append(p)
            # an aliasing mutation aimed at the alias map: duplicate the first derive/select alias
            if i % 4 == 0:
                m = re.search(r"\| sort \{?-?([a-z_]\w*)", p)
                if m:
                    progs.append(p + f" | derive {{zq1 = {m.group(1)}, zq2 = {m.group(1)}}} | take 7")
        except Exception:
            ctx.count("relgen-generator-error")
    # programs that make map order observable in the intermediate outputs: systematic first, then random members of the family
    wsys, many = wild_systematic(), many_things()
    wrand = wild_random(rng, 500 if thorough else 120)
    rich = list(dict.fromkeys(wsys + many + wrand + DIRECTED))
    progs = list(dict.fromkeys(progs + rich))
    reqs = [{"op": op, "prql": p} for p in progs for op in OPS]
    # every other output of every entry point: PL value, RQ JSON text, lineage (all programs); tokens of both lexer entry points and
    # the SQL of every dialect (the rich programs; quick: three dialects per program in rotation, thorough: all)
    reqs += [{"op": op, "prql": p} for p in progs for op in MID_OPS]
    for i, p in enumerate(rich):
        reqs += [{"op": op, "src": p} for op in SRC_OPS]
        ds = DIALECTS if thorough else [DIALECTS[(i + j * 4) % len(DIALECTS)] for j in range(3)]
        reqs += [{"op": "compile", "prql": p, "target": d} for d in ds]
    # the representations recorded in the debug log (process-wide static: sequential runs only)
    seq_reqs = [{"op": "debug_stages", "prql": p} for p in rich]
    keyof = lambda r: (r["op"], r.get("prql", r.get("src")), r.get("target"))
    D = Differ(ctx)
    ctx.count("corpus-programs", len(progs)); ctx.count("corpus-directed", len(DIRECTED))
    ctx.count("corpus-wildcard-systematic", len(wsys)); ctx.count("corpus-wildcard-random", len(wrand)); ctx.count("corpus-many-things", len(many))
    for p in wsys + wrand:
        ctx.count("wildcard-program:" + ("join" if " join " in p else "single") + ":" + ("excusable-by-wildcard-equal-order" if wild_trigger(p) else "strict"))

    # (i) K fresh processes
    import time
    T0 = time.time(); tim = {}
    K = 40 if thorough else 12
    runs = vh_runs(reqs + seq_reqs, K)
    for k, out in enumerate(runs):
        for r, a in zip(reqs + seq_reqs, out):
            D.add(keyof(r), r, a, f"process#{k}")
    base = runs[0]
    for r, a in zip(reqs + seq_reqs, base):
        ctx.count("answer:" + ("sql" if "sql" in a else "rq" if "rq" in a else "prql" if "prql" in a else "json" if "json" in a else
                               "errors" if "errors" in a else "panic" if "panic" in a else "pl" if "pl" in a else "lineage" if "lineage" in a else
                               "tokens" if "ok" in a else "stages" if "stages" in a else "other") + ":" + r["op"])
    tim["processes"] = round(time.time() - T0, 1); T0 = time.time()
    # (ii) 8 threads, the whole corpus in flight
    for rounds in range(2 if thorough else 1):
        a = vh_each([{"op": "threads", "n": 8, "rounds": 1, "reqs": reqs}], timeout=900)[0]
        per = a.get("per_request")
        ctx.obligation(f"threads run {rounds} answered", isinstance(per, list) and len(per) == len(reqs), J(a)[:300])
        for r, dist in zip(reqs, per or []):
            for e in dist:
                D.add(keyof(r), r, e["answer"], "8-threads")
    tim["threads"] = round(time.time() - T0, 1); T0 = time.time()
    # (iii) histories of successful / failing / panicking calls, then probes (in one process each)
    nh = 24 if thorough else 8
    probes_n = 60 if thorough else 40
    hreqs = []
    for h in range(nh):
        prefix = [rng.choice(reqs) for _ in range(rng.randint(5, 40))] + [rng.choice(PANICKY) for _ in range(rng.randint(0, 4))]
        rng.shuffle(prefix)
        if h % 3 == 0:   # a debug log that is properly started and finished must not matter either
            prefix = [{"op": "debug_log_start"}] + prefix + [{"op": "debug_log_finish"}]
        if h % 4 == 1:   # ... nor one that stays active during the probes
            prefix = prefix + [{"op": "debug_log_start"}]
        probes = [rng.choice(reqs) for _ in range(probes_n)] + [{"op": op, "prql": p} for p in DIRECTED[:12] for op in ("compile",)]
        hreqs.append((prefix, probes))
    hans = vh_each([{"op": "history", "steps": pre + pro} for pre, pro in hreqs], timeout=900)
    for h, ((pre, pro), a) in enumerate(zip(hreqs, hans)):
        ans = a.get("answers") or []
        ctx.obligation(f"history run {h} answered", len(ans) == len(pre) + len(pro), J(a)[:200] if len(ans) != len(pre) + len(pro) else "")
        for r, x in zip(pre + pro, ans):
            if r.get("op") in OPS or "src" in r or r.get("op") in MID_OPS:
                D.add(keyof(r), r, x, f"history#{h}")
        ctx.count("history-prefix-panics", sum(1 for x in ans[:len(pre)] if "panic" in x))
        ctx.count("history-prefix-errors", sum(1 for x in ans[:len(pre)] if "errors" in x))
    tim["histories"] = round(time.time() - T0, 1); T0 = time.time()
    # repeated calls in one process: the cheap way to see a leak flip (every HashMap gets its own seed)
    richset = set(rich)
    rep_reqs = [r for r in reqs + seq_reqs if r.get("prql", r.get("src")) in richset]
    rep = vlib.vh_batch([{"op": "repeat", "k": 24 if thorough else 10, "req": r} for r in rep_reqs], shards=vlib.NCPU)
    for r, a in zip(rep_reqs, rep):
        for e in a.get("distinct", []):
            D.add(keyof(r), r, e["answer"], "repeat-in-process")

    tim["repeat"] = round(time.time() - T0, 1); T0 = time.time()
    # (iv) multi-file projects in every insertion order, both ways of building the tree
    treqs = []
    for files, main in TREES:
        paths = sorted(files)
        perms = list(itertools.permutations(paths))
        if len(perms) > 24 and not thorough:
            perms = perms[:6] + [tuple(reversed(paths))] + [tuple(rng.sample(paths, len(paths))) for _ in range(5)]
        for order in perms:
            for what in ("sql", "rq", "fmt", "pl"):
                for insert in (False, True):
                    if insert and what in ("fmt", "pl") and not thorough:
                        continue
                    treqs.append(({"op": "tree", "what": what, "files": [[p, files[p]] for p in order], "main_path": main, "insert": insert}, order))
    tans = []
    for rep_i in range(3 if thorough else 2):       # fresh processes again
        outs = vlib.vh_batch([r for r, _ in treqs], shards=vlib.NCPU)
        tans.append(outs)
    for outs in tans:
        for (r, order), a in zip(treqs, outs):
            wit = {"op": "tree:" + r["what"], "files": sorted(r["files"]), "main_path": r["main_path"]}
            key = ("tree", r["what"], J(sorted(r["files"])), J(r["main_path"]))
            D.add(key, wit, canon_ids(a, order), "order=" + ",".join(order) + (" insert" if r["insert"] else ""))
    ctx.count("tree-requests", len(treqs) * len(tans))
    tim["trees"] = round(time.time() - T0, 1); T0 = time.time()
    D.judge()
    tim["judge"] = round(time.time() - T0, 1)
    ctx.coverage_extra["seconds_per_phase"] = tim
    # the log race (another thread restarts the log while a compile holds a suppress token): explored, classified when it shows
    race = vh_each([{"op": "log_race", "rounds": 400 if thorough else 150, "req": LETTER_REQ["C"]} for _ in range(4 if thorough else 2)])
    for a in race:
        vs = [e["answer"] for e in a.get("distinct", [])]
        ctx.case(("log_race", len(vs)))
        if any("panic" in v for v in vs):
            ctx.oracle_failure("debug-log-suppress-token-outlives-log-poisons",
                               "a compile panics while another thread restarts the debug log (log_finish; log_start)",
                               {"op": "log_race", "distinct": [{"answer": _shorten(e["answer"]), "count": e["count"]} for e in a.get("distinct", [])]})
            ctx.count("known-finding-exhibited:debug-log-suppress-token-outlives-log-poisons(race)")
        elif any(("sql" not in v) for v in vs) or len(vs) > 1:
            ctx.oracle_failure(None, "compile answers differ while another thread restarts the debug log", {"op": "log_race", "distinct": vs[:4]})
    for k in list(D.seen)[:3]:
        a = next(iter(D.seen[k].values()))[0]
        ctx.sample({"request": D.wit[k], "answer": J(a)[:160], "distinct_answers_over_all_suites": len(D.seen[k])})
    multi = [(k, d) for k, d in D.seen.items() if len(d) > 1]
    for k, d in multi[:3]:
        ctx.sample({"request": D.wit[k], "distinct_answers_over_all_suites": len(d), "first_two": [J(a)[:200] for a, _ in list(d.values())[:2]]})
    ctx.coverage_extra["exploration"] = {"fresh_processes": K, "threads": 8, "histories": nh, "programs": len(progs), "requests": len(reqs),
                                         "tree_projects": len(TREES), "requests_with_more_than_one_answer": len(multi)}
    ctx.exhaustive = False


def replay(obj):
    if obj.get("kind") in ("no-failing-input-found", "correspondence") or obj.get("correspondence"):
        return vlib.replay_correspondence(obj)
    r = obj.get("replay", obj)
    print(json.dumps(obj, indent=1)[:6000])
    if "history" in r:
        print(vh_each([{"op": "history", "steps": r["steps"]}])[0])
    elif isinstance(r.get("request"), dict) and ("prql" in r["request"] or "src" in r["request"]):
        a = vlib.vh_batch([{"op": "repeat", "k": 40, "req": r["request"]}])[0]
        print("40 calls in one process:", json.dumps([{"n": e["count"], "answer": J(e["answer"])[:300]} for e in a.get("distinct", [])], indent=1))
    return 0
