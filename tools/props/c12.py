"""C12 no input makes a public entry point panic, abort or hang."""
import random
import copy, glob, itertools, json, os, re, subprocess, time
import vlib
from vlib import vh_batch
import c12shapes

MANIFEST = dict(
    text="PARTIAL for the proof technique. Proved over Model/Text: error_compose_no_panic (ErrorMessages::composed reaches neither its own "
         "`out of bounds` assert nor ariadne's label assert iff the span is ordered and inside the source in characters), compose_panic_sites, "
         "lexer_errors_never_panic_compose, parser_error_compose_panics (the C13 byte-span witness), linear step bounds for the offset and "
         "line/column computation; splitter_unwraps_succeed (on the mirror of split_off_back / anchor_split, tied to the code by replaying every "
         "recorded call under C07: for a well-formed pipeline the unwraps of the atomic Select, of the preceding part's final Select and of the "
         "declaration of every column at the split cannot fail), atomic_part_has_exactly_one_select (the `exactly_one().unwrap()` of translate_select_pipeline: the atomic part the splitter hands over holds exactly one Select, for every pipeline), and - proved under C01 - stages_leave_only_placeable_transforms (no Append / partitioned Take survives the preprocess stages, which the splitter and the clause assembly have no rule for); every model function is total. Everything else (stack depth, wall time, the unwrap/index sites outside "
         "the modelled kernels) is explored: every public entry point (lex_source, prql_to_tokens, prql_to_pl, pl_to_prql, pl_to_rq, "
         "compile for all 12 dialects, the staged JSON chain, json::to_pl / to_rq -> rq_to_sql) is run in child processes (catch_unwind per "
         "request, process death and timeouts detected) on all short strings over a significant alphabet, token-level mutants of the "
         "integration-test and book programs, stress families (nesting depth up to 10^4, long tuples / chains / pipelines), a SIZE axis (one "
         "token of every kind - identifier, string / raw / f- / s-string text, number, date, comment, target name ... - of 1 .. 70000 "
         "characters, straddling the powers of two, the u16 range and the formatter's line widths, in every position the formatter and the "
         "back-end carry it through), a BYTE-OFFSET axis (2-, 3-, 4-byte, combining and case-changing characters at byte offsets 0..12 of "
         "every text the compiler inspects by bytes: s-string relations and expressions, f-strings, literals, identifiers, comments, "
         "target names, date / number literals, texts next to an error span; all 12 dialects in rotation, with and without SQL "
         "formatting) and mutated PL / RQ JSON; CPU time is measured on the doubling families and the size schedules.",
    note="runtime behaviour (stack exhaustion, wall time) cannot be carried by the model; the exploration bounds are reported in the "
         "evidence. Every panic / abort class reachable by the generators on the unchanged tree is listed in known_findings.json by the "
         "innermost prqlc function on the panicking stack plus the kinds of panic message found there (`message_kinds`); a panic at any "
         "other site, or of another kind at a listed site (id gets the suffix :<kind>), is a violation. The listed super-polynomial "
         "findings are exponential in nesting depth: a run that does not come back on an input nested less than 12 deep is a different "
         "class (suffix :flat-input).",
    technique="Lean 4 proof of the modelled kernel (error composition) + sharded fuzzing of all entry points with crash/timeout detection and doubling-family timing",
    ref="4/C12")

DIALECTS = ["ansi", "bigquery", "clickhouse", "duckdb", "generic", "glaredb", "mssql", "mysql", "postgres", "redshift", "sqlite", "snowflake"]
SRC_OPS = [("lex", "src"), ("tokens", "src"), ("pl", "prql"), ("fmt", "prql"), ("rq", "prql"), ("compile", "prql"), ("staged", "prql")]
STAGE_OF = {"lex": "lexer", "tokens": "lexer", "pl": "parser", "fmt": "formatter", "rq": "resolver", "compile": "sql", "staged": "staged",
            "pl_json_to_sql": "pl-json", "rq_json_to_sql": "rq-json", "target_from_str": "target"}
ALPHABET = ["a", "1", "\"", "'", "`", "{", "}", "(", ")", "[", "]", "|", ",", ".", "=", "-", "+", "\n", " ", "#", "\\", "@", ":", "!", "é", "s", "_", "?", "*", ">"]


# ---------------------------------------------------------------------------------------------
# classification
# ---------------------------------------------------------------------------------------------
def norm_fn(f):
    """innermost prqlc frame -> stable site name: no hashes, closures, generic arguments"""
    f = re.sub(r"::\{\{closure\}\}", "", f or "?")
    f = re.sub(r"::h[0-9a-f]{16}$", "", f)
    # `<T as Trait>::method` -> keep type and method
    m = re.match(r"^<(.+?) as (.+?)>::(.+)$", f)
    if m:
        f = f"{m.group(1)}::{m.group(3)} (impl {m.group(2).split('<')[0]})"
    f = re.sub(r"<[^<>]*>", "", f)
    f = re.sub(r"<[^<>]*>", "", f)
    return f


def norm_msg(m):
    m = re.sub(r"`[^`]*`|\"[^\"]*\"|'[^']*'", "_", m or "")
    m = re.sub(r"\d+", "N", m)
    return m[:90]


def panic_class(a):
    f = norm_fn(a.get("fn"))
    if f == "?":
        at = re.sub(r":\d+:\d+$", "", (a.get("at") or "?").replace("/repo/prqlc/", ""))
        return f"panic:{at}:{norm_msg(a.get('panic'))}"
    return "panic:" + f


MSG_KINDS = [("char-boundary", r"is not a char boundary"), ("arith-overflow", r"attempt to .* with overflow|attempt to divide by zero|attempt to negate"),
             ("span-out-of-bounds", r"is out of bounds of the source"),
             ("index", r"index out of bounds|out of range for slice|removal index|insertion index|range (start|end) index|slice index starts|byte index \d+ is out of bounds|swap_remove index"),
             ("unwrap-none", r"Option::unwrap\(\)` on a `None`"), ("unwrap-err", r"Result::unwrap\(\)` on an `Err`|unwrap_err\(\)` on an `Ok`"),
             ("missing-key", r"no entry found for key"), ("assert", r"^assertion"), ("todo", r"not yet implemented|not implemented"),
             ("unreachable", r"entered unreachable code"), ("borrow", r"already (mutably )?borrowed|poisoned"), ("alloc", r"capacity overflow|memory allocation")]


def msg_kind(m):
    """coarse kind of a panic message; texts written by prqlc itself (expect / panic! / assert messages) are `other`"""
    for k, pat in MSG_KINDS:
        if re.search(pat, m or ""):
            return k
    return "other"


# Functions in which one panic site was FIXED and another one is still open: the function name alone would excuse the fixed site again,
# so the class id of a panic there carries the text of the panicking source line (stable when lines move, unlike the line number).
SITE_REFINED = {"panic:prqlc::sql::operators::translate_operator"}


def site_slug(at):
    m = re.match(r"^(.*):(\d+):\d+$", at or "")
    try:
        line = open(m.group(1), encoding="utf-8").read().split("\n")[int(m.group(2)) - 1]
    except Exception:
        return "unknown"
    return re.sub(r"[^A-Za-z0-9]+", "_", line.strip()).strip("_")[:60]


def bracket_depth(src):
    """deepest nesting of ( [ { in the source, text of quoted strings skipped (crude scanner: no escapes)"""
    d = best = 0
    q = None
    for c in src or "":
        if q:
            if c == q:
                q = None
        elif c in "\"'`":
            q = c
        elif c in "([{":
            d += 1
            best = max(best, d)
        elif c in ")]}":
            d = max(0, d - 1)
    return best


NEST_MIN = 12      # the listed super-polynomial findings (formatter, parser) need nesting: 2^depth only costs seconds from depth ~16 on


def slow_class(stage, src):
    """class of a timeout / super-polynomial run. The listed findings `superpolynomial-time:<stage>` are exponential in the NESTING
    depth; an input that is not nested (a long token, a long flat list) and still does not come back is a different defect."""
    return f"superpolynomial-time:{stage}" + ("" if bracket_depth(src) >= NEST_MIN else ":flat-input")


def _proc_cpu(pid):
    try:
        f = open(f"/proc/{pid}/stat").read().rsplit(")", 1)[1].split()
        return (int(f[11]) + int(f[12])) / 100.0
    except Exception:
        return None


def run_single(req, timeout):
    """one request in its own process with a hard wall-clock timeout -> (answer dict, CPU seconds of that process).
    CPU time (not wall time) is what the growth rule uses, so other load on the machine cannot fake a slow-down.
    Answers that are too deeply nested for python's json are reduced to their timing fields."""
    r = {k: v for k, v in req.items() if not k.startswith("_")}
    r["_time"] = True
    p = subprocess.Popen([vlib.VH], stdin=subprocess.PIPE, stdout=subprocess.PIPE, stderr=subprocess.PIPE, env=vlib.env)
    data, out, tries = (json.dumps(r) + "\n").encode("utf-8"), None, 0
    while out is None:
        try:
            out, err = p.communicate(data, timeout=timeout)
        except subprocess.TimeoutExpired:
            # on a loaded machine the wall-clock limit can pass before the process had 2.5 s of CPU (the growth rule needs > 2 s): wait on
            data, tries = None, tries + 1
            cpu = _proc_cpu(p.pid)
            if tries < 4 and cpu is not None and cpu < 2.5:
                continue
            break
    if out is None:
        cpu = _proc_cpu(p.pid)
        p.kill()
        try:
            p.communicate(timeout=30)
        except Exception:
            pass
        return {"crash": "timeout", "kind": "timeout"}, (cpu if cpu is not None else 0.0)
    out, err = out.decode("utf-8", "replace"), err.decode("utf-8", "replace")
    if p.returncode != 0:
        err = (err or "")[-400:]
        kind = "stack-overflow" if "overflowed its stack" in err else "abort"
        return {"crash": str(p.returncode), "kind": kind, "stderr": err.strip()[:200]}, 0.0
    line = out.split("\n")[0]
    try:
        a = json.loads(line)
    except (RecursionError, ValueError):
        m = re.search(r'"_us":(\d+)', line[:60] + line[-60:])
        c = re.search(r'"_cpu_ms":(\d+)', line[:60] + line[-60:])
        a = {"deep_answer": True, "_us": int(m.group(1)) if m else None, "_cpu_ms": int(c.group(1)) if c else None}
    cpu = a.get("_cpu_ms")
    return a, (cpu / 1000.0 if cpu is not None else (a.get("_us") or 0) / 1e6)


_STAGE_CACHE = {}


def locate_stage(req, timeout):
    """memoised per (op, input, target)"""
    key = (req["op"], req.get("prql") or req.get("src") or req.get("json"), req.get("target"))
    if key not in _STAGE_CACHE:
        _STAGE_CACHE[key] = _locate_stage(req, timeout)
    return _STAGE_CACHE[key]


_SINGLE_CACHE = {}


def single_memo(r, timeout):
    """one stage on one input, run alone, memoised: an input that hangs the lexer is run once, not once per op and dialect"""
    key = json.dumps(r, sort_keys=True)
    if key not in _SINGLE_CACHE:
        _SINGLE_CACHE[key] = run_single(r, timeout)[0]
    return _SINGLE_CACHE[key]


def prefetch_stages(reqs, timeout):
    """warm the memo in parallel for the first stages of the crashed requests"""
    import concurrent.futures
    todo = {}
    for req in reqs:
        if req["op"] in ("pl_json_to_sql", "rq_json_to_sql", "target_from_str"):
            continue
        src = req.get("prql") if "prql" in req else req.get("src")
        for r in ({"op": "lex", "src": src}, {"op": "pl", "prql": src}):
            todo[json.dumps(r, sort_keys=True)] = r
    todo = [r for k, r in todo.items() if k not in _SINGLE_CACHE]
    with concurrent.futures.ThreadPoolExecutor(vlib.NCPU) as ex:
        list(ex.map(lambda r: single_memo(r, timeout), todo))


def _locate_stage(req, timeout):
    """for a source request that crashed / timed out: the first stage of lex -> pl -> (fmt) -> rq -> compile that does so alone"""
    op = req["op"]
    if op in ("pl_json_to_sql", "rq_json_to_sql", "target_from_str"):
        a, _ = run_single(req, timeout)
        return (STAGE_OF[op] if "crash" in a else None), a
    src = req.get("prql") if "prql" in req else req.get("src")
    chain = [("lex", "src"), ("pl", "prql")] + ([("fmt", "prql")] if op == "fmt" else [("rq", "prql")]) + ([] if op in ("fmt", "rq", "pl", "lex", "tokens") else [(op, "prql")])
    if op in ("lex", "tokens"):
        chain = [(op, "src")]
    elif op == "pl":
        chain = chain[:2]
    last = None
    for o, k in chain:
        r = {"op": o, k: src}
        for x in ("target", "format", "signature"):
            if x in req and o in ("compile", "staged"):
                r[x] = req[x]
        a = single_memo(r, timeout)
        last = a
        if "crash" in a:
            stage = STAGE_OF[o]
            if o in ("compile", "staged"):
                stage = "sql"
            return stage, a
    return None, last


class Explorer:
    def __init__(self, ctx):
        self.ctx = ctx
        self.classes = {}          # class id -> count
        self.witness = {}          # class id -> smallest request
        self.messages = {}         # class id -> normalised panic message -> count
        self.n_req = 0
        self.outcomes = {"value": 0, "errors": 0, "panic": 0, "crash": 0}
        self.single_timeout = 60 if ctx.tier == "thorough" else 15
        # a listed class `panic:<fn>` excuses the KINDS of panic that were found in that function, not whatever panics there next:
        # kinds = field `message_kinds` of the finding (else the kind of the message quoted in its `what`)
        self.kinds = {fid: set(f.get("message_kinds") or [msg_kind(f.get("what", "").split("): ", 1)[-1])])
                      for fid, f in ctx.known.items() if fid.startswith("panic:")}

    def pclass(self, a, op=None):
        cid = panic_class(a) + (":json" if op in ("pl_json_to_sql", "rq_json_to_sql") else "")
        if cid in SITE_REFINED:
            cid += ":site:" + site_slug(a.get("at"))
        k = msg_kind(a.get("panic"))
        if cid in self.kinds and k not in self.kinds[cid]:
            cid += ":" + k
        return cid

    def record_failure(self, cid, what, req, ans):
        self.classes[cid] = self.classes.get(cid, 0) + 1
        if "panic" in ans:
            mk = self.messages.setdefault(cid, {})
            k = norm_msg(ans["panic"])
            mk[k] = mk.get(k, 0) + 1
        size = len(json.dumps(req))
        if cid not in self.witness or size < self.witness[cid][0]:
            self.witness[cid] = (size, req, ans)
        rq = dict(req)
        for k in ("prql", "src", "json"):
            if k in rq and len(rq[k]) > 3000:
                rq[k + "_len"] = len(rq[k]); rq[k] = rq[k][:1500] + " …TRUNCATED… " + rq[k][-300:]
        self.ctx.oracle_failure(cid, what, {"request": rq, "gen": req.get("_gen"), "answer": {k: ans.get(k) for k in ("panic", "at", "fn", "crash") if k in ans}, "class": cid})

    def run(self, reqs, label, timeout=600, nontrivial=lambda r, a: True):
        """run requests; classify; returns answers"""
        if not reqs:
            return []
        ans = vh_batch(reqs, shards=vlib.NCPU if len(reqs) >= 32 else 1, timeout=timeout, idle=20)
        prefetch_stages([r for r, a in zip(reqs, ans) if a is not None and "crash" in a], self.single_timeout)
        for r, a in zip(reqs, ans):
            self.n_req += 1
            op = r["op"]
            key = (op, r.get("prql") or r.get("src") or r.get("json"), r.get("target"))
            if a is None:
                a = {"crash": "no-answer"}
            if "panic" in a:
                self.outcomes["panic"] += 1
                cid = self.pclass(a, op)   # JSON documents reach code paths sources cannot
                self.ctx.case(key)
                self.record_failure(cid, f"{op} panics: {a['panic'][:160]} (at {a.get('at')}, in {a.get('fn')})", r, a)
            elif "crash" in a:
                self.ctx.case(key)
                stage, a2 = locate_stage(r, self.single_timeout)
                if stage is None:
                    # the shard died on a neighbour / timed out as a whole; this request alone is fine
                    self.ctx.count(f"{label}: crash not reproduced alone")
                    continue
                self.outcomes["crash"] += 1
                kind = a2.get("kind")
                inp = r.get("prql") or r.get("src") or ""
                if kind == "stack-overflow" and inp and len(inp) < 300:
                    kind = "infinite-recursion"      # a tiny program cannot be deep: the recursion does not depend on the input size
                cid = slow_class(stage, inp) if kind == "timeout" else f"{kind}:{stage}"
                self.record_failure(cid, f"{op}: process {kind} in stage {stage} ({a2.get('stderr', '')[:120]})", r, {**a, **a2})
            elif "garbled" in a and str(a["garbled"]).startswith("{"):
                # an answer nested too deeply for python's json module: a value
                self.outcomes["value"] += 1
                self.ctx.case(key)
            elif "bad_op" in a or "bad_request" in a or "garbled" in a:
                self.ctx.obligation(f"harness understood request {op}", False, json.dumps(a)[:300])
            else:
                self.outcomes["errors" if "errors" in a or "err" in a else "value"] += 1
                self.ctx.case(key, nontrivial=nontrivial(r, a))
            self.ctx.count(f"{label}: " + ("panic" if "panic" in a else "crash/timeout" if "crash" in a else "errors" if ("errors" in a or "err" in a) else "value"))
        return ans


# ---------------------------------------------------------------------------------------------
# inputs
# ---------------------------------------------------------------------------------------------
def corpus():
    progs = []
    for f in sorted(glob.glob(os.path.join(vlib.REPO, "prqlc/prqlc/tests/integration/queries/*.prql"))):
        progs.append(open(f, encoding="utf-8").read())
    for f in sorted(glob.glob(os.path.join(vlib.REPO, "web/book/src/**/*.md"), recursive=True)):
        text = open(f, encoding="utf-8").read()
        for m in re.finditer(r"```prql[^\n]*\n(.*?)```", text, re.S):
            progs.append(m.group(1))
    seen, out = set(), []
    for p in progs:
        if p not in seen and len(p) < 4000:
            seen.add(p); out.append(p)
    return out


def src_reqs(src, gen, ops=SRC_OPS, target=None, time_=False):
    out = []
    for op, key in ops:
        r = {"op": op, key: src, "_gen": gen}
        if target and op in ("compile", "staged"):
            r["target"] = target
        if time_:
            r["_time"] = True
        out.append(r)
    return out


# tiny directed programs: recursion through definitions, self reference, degenerate uses of special forms
DIRECTED = [
    "let f = x -> f x\nfrom t | select {y = f a}",
    "let f = x -> (g x)\nlet g = x -> (f x)\nfrom t | select (f a)",
    "let f = x -> f\nfrom t | select (f 1)",
    "let f = x -> (x | f)\nfrom t | f",
    "let x = x\nfrom x", "let x = (from x)\nfrom x", "let a = (from b)\nlet b = (from a)\nfrom a",
    "from t | select {a = a}", "from t | derive {a = b, b = a}",
    "from t | loop (loop (take 1))", "from t | loop (filter a > 0 | loop (derive b = a))",
    "*", "let x = *", "from t | select t.*.*", "from t | group a (-> take 1)", "from t | filter (a | -> in [1])",
    "from t | sort (-> 2)", "from t | select {x = (a | -> math.abs)}", "from t | aggregate {n = (a | -> sum)}", "from t | derive x = (a | -> math.round 2)",
    "from t | filter (a | -> math.abs) > 1", "from t | select {x = (-> math.abs)}", "from t | select {x = (a | x -> math.abs)}", "from [{a = 1}, b]", "from []", "from [{}]", "from t | select {}", "from t | aggregate {}", "from t | group {} (take 1)",
    "from t | join t (==a) | select t.a", "from t | window rows:..  (derive x = sum a)", "from t | take 0", "from t | take ..", "from t | take 9223372036854775807..9223372036854775808",
    "from t | select 99999999999999999999", "from t | select 1e400", "from t | select 0x", "from t | select 0b2", "from t | select @2020-13-45", "from t | select @25:61", "from t | select 2hours + 1",
    "prql version:\"99\"\nfrom t", "prql version:\"x\"\nfrom t", "prql target:sql.any\nprql target:sql.any\nfrom t", "prql\nfrom t", "module m { from t }", "module m { let x = 1 }\nfrom m.x",
    "type x = int\nfrom t", "let f = a:1 b -> a + b\nfrom t | select (f b:2 3)", "from t | select (a | as)", "from t | select (as int)", "from t | select s\"{}\"", "from t | select f\"{a:}}\"",
    "from t | select case []", "from t | select (case [true => 1] | case [true => 2])", "from t | derive x = (from u)", "from (from (from t))", "from t | append (from t | append t)",
    "from t | select `a.b`.`c`", "from `` | select ``", "from t | select `*`", "from t | select this", "from t | select that", "from t | select {this.*, that.*}", "from t | select !{}",
]

# clause-order programs: every ordered pair (and the triples around a set operation / a group-take) of the source forms the back end
# places into SQL clauses - the splitter, the DISTINCT / DISTINCT ON / set-operation rewrites and the clause assembly have an arm
# (and `unreachable!`s) per combination, and several arms are dialect dependent; compiled for all 12 dialects
CLAUSE_FORMS = ["take 3", "take 2..4", "sort a", "sort {-b}", "filter a > 1", "derive x = a + 1", "select {a, b}", "group g (take 1)",
                "group g (sort b | take 1)", "group {a, b} (take 1)", "group g (sort b | take 2)", "append (from u | select {a, b, g})",
                "remove (from u | select {a, b, g})", "intersect (from u | select {a, b, g})",
                "aggregate {n = count this}", "group g (aggregate {n = count this})", "join u (==a)",
                "derive r = row_number this", "group g (derive r = rank b)", "select {a, g}"]


def clause_order_programs():
    out = []
    for x in CLAUSE_FORMS:
        for y in CLAUSE_FORMS:
            out.append(f"from t | select {{a, b, g}} | {x} | {y}")
    # the same set operations between relations whose columns are not known (no select in front)
    for x in ["append u", "remove u", "intersect u"]:
        for y in CLAUSE_FORMS:
            out.append(f"from t | {x} | {y}")
            out.append(f"from t | {y} | {x}")
    hot = [f for f in CLAUSE_FORMS if f.startswith(("append", "remove", "intersect", "group g (take", "group g (sort", "group {a, b}", "take"))]
    # (the triples come last: `run` keeps all pairs and samples the triples in the quick tier)
    for x in hot:
        for y in hot:
            for z in CLAUSE_FORMS:
                out.append(f"from t | select {{a, b, g}} | {x} | {y} | {z}")
    return out


# embedded data formats (from_text / read_*): numeric and structural boundary values of the JSON and CSV readers
def _data_programs():
    nums = ["0", "-0", "1", "-1", "9223372036854775807", "9223372036854775808", "-9223372036854775808", "-9223372036854775809",
            "18446744073709551615", "18446744073709551616", "1e400", "-1e400", "1.5", "1e-400", "0.1e1", "123456789012345678901234567890"]
    out = []
    for n in nums:
        out.append("from_text format:json '[{\"a\": 1, \"b\": %s}, {\"a\": 2, \"b\": 7}]' | select {a, b}" % n)
        out.append("from_text format:json '{\"columns\": [\"a\", \"b\"], \"data\": [[1, %s], [2, 7]]}' | select {a, b}" % n)
        out.append("from_text format:csv \"a,b\\n1,%s\" | select {a, b}" % n)
    vals = ["null", "true", "[1]", "{\"x\": 1}", "\"s\"", "\"\\u0000\"", "\"\\ud800\""]
    for v in vals:
        out.append("from_text format:json '[{\"a\": %s}]'" % v)
    out += ["from_text format:json '[]'", "from_text format:json '{}'", "from_text format:json '[1, 2]'", "from_text format:json '[{}]'",
            "from_text format:json '[{\"a\": 1}, {\"b\": 2}]'", "from_text format:json '{\"columns\": [\"a\"], \"data\": [[1, 2]]}'",
            "from_text format:json '{\"columns\": [1], \"data\": [[1]]}'", "from_text format:json ''", "from_text format:csv ''",
            "from_text format:csv \"a,a\\n1,2\"", "from_text format:csv \"a\\n1,2,3\"", "from_text format:xml '<a/>'", "from_text '1'"]
    return out


DIRECTED += _data_programs()


def _escape_programs():
    """string escapes at and beyond their documented limits (\\u{..} takes 1-6 hex digits, \\x exactly 2)"""
    out = []
    for q in ('"', "'"):
        for n in range(0, 10):
            out.append("from t | derive x = %sa\\u{%s}b%s" % (q, "1234567890"[:n], q))
            out.append("from t | derive x = %sa\\u{%s" % (q, "1234567890"[:n]))
        for body in ("\\x", "\\x4", "\\x41", "\\x414", "\\xzz", "\\u", "\\u{", "\\u{}", "\\u{110000}", "\\u{d800}", "\\q", "\\"):
            out.append("from t | derive x = %sa%sb%s" % (q, body, q))
    out += ['from t | derive x = f"{a}\\u{1234567}"', 'from t | derive x = s"\\u{1234567}"', 'from t | derive x = r"\\u{1234567}"']
    return out


DIRECTED += _escape_programs()


def _temporal_programs():
    """date / time / timestamp literals in every documented written form (hour only, with minutes, seconds, fractions, `Z` and numeric
    offsets) and just outside it: the back end re-slices the text of such literals per dialect (compiled for all 12 dialects in run())"""
    times = ["@16", "@16Z", "@16:30", "@16:30Z", "@08:30:00", "@08:30:00.5", "@08:30:00.123456", "@08:30:00Z", "@08:30:00+01", "@08:30:00+0100",
             "@08:30:00+01:00", "@08:30:00-0530", "@8", "@08:3", "@24", "@00:00:00.000000001"]
    dates = ["@2022-12-31", "@2022-1-1", "@0001-01-01", "@9999-12-31", "@2022-02-30", "@2022-12-31T16", "@2022-12-31T16:54", "@2022-12-31T16:54:32",
             "@2022-12-31T16:54:32.123456", "@2022-12-31T16:54:32Z", "@2022-12-31T16:54:32+0100", "@2022-12-31T16:54:32.5+01:00", "@2022-12-31T16Z"]
    out = []
    for lit in times + dates:
        out.append(f"from t | derive x = {lit}")
        out.append(f"from t | filter d > {lit} | select {{d}}")
    out += ["from t | derive x = (@2022-12-31 | date.to_text '%Y')", "from t | derive x = @16 + 1days", "from t | derive {x = @16, y = @16:30Z, z = @2022-12-31T16}"]
    return out



PUNCT = ["(", ")", "{", "}", "[", "]", "|", ",", "=", "==", "->", "=>", "..", "-", "+", "*", "!", "??", ".", ":", "@", "\"", "'", "`", "\\", "\n", "s\"", "f\"", "$1", "#", "0x", "1e", "_"]
MULTI = ["é", "€", "😀", "\u2028", "ß", "中", "\u0301", "\ufeff", "\x00", "\x7f", "\u200b"]


def mutate_source(rng, src, toks):
    """token-level mutation; toks = list of (byte_start, byte_end)"""
    b = src.encode("utf-8")
    if not toks:
        return src + rng.choice(PUNCT)
    k = rng.randrange(8)
    i = rng.randrange(len(toks))
    s, e = toks[i]
    if k == 0:      # delete
        nb = b[:s] + b[e:]
    elif k == 1:    # duplicate
        nb = b[:e] + b" " + b[s:e] + b[e:]
    elif k == 2 and i + 1 < len(toks):   # swap with next
        s2, e2 = toks[i + 1]
        nb = b[:s] + b[s2:e2] + b[e:s2] + b[s:e] + b[e2:]
    elif k == 3:    # replace by punctuation
        nb = b[:s] + rng.choice(PUNCT).encode() + b[e:]
    elif k == 4:    # insert punctuation
        nb = b[:s] + rng.choice(PUNCT).encode() + b" " + b[s:]
    elif k == 5:    # multibyte insertion (anywhere on a token boundary, or inside the token)
        pos = rng.choice([s, e, (s + e) // 2])
        while pos > 0 and (b[pos:pos + 1] and (b[pos] & 0xC0) == 0x80):
            pos -= 1
        nb = b[:pos] + rng.choice(MULTI).encode("utf-8") + b[pos:]
    elif k == 6:    # truncate
        nb = b[:e]
    else:           # splice a token from elsewhere
        s2, e2 = toks[rng.randrange(len(toks))]
        nb = b[:s] + b[s2:e2] + b[e:]
    return nb.decode("utf-8", "replace")


FAMILIES = {
    "paren-nesting": lambda n: "from t | select x = " + "(" * n + "1" + ")" * n,
    "array-nesting": lambda n: "let x = " + "[" * n + "1" + "]" * n,
    "tuple-nesting": lambda n: "from t | select " + "{" * n + "a" + "}" * n,
    "unary-chain": lambda n: "from t | select x = " + "- " * n + "a",
    "not-chain": lambda n: "from t | filter " + "!" * n + "a",
    "binary-chain": lambda n: "from t | select x = " + " + ".join(["a"] * n),
    "coalesce-chain": lambda n: "from t | select x = " + " ?? ".join(["a"] * n),
    "and-chain": lambda n: "from t | filter " + " && ".join(f"a == {i}" for i in range(n)),
    "long-tuple": lambda n: "from t | select {" + ", ".join(f"c{i}" for i in range(n)) + "}",
    "long-pipeline-derive": lambda n: "from t" + "".join(f"\n| derive x{i} = a + {i}" for i in range(n)),
    "derive-self-chain": lambda n: "from t | derive x = 1" + "".join("\n| derive x = x + 1" for i in range(n)),
    "filter-chain": lambda n: "from t" + "".join(f"\n| filter a > {i}" for i in range(n)),
    "many-lets": lambda n: "".join(f"let v{i} = {i}\n" for i in range(n)) + "from t | select {a}",
    "let-chain": lambda n: "let t0 = (from t)\n" + "".join(f"let t{i + 1} = (from t{i} | derive y{i} = a)\n" for i in range(n)) + f"from t{n}",
    "call-nesting": lambda n: "from t | select x = " + "(math.abs " * n + "a" + ")" * n,
    "sstring-items": lambda n: "from t | select x = s\"" + "{a} " * n + "\"",
    "fstring-items": lambda n: "from t | select x = f\"" + "{a}-" * n + "\"",
    "join-nesting": lambda n: "from t" + "".join(" | join (from t" for _ in range(n)) + "".join(") (==a)" for _ in range(n)),
    "long-string": lambda n: "from t | select x = \"" + "x" * n + "\"",
    "long-comment": lambda n: "# " + "c" * n + "\nfrom t",
    "blank-lines": lambda n: "\n" * n + "from t",
    "case-arms": lambda n: "from t | derive x = case [" + ", ".join(f"a == {i} => {i}" for i in range(n)) + "]",
    "ident-path": lambda n: "from t | select " + ".".join(["a"] * n),
    "quotes": lambda n: "from t | select x = " + "\"" * n,
    "open-braces": lambda n: "from t | select " + "{" * n,
    "open-parens": lambda n: "from t | select " + "(" * n,
    "close-parens": lambda n: "from t | select " + ")" * n,
    "append-chain": lambda n: "from t" + " | append t" * n,
    "sort-take-chain": lambda n: "from t" + "".join(f"\n| sort a | take {n + 5 - i}" for i in range(n)),
    "group-nesting": lambda n: "from t | " + "".join(f"group c{i} (" for i in range(n)) + "take 1" + ")" * n,
    "range-pipe": lambda n: "from t | select x = (a" + " | math.abs" * n + ")",
    "multibyte-run": lambda n: "from t | filter a == \"" + "é😀" * n + "\" | select )",
    "func-params": lambda n: "let f = " + " ".join(f"p{i}" for i in range(n)) + " -> p0\nfrom t | select (f " + " ".join("1" for _ in range(n)) + ")",
    "nested-func-defs": lambda n: "let f = " + "".join(f"a{i} -> " for i in range(n)) + "1\nfrom t",
}


# BYTE-OFFSET axis: one multi-byte character at every small byte offset of every text the compiler looks at by bytes (prefix tests,
# slices, spans). § marks the place of the text in a site; a site = (name, template, base texts).
MB_CHARS = ["é", "→", "日", "😀", "\u0301", "İ", "ß", "\u2028", "\ufeff"]    # 2, 3, 3, 4 bytes; combining mark; case-mapping changes the length; line separator; BOM
MB_SUBST = ["é", "→", "😀"]          # also substituted for the character at the offset (the others are only inserted)
MAX_OFFSET = 12
_SQL_REL = ["SELECT a, b FROM tbl", " select * from tbl", "WITH x AS (SELECT 1) SELECT * FROM x"]
_SQL_EXPR = ["COALESCE(a, b) + 1"]
_TEXT = ["hello world abc"]
_IDENT = ["column_name_1"]
_COMMENT = ["a comment line here"]
OFFSET_SITES = [
    # s-string as a relation
    ("sstring-from", 'from s"§"', _SQL_REL),
    ("sstring-from-pipeline", 'from s"§" | select {a, b} | filter a > 1', _SQL_REL),
    ("sstring-join", 'from t | join s"§" (==a)', _SQL_REL),
    ("sstring-append", 'from t | select {a, b} | append s"§"', _SQL_REL),
    ("sstring-let", 'let r = s"§"\nfrom r | select {a}', _SQL_REL),
    ("sstring-from-interp", 'let f = x -> s"§ WHERE a = {x}"\nfrom (f 1)', _SQL_REL[:1]),
    ("sstring-from-triple", 'from s"""§"""', _SQL_REL[:1]),
    # s-string as an expression
    ("sstring-expr", 'from t | select x = s"§"', _SQL_EXPR),
    ("sstring-expr-filter", 'from t | filter s"§" > 1', _SQL_EXPR),
    ("sstring-expr-interp-after", 'from t | select x = s"§{a}"', _SQL_EXPR),
    ("sstring-expr-interp-before", 'from t | select x = s"{a}§"', _SQL_EXPR),
    ("sstring-expr-sort-group", 'from t | group s"§" (sort s"§" | take 1)', _SQL_EXPR),
    ("sstring-expr-aggregate", 'from t | aggregate {x = s"§"}', ["COUNT(DISTINCT a)"]),
    # f-strings
    ("fstring-before", 'from t | select x = f"§{a}"', _TEXT),
    ("fstring-after", 'from t | select x = f"{a}§"', _TEXT),
    ("fstring-only", 'from t | select x = f"§"', _TEXT),
    # string literals and the functions that read them
    ("string-dq", 'from t | select x = "§"', _TEXT),
    ("string-sq", "from t | filter a == '§'", _TEXT),
    ("string-triple", 'from t | select x = """§"""', _TEXT),
    ("string-raw", 'from t | select x = r"§"', _TEXT),
    ("string-text-fn", 'from t | filter (text.contains "§" a) || (text.starts_with "§" a) || (a ~= "§")', _TEXT),
    ("string-like", 'from t | filter (a | like "§")', ["hello%wor_d"]),
    ("string-date-format", 'from t | select x = (date.to_text "§" d)', ["%Y-%m-%d %H:%M:%S", "%A %B %-d %y"]),
    ("string-from-text-csv", 'from_text format:csv "§"', ["a,b\\n1,2\\n3,4"]),
    ("string-from-text-json", "from_text format:json '§'", ['[{"a": 1, "b": "x"}]', '{"columns": ["a"], "data": [[1]]}']),
    ("string-version", 'prql version:"§"\nfrom t', ["0.13.2", "^0.13"]),
    ("string-read-file", 'from (read_csv "§") | select a', ["dir/file.csv"]),
    # identifiers
    ("ident-from", "from §", _IDENT),
    ("ident-select", "from t | select {§}", _IDENT),
    ("ident-alias", "from t | derive § = a | sort §", _IDENT),
    ("ident-quoted", "from t | select `§`", _IDENT + ["schema.tab.col"]),
    ("ident-quoted-table", "from `§` | select a", ["dir/file.parquet", "schema.tab"]),
    ("ident-path", "from t | select t.§", _IDENT),
    ("ident-let", "let § = (from t)\nfrom § | select a", _IDENT),
    ("ident-join-alias", "from t | join §=u (==a) | select §.b", _IDENT),
    ("ident-func", "let § = x -> x + 1\nfrom t | select (§ a)", _IDENT),
    ("ident-named-arg", "from t | sort §:1 a", _IDENT),
    ("ident-std", "from t | select (§ a)", ["std.math.abs", "math.round"]),
    ("ident-module", "module § { let y = 1 }\nfrom t | select §.y", ["my_module"]),
    # comments
    ("comment-line", "# §\nfrom t", _COMMENT),
    ("comment-trailing", "from t # §\n| select a", _COMMENT),
    ("comment-inside", "from t\n# §\n| select a", _COMMENT),
    ("doc-comment", "#! §\nlet x = 1\nfrom t", _COMMENT),
    ("comment-skip-directive", "# §\nfrom t", ["mssql:skip", "generic:test"]),
    # target names (header)
    ("target-header", "prql target:§\nfrom t | take 3", ["sql.postgres", "sql.any", "sql.mssql"]),
    # date / time / number / parameter literals
    ("literal", "from t | select x = §", ["@2020-01-01", "@10:20:30.123", "@2020-01-01T10:20:30+01:00", "1_000.5e10", "0x1F2E", "0b1010", "10days",
                                          "$param_1", "1..10", "2hours", "true", "null"]),
    # an error reported behind / around a multi-byte text: spans are byte offsets, messages are rendered by characters
    ("error-next-line", 'let s = "§"\nfrom t | select )', _TEXT),
    ("error-same-line-resolve", 'from t | select {x = "§", y = unknown_fn 1}', _TEXT),
    ("error-same-line-parse", 'from t | select {x = "§", y = }', _TEXT),
    ("error-after-comment", "# §\nfrom t | take \"x\"", _COMMENT),
    ("error-at-ident", "from t | select {§ = 1, y = nope.z}", _IDENT),
    ("error-unclosed", 'from t | filter "§" + (', _TEXT),
    ("error-in-sstring", 'from t | select x = s"§{"', _SQL_EXPR),
    ("error-type", 'from t | take "§"', _TEXT),
    ("error-unknown-name", "from t | select (§ 1 2)", ["math.abz", "nosuch_function"]),
]
# request fields instead of program text
OFFSET_REQ_SITES = [
    ("target-option", lambda t: [{"op": "compile", "prql": "from t | take 3", "target": t}, {"op": "staged", "prql": "from t | take 3", "target": t},
                                 {"op": "target_from_str", "name": t}], ["sql.postgres", "sql.any", "postgres"]),
]


def offset_texts(base):
    """the base text with one multi-byte character inserted at / substituted for byte offset 0..MAX_OFFSET, and pure multi-byte texts"""
    out = []
    for ch in MB_CHARS:
        for k in range(0, min(MAX_OFFSET, len(base)) + 1):
            out.append(base[:k] + ch + base[k:])
            if k < len(base) and ch in MB_SUBST:
                out.append(base[:k] + ch + base[k + 1:])
        for m in (1, 2, 3, 5):
            out.append(ch * m)
    out.append("日本語のテーブル")
    return out


def offset_requests(site, tpl, text, i, gen="byte-offset"):
    """entry points for one program of the byte-offset axis; the dialects rotate with the running index"""
    src = tpl.replace("§", text)
    g = f"{gen} {site}"
    return [{"op": "lex", "src": src, "_gen": g}, {"op": "fmt", "prql": src, "_gen": g},
            {"op": "compile", "prql": src, "target": "sql." + DIALECTS[i % 12], "_gen": g},
            {"op": "compile", "prql": src, "target": "sql." + DIALECTS[(i + 7) % 12], "format": True, "signature": True, "_gen": g},
            {"op": "staged", "prql": src, "target": "sql." + DIALECTS[(i + 5) % 12], "_gen": g}]


# SIZE axis: one token (or one run) of n characters, for every token kind the lexer knows and every place the formatter / the back-end
# has to carry it through. Sizes straddle the powers of two, the u16 range and the formatter's line widths (50 and its x1.5 steps,
# 16 x 50 = 800); consecutive sizes are never more than a factor 4 apart so the growth rule always has a partner.
SIZES = [1, 49, 50, 51, 79, 80, 81, 255, 256, 257, 511, 512, 780, 799, 800, 801, 1023, 1024, 1025, 1200, 4095, 4096, 4097,
         16384, 20000, 50000, 65535, 65536, 70000]
COUNT_SIZES = [49, 50, 51, 100, 255, 256, 257, 400, 799, 800, 801, 1200]
_X = lambda n, c="x": c * n
SIZE_KINDS = {
    # identifiers
    "ident-select": lambda n: "from t | select {" + _X(n) + "}",
    "ident-table": lambda n: "from " + _X(n),
    "ident-alias": lambda n: "from t | derive " + _X(n) + " = a",
    "ident-let": lambda n: "let " + _X(n) + " = (from t)\nfrom " + _X(n),
    "ident-func-param": lambda n: "let f = " + _X(n) + " -> " + _X(n) + " + 1\nfrom t | select (f a)",
    "ident-named-arg": lambda n: "let f = " + _X(n) + ":1 b -> b\nfrom t | select (f " + _X(n) + ":2 a)",
    "ident-quoted": lambda n: "from t | select `" + _X(n) + "`",
    "ident-path-segment": lambda n: "from t | select t." + _X(n),
    "ident-module": lambda n: "module " + _X(n) + " { let y = 1 }\nfrom t | select " + _X(n) + ".y",
    "ident-multibyte": lambda n: "from t | select {" + _X(n, "é") + "}",
    "ident-join-alias": lambda n: "from t | join " + _X(n) + "=u (==a) | select " + _X(n) + ".b",
    # string literals
    "string-dq-filter": lambda n: 'from t | filter a == "' + _X(n) + '"',
    "string-sq": lambda n: "from t | select x = '" + _X(n) + "'",
    "string-triple": lambda n: 'from t | select x = """' + _X(n) + '"""',
    "string-raw": lambda n: 'from t | select x = r"' + _X(n) + '"',
    "string-toplevel-let": lambda n: 'let s = "' + _X(n) + '"\nfrom t | select {x = s}',
    "string-call-arg": lambda n: 'from t | select x = (text.contains "' + _X(n) + '" a)',
    "string-in-nested-tuple": lambda n: 'from t | select {a, b = {c = "' + _X(n) + '"}}',
    "string-in-case": lambda n: 'from t | derive x = case [a == "' + _X(n) + '" => 1, true => 2]',
    "string-in-array": lambda n: 'from t | filter (a | in ["' + _X(n) + '", "y"])',
    "string-spaces": lambda n: 'from t | select x = "' + _X(n, " ") + '"',
    "string-words": lambda n: 'from t | select x = "' + _X(n // 6 + 1, "lorem ") + '"',
    "string-2byte": lambda n: 'from t | select x = "' + _X(n, "é") + '"',
    "string-4byte": lambda n: 'from t | select x = "' + _X(n, "😀") + '"',
    "string-combining": lambda n: 'from t | select x = "e' + _X(n, "\u0301") + '"',
    "string-escaped-quotes": lambda n: 'from t | select x = "' + _X(n, '\\"') + '"',
    "string-unterminated": lambda n: 'from t | select x = "' + _X(n),
    "from-text-csv": lambda n: 'from_text format:csv "a,b\\n' + _X(n) + ',2"',
    # interpolated strings
    "fstring-text": lambda n: 'from t | select x = f"' + _X(n) + '{a}"',
    "fstring-text-after": lambda n: 'from t | select x = f"{a}' + _X(n) + '"',
    "sstring-expr": lambda n: 'from t | select x = s"' + _X(n) + '"',
    "sstring-expr-interp": lambda n: 'from t | select x = s"{a} + ' + _X(n) + '"',
    "sstring-relation": lambda n: 'from s"SELECT ' + _X(n) + ' FROM u"',
    "sstring-relation-leading-space": lambda n: 'from s"' + _X(n, " ") + 'SELECT 1"',
    "sstring-relation-not-select": lambda n: 'from s"' + _X(n) + '"',
    "sstring-join": lambda n: 'from t | join s"SELECT ' + _X(n) + ' FROM u" (==a)',
    "sstring-let": lambda n: 'let r = s"SELECT ' + _X(n) + ' FROM u"\nfrom r | select {a}',
    # numbers, dates, params
    "number-int": lambda n: "from t | select x = " + _X(n, "7"),
    "number-float": lambda n: "from t | select x = 1." + _X(n, "7"),
    "number-exp": lambda n: "from t | select x = 1e" + _X(n, "9"),
    "number-underscores": lambda n: "from t | select x = 1" + _X(n // 2 + 1, "_0"),
    "number-hex": lambda n: "from t | select x = 0x" + _X(n, "f"),
    "number-with-unit": lambda n: "from t | select x = " + _X(n, "7") + "days",
    "date-fraction": lambda n: "from t | select x = @2020-01-01T10:20:30." + _X(n, "1"),
    "param": lambda n: "from t | filter a == $" + _X(n),
    # comments, trivia
    "comment-line": lambda n: "# " + _X(n, "c") + "\nfrom t",
    "comment-trailing": lambda n: "from t # " + _X(n, "c") + "\n| select a",
    "comment-in-pipeline": lambda n: "from t\n# " + _X(n, "c") + "\n| select a",
    "doc-comment": lambda n: "#! " + _X(n, "c") + "\nlet x = 1\nfrom t",
    "comment-multibyte": lambda n: "# " + _X(n, "日") + "\nfrom t",
    "space-run": lambda n: "from t |" + _X(n, " ") + "select a",
    "trailing-space-run": lambda n: "from t | select a" + _X(n, " "),
    "line-wrap-run": lambda n: "from t" + _X(n, "\n\\ ") + "| select a",
    # names outside the program text proper
    "target-in-header": lambda n: "prql target:sql." + _X(n) + "\nfrom t",
    "version-in-header": lambda n: 'prql version:"' + _X(n, "1") + '"\nfrom t',
    # unknown names in error messages (the message quotes the name, suggestions measure edit distances)
    "unknown-function": lambda n: "from t | select (" + _X(n) + " a)",
    "unknown-std-member": lambda n: "from t | select (std." + _X(n) + " a)",
    "unknown-named-arg": lambda n: "from t | sort " + _X(n) + ":1 a",
}
# number of items rather than length of one item, at the same width thresholds (the doubling FAMILIES cover the powers of two)
COUNT_KINDS = {
    "count-select-items": lambda n: "from t | select {" + ", ".join("a" for _ in range(n)) + "}",
    "count-call-args": lambda n: "let f = " + " ".join(f"p{i}" for i in range(n)) + " -> p0\nfrom t | select (f " + " ".join("1" for _ in range(n)) + ")",
    "count-inline-steps": lambda n: "from t" + " | filter a > 0" * n,
    "count-array-items": lambda n: "from t | filter (a | in [" + ", ".join("1" for _ in range(n)) + "])",
    "count-concat-strings": lambda n: "from t | select x = " + " + ".join('"s"' for _ in range(n)),
    "count-fstring-parts": lambda n: 'from t | select x = f"' + "{a}" * n + '"',
}


# kinds that vary a request field other than the program text: name -> (entry points, n -> request fields)
REQ_KINDS = {
    "target-option": ([("compile", "prql"), ("staged", "prql")], lambda n: {"prql": "from t | select a", "target": "sql." + _X(n)}),
    "target-option-multibyte": ([("compile", "prql")], lambda n: {"prql": "from t | select a", "target": "sql." + _X(n, "é")}),
    "target-from-str": ([("target_from_str", "name")], lambda n: {"name": "sql." + _X(n)}),
}
ALLGEN = {**FAMILIES, **SIZE_KINDS, **COUNT_KINDS, **{k: v[1] for k, v in REQ_KINDS.items()}}


def gen_src(f, n):
    v = ALLGEN[f](n)
    return v.get("prql", "") if isinstance(v, dict) else v


def json_paths(v, path=()):
    yield path, v
    if isinstance(v, dict):
        for k, x in v.items():
            yield from json_paths(x, path + (k,))
    elif isinstance(v, list):
        for i, x in enumerate(v):
            yield from json_paths(x, path + (i,))


def jget(v, path):
    for p in path:
        v = v[p]
    return v


def jset(root, path, val):
    if not path:
        return val
    parent = jget(root, path[:-1])
    parent[path[-1]] = val
    return root


def jdel(root, path):
    parent = jget(root, path[:-1])
    del parent[path[-1]]
    return root


ATOMS = [None, [], {}, 0, -1, 1, 7, 99999, 2 ** 40, "", "x", True, False, 1.5, [[]], [None], {"x": 1}]


def mutate_json(rng, tree):
    t = copy.deepcopy(tree)
    for _ in range(rng.choice([1, 1, 1, 2, 3])):
        paths = [(p, v) for p, v in json_paths(t) if p]
        if not paths:
            break
        p, v = rng.choice(paths)
        k = rng.randrange(10)
        try:
            if k == 0 and isinstance(jget(t, p[:-1]), dict):
                jdel(t, p)                                   # removed field
            elif k == 1:
                jset(t, p, copy.deepcopy(rng.choice(ATOMS)))  # type confusion
            elif k == 2 and isinstance(v, bool) is False and isinstance(v, int):
                jset(t, p, rng.choice([v + 1, v - 1, v + 1000, 0, 65535, 2 ** 32]))   # dangling ids
            elif k == 3 and isinstance(v, list):
                jset(t, p, rng.choice([[], v[1:], v[:-1], v + v[:1], v[::-1], v[:1]]))  # empty pipelines / wrong arities
            elif k == 4:
                q, w = rng.choice(paths)
                jset(t, p, copy.deepcopy(w))                  # graft another subtree
            elif k == 5 and isinstance(v, str):
                strs = [w for _, w in paths if isinstance(w, str)]
                jset(t, p, rng.choice(strs + ["", "std.nope", "é", "0:9999-99999", "1:5-2"]))
            elif k == 6 and isinstance(v, dict) and v:
                kk = rng.choice(list(v))
                v[rng.choice(["x", "kind", "id", "name", "args", "Literal", "Ident"])] = v.pop(kk)   # renamed field
            elif k == 7 and isinstance(v, list) and v:
                i = rng.randrange(len(v)); v.insert(i, copy.deepcopy(v[i]))   # duplicated item
            elif k == 8 and isinstance(v, (int, float)) and not isinstance(v, bool):
                jset(t, p, rng.choice([-v, v * 1000, 0]))
            else:
                ints = [(q, w) for q, w in paths if isinstance(w, int) and not isinstance(w, bool)]
                if ints:
                    q, w = rng.choice(ints)
                    q2, w2 = rng.choice(ints)
                    jset(t, q, w2)                            # duplicate / redirected id
        except (KeyError, IndexError, TypeError):
            continue
    return t


# ---------------------------------------------------------------------------------------------
# nesting shapes: time as a function of nesting depth, judged PER SHAPE against the recorded baseline of the unchanged tree
# ---------------------------------------------------------------------------------------------
SHAPE_CORE = ["paren", "paren-pipe-first", "paren-pipe-last", "call-arg-first", "call-arg-last", "tuple-first", "array-last", "case-value",
              "lambda-applied", "binary-left-paren", "binary-right-paren", "unary-neg-paren", "range-end-paren", "fstring-in-paren"]
SHAPE_OPS2 = ("fmt", "rq", "compile", "staged")


def shape_baseline(ctx):
    """"<shape>/<variant>/<entry point>" -> (finding id, first depth above THR on the recorded tree), from the field `nesting_shapes`
    of the listed findings `superpolynomial-time:<stage>`"""
    base = {}
    for fid, f in ctx.known.items():
        if fid.startswith("superpolynomial-time:"):
            for k, d in (f.get("nesting_shapes") or {}).items():
                base[k] = (fid, d)
    return base


def shape_verdict(ds, ts, st):
    """(first depth that blows up, its CPU seconds, CPU ratio per +2 levels) for a series that ended `slow` / `killed` with growth
    (x3 over the last two steps = +4 levels: no polynomial of degree < 6 does that at depth >= 20), else None"""
    if not st or st[0] not in ("slow", "killed"):
        return None
    i, big = st[1], float(st[2])
    prev = ts[:i]
    ref = max(prev[i - 2] if i >= 2 else (min(prev) if prev else 0.0), 0.01)
    if big / ref < 3.0:
        return None
    return ds[i], big, (big / ref) ** (1.0 / (2 if i >= 2 else 1))


def nesting_shapes(ctx, ex):
    import concurrent.futures
    thorough = ctx.tier == "thorough"
    t0 = time.time()
    maxdepth = 40 if thorough else 24
    ds = c12shapes.depths(maxdepth)
    base = shape_baseline(ctx)
    cat = [(sid, "catalogue") for sid, _ in c12shapes.catalogue()]
    # composites: levels alternate between two (three) shapes, closed variants; systematic pairs first, seeded ones second
    pairs = [(a, b) for a in (c12shapes.COMPOSABLE if thorough else SHAPE_CORE) for b in (c12shapes.COMPOSABLE if thorough else SHAPE_CORE) if a != b]
    mixes = [(f"mix({a}+{b})/c", "pair") for a, b in pairs]
    for _ in range(400 if thorough else 60):
        names = [ctx.rng.choice(c12shapes.COMPOSABLE) for _k in range(ctx.rng.choice([2, 3, 3]))]
        mixes.append((f"mix({'+'.join(names)})/{ctx.rng.choice(['c', 'c', 'ml'])}", "random"))
    res = {}

    def one(job):
        sid, op = job
        return job, c12shapes.run_series(vlib.VH, vlib.env, op, [c12shapes.gen(sid, d) for d in ds])
    with concurrent.futures.ThreadPoolExecutor(vlib.NCPU) as pool:
        # phase 1: lexer and parser on everything; phase 2: the later entry points on what the parser comes back on
        for job, r in pool.map(one, [(sid, op) for sid, _ in cat + mixes for op in ("lex", "pl")]):
            res[job] = r
        alive = lambda sid: not any((res[(sid, o)][1] or ("",))[0] in ("slow", "killed", "died") for o in ("lex", "pl"))
        jobs2 = [(sid, op) for sid, _ in cat if alive(sid) for op in SHAPE_OPS2]
        jobs2 += [(sid, op) for sid, _ in mixes if alive(sid) for op in ("rq", "compile")]    # (the formatter blows up on most closed shapes: catalogue only)
        for job, r in pool.map(one, jobs2):
            res[job] = r
    blown, hits_base, not_reached = {}, 0, []
    for (sid, op), (ts, st) in sorted(res.items()):
        for d_ in ds[:len(ts)]:
            ctx.case((op, "nesting-shape", sid, d_)); ex.n_req += 1
        if not st:
            continue
        key = "src" if op in ("lex", "tokens") else "prql"
        req = {"op": op, key: c12shapes.gen(sid, ds[st[1]]), "_gen": f"nesting-shape {sid} depth={ds[st[1]]}"}
        if st[0] == "panic":
            ex.outcomes["panic"] += 1
            a = st[2]
            ex.record_failure(ex.pclass(a, op), f"{op} panics on nesting shape {sid} at depth {ds[st[1]]}: {str(a.get('panic'))[:160]} (at {a.get('at')}, in {a.get('fn')})", req, a)
            continue
        if st[0] == "died":
            a, _ = run_single(req, ex.single_timeout)
            if "crash" in a and a.get("kind") != "timeout":
                ex.outcomes["crash"] += 1
                stage, a2 = locate_stage(req, ex.single_timeout)
                ex.record_failure(f"{a['kind']}:{stage or STAGE_OF[op]}", f"{op} on nesting shape {sid} at depth {ds[st[1]]}: process {a['kind']} ({a.get('stderr', '')[:120]})", req, a)
            elif "panic" in a:
                ex.outcomes["panic"] += 1
                ex.record_failure(ex.pclass(a, op), f"{op} panics on nesting shape {sid}: {str(a.get('panic'))[:160]}", req, a)
            else:
                ctx.count("nesting-shapes: process death not reproduced alone")
            continue
        v = shape_verdict(ds, ts, st)
        if v is None:
            ctx.count("nesting-shapes: above the threshold without growth (not judged)")
            continue
        d1, big, ratio = v
        stage = STAGE_OF[op]
        if op in ("compile", "staged"):
            r2 = res.get((sid, "rq"))
            stage = "resolver" if r2 and shape_verdict(ds, *r2) else "sql"
        pair = f"{sid}/{op}"
        blown[pair] = d1
        cid = f"superpolynomial-time:{stage}"
        b = base.get(pair)
        if b and b[0] == cid and d1 >= b[1] - c12shapes.SLACK:
            hits_base += 1
            note = f"recorded on the unchanged tree (there: depth {b[1]})"
        elif b and b[0] == cid:
            cid += f":{sid}:earlier"
            note = f"the unchanged tree only gets there at depth {b[1]}"
        else:
            cid += f":{sid}"
            note = "this (shape, entry point) does not blow up on the recorded unchanged tree"
        tail = ", ".join(f"{t:.2f}s@{d_}" for d_, t in list(zip(ds, ts))[max(0, st[1] - 3):st[1]])
        ex.outcomes["crash"] += 1
        ex.record_failure(cid, f"{op} on nesting shape {sid}: CPU per request {tail or '-'}, then {'killed after' if st[0] == 'killed' else ''} {big:.2f}s at depth {d1} "
                               f"(x{ratio:.1f} per +2 levels, {len(req[key])} bytes); {note}", req, {"crash": "slow", "t_big": big, "depth": d1})
    for pair, (fid, d_) in base.items():
        sid, op = pair.rsplit("/", 1)
        if pair not in blown and d_ <= maxdepth - c12shapes.SLACK and (sid, op) in res:
            not_reached.append(pair)
    ctx.obligation("nesting shapes: the catalogue covers every bracket-like construct (>= 80 shapes) in closed, unclosed, over-closed and multi-line variants",
                   len(c12shapes.PP) + len(c12shapes.CUSTOM) >= 80 and len(cat) >= 350, f"{len(c12shapes.PP) + len(c12shapes.CUSTOM)} shapes, {len(cat)} distinct shape variants")
    ctx.coverage_extra["nesting_shapes"] = {
        "shapes": len(c12shapes.PP) + len(c12shapes.CUSTOM), "shape_variants": len(cat), "composites_systematic": len(pairs), "composites_random": len(mixes) - len(pairs),
        "depths": f"2..{maxdepth} step 2", "threshold_cpu_s": c12shapes.THR, "kill_cpu_s": c12shapes.KILL, "series": len(res),
        "entry_points": ["lex", "pl"] + list(SHAPE_OPS2), "blown_up (pair -> first depth)": blown, "of_them_recorded_on_the_unchanged_tree": hits_base,
        "recorded_but_fine_this_run": not_reached, "seconds": round(time.time() - t0, 1)}
    ctx.sample({"family": "nesting-shape", "shape": "paren-pipe-first/c", "depth": 4, "input": c12shapes.gen("paren-pipe-first/c", 4)})


# ---------------------------------------------------------------------------------------------
def run(ctx):
    br = vlib.standard_proof_obligations(ctx, ["PrqlModel.Props.C12"], [],
        required_theorems=["error_compose_no_panic", "compose_panic_sites", "lexer_errors_never_panic_compose",
                           "parser_error_compose_panics", "offset_conversion_linear", "lineCol_linear", "splitter_unwraps_succeed", "atomic_part_has_exactly_one_select"])
    thorough = ctx.tier == "thorough"
    ctx.rule = ("(i) every string of length <= 3 over a 30-character alphabet (thorough: also length 4 over its first 16 characters) through lex, tokens, pl, fmt, rq, compile, staged; (ii) every integration-test query and book example through "
                "all entry points and all 12 dialects, seeded token-level mutants of them (delete / duplicate / swap / replace / insert "
                "punctuation / multibyte insertion / truncate / splice) and 34 stress families on doubling sizes (nesting, chains, long "
                "tuples, pipelines ...) up to depth 10^4 where time allows; (ii-b) size axis: 58 single-token kinds (+3 target-name kinds) x 29 lengths 1..70000 and 6 item-count kinds x 12 counts "
                "through lex, fmt, compile, staged (thorough: also pl, rq), one process per series, first hang ends the series; (i-b) byte-offset axis: 55 program sites (+ the target option) x base "
                "texts x 9 multi-byte characters inserted at (3 of them also substituted for) byte offset 0..12, plus seeded compositions of 2-3 such characters, through "
                "lex, fmt, compile (plain and format:true), staged under rotating dialects; (iii) PL and RQ JSON of the corpus, unchanged and mutated "
                "(removed / renamed fields, type confusion, dangling and duplicated ids, emptied and re-arranged lists, grafted subtrees) "
                "through json::to_pl / to_rq and the later stages under a random dialect. A case = (entry point, input, dialect); non-trivial = "
                "the input got past the lexer (i), was accepted by the parser / deserializer (ii, iii).")
    ctx.assumptions += ["stack depth is observed on the harness build (opt-level 1, 8 MiB main-thread stack); a different build moves the depth at which recursion overflows, not whether it does",
                        "the super-polynomial alarm uses the CPU time of a dedicated process per request and is deliberately loose (t(4n)/t(n) > 100 and t(4n) > 2 s)"]
    if not br.cargo_ok:
        return
    ex = Explorer(ctx)
    rng = ctx.rng
    progs = corpus()
    ctx.obligation("corpus found (integration queries + book examples)", len(progs) > 100, f"{len(progs)} programs")

    # ---- (i) short strings -------------------------------------------------------------------
    t0 = time.time()
    strs = [""]
    small = ALPHABET[:16]
    for n in (1, 2):
        strs += ["".join(t) for t in itertools.product(ALPHABET, repeat=n)]
    strs += ["".join(t) for t in itertools.product(ALPHABET, repeat=3)]
    if thorough:
        strs += ["".join(t) for t in itertools.product(small, repeat=4)]
    reqs = []
    for s in strs:
        reqs += src_reqs(s, "short-string")
    ans = ex.run(reqs, "i", timeout=(600 if thorough else 150), nontrivial=lambda r, a: not ("err" in a and r["op"] == "lex"))
    # short strings in program position as well (after `from t | select `)
    reqs = []
    for s in strs[: (len(strs) if thorough else 1 + 30 + 900 + 27000)]:
        reqs += src_reqs("from t | select " + s, "short-string-in-select", ops=[("compile", "prql")])
    ex.run(reqs, "i")
    ctx.coverage_extra["short_strings"] = {"count": len(strs), "alphabet": ALPHABET, "max_len": 4 if thorough else 3, "seconds": round(time.time() - t0, 1)}
    ctx.sample({"family": "short-string", "input": "{|'", "entry_points": [o for o, _ in SRC_OPS]})

    reqs = []
    for d_ in DIRECTED:
        reqs += src_reqs(d_, "directed")
    ex.run(reqs, "i-directed", timeout=300)

    reqs = []
    for src in _temporal_programs():
        reqs += src_reqs(src, "temporal-literal")
        for d in DIALECTS:
            reqs += src_reqs(src, "temporal-literal", ops=[("compile", "prql")], target="sql." + d)
    ex.run(reqs, "i-temporal", timeout=300)

    cop = clause_order_programs()
    n_all = len(CLAUSE_FORMS) ** 2 + 6 * len(CLAUSE_FORMS)      # pairs: every dialect; triples: sampled in quick, three dialects each
    if not thorough:
        cop = cop[:n_all] + random.Random(1212).sample(cop[n_all:], 700)
    reqs = []
    for k, src in enumerate(cop):
        for d in (DIALECTS if (thorough or k < n_all) else [DIALECTS[k % len(DIALECTS)], "postgres", "mssql"]):
            reqs += src_reqs(src, "clause-order", ops=[("compile", "prql")], target="sql." + d)
    ctx.coverage_extra["clause_order_programs"] = {"programs": len(cop), "requests": len(reqs)}
    ex.run(reqs, "i-clause-order", timeout=600)

    # ---- (i-b) byte-offset axis: multi-byte characters at byte offsets 0..12 of every text the compiler inspects ----------
    t0 = time.time()
    reqs, i = [], 0
    for site, tpl, bases in OFFSET_SITES:
        for base in bases:
            for text in offset_texts(base):
                reqs += offset_requests(site, tpl, text, i); i += 1
    for site, mk, bases in OFFSET_REQ_SITES:
        for base in bases:
            for text in offset_texts(base):
                reqs += [{**r, "_gen": f"byte-offset {site}"} for r in mk(text)]; i += 1
    n_sys = i
    # random second: two or three multi-byte characters at random small offsets, random site
    for _ in range(6000 if thorough else 1500):
        site, tpl, bases = rng.choice(OFFSET_SITES)
        text = rng.choice(bases)
        for _k in range(rng.choice([2, 2, 3])):
            k = rng.randrange(0, min(MAX_OFFSET + 4, len(text)) + 1)
            text = text[:k] + rng.choice(MB_CHARS) + text[k + rng.choice([0, 0, 1]):]
        reqs += offset_requests(site, tpl, text, rng.randrange(12), gen="byte-offset-random"); i += 1
    ex.run(reqs, "i-byte-offset", timeout=(600 if thorough else 150), nontrivial=lambda r, a: not ("err" in a and r["op"] == "lex"))
    ctx.coverage_extra["byte_offset_axis"] = {"sites": [s_[0] for s_ in OFFSET_SITES + OFFSET_REQ_SITES], "characters": MB_CHARS, "offsets": f"0..{MAX_OFFSET}",
                                              "systematic_programs": n_sys, "random_programs": i - n_sys, "requests": len(reqs), "seconds": round(time.time() - t0, 1)}
    ctx.sample({"family": "byte-offset", "site": "sstring-from", "input": 'from s"SELECT→a, b FROM tbl"', "entry_points": ["lex", "fmt", "compile", "compile format:true", "staged"]})

    # ---- (ii) corpus, dialect sweep, mutants --------------------------------------------------
    t0 = time.time()
    reqs = []
    for p in progs:
        reqs += src_reqs(p, "corpus")
        for d in DIALECTS:
            reqs += src_reqs(p, "corpus-dialect", ops=[("compile", "prql"), ("staged", "prql")], target="sql." + d)
    ans = ex.run(reqs, "ii-corpus", nontrivial=lambda r, a: "errors" not in a)
    tokens = {}
    for r, a in zip(reqs, ans):
        if r["op"] == "tokens" and "ok" in (a or {}):
            tokens[r["src"]] = [(t["span"]["start"], t["span"]["end"]) for t in a["ok"] if t["span"]["end"] > t["span"]["start"]]
    scale = float(os.environ.get("VERIF_C12_SCALE", "1"))     # one-off larger explorations (soak); the default is what the tiers run
    n_mut = int((40000 if thorough else 8000) * scale)
    reqs = []
    for _ in range(n_mut):
        p = rng.choice(progs)
        m = mutate_source(rng, p, tokens.get(p, []))
        if rng.random() < 0.3:
            m = mutate_source(rng, m, tokens.get(p, []))   # second mutation on stale spans: arbitrary cut points
        d = rng.choice(DIALECTS)
        reqs += src_reqs(m, "mutant", ops=[("lex", "src"), ("fmt", "prql"), ("compile", "prql"), ("staged", "prql")], target="sql." + d)
    ex.run(reqs, "ii-mutants", timeout=(900 if thorough else 150), nontrivial=lambda r, a: not ("err" in a))
    ctx.sample({"family": "token-mutant", "of": progs[0][:80], "mutant": mutate_source(vlib.random.Random(1), progs[0], tokens.get(progs[0], []))[:120]})
    ctx.coverage_extra["mutants"] = {"count": n_mut, "corpus_programs": len(progs), "seconds": round(time.time() - t0, 1)}

    # ---- nesting shapes x entry points: depth series judged per shape against the recorded baseline ---------------
    nesting_shapes(ctx, ex)

    # ---- stress families on doubling sizes (each request in its own process, hard timeout) ------------
    t0 = time.time()
    T = 60.0 if thorough else 8.0                     # hard limit of one request
    cap = 10.0 if thorough else 1.5                   # stop doubling a (family, op) once one request takes this long
    nmax = 16384 if thorough else 4096
    ops = [("lex", "src"), ("pl", "prql"), ("fmt", "prql"), ("rq", "prql"), ("compile", "prql")]

    def series(fo):
        f, (op, key) = fo
        ts, fails, n = {}, [], 4
        while n <= nmax:
            req = {"op": op, key: FAMILIES[f](n), "_time": True, "_gen": f"family {f} n={n}"}
            a, dt = run_single(req, T)
            if "panic" in a:
                fails.append(("panic", req, a)); break
            if "crash" in a:
                if a["kind"] == "timeout":
                    ts[n] = -dt                 # negative = killed after burning this much CPU (a lower bound of its cost)
                fails.append((a["kind"], req, a)); break
            ts[n] = dt                          # CPU seconds of the process (start-up included)
            if ts[n] > cap:
                break
            n *= 2
        return f, op, ts, fails

    def series_sizes(fo):
        """one process per (kind, entry point), fed the whole size schedule in ascending order; the first request that does not
        come back within T seconds (or kills the process) ends the series and is re-run alone for its class and CPU time"""
        f, (op, key), sizes = fo
        reqs = []
        for n in sizes:
            v = ALLGEN[f](n)
            r = {"op": op, "_time": True, "_gen": f"family {f} n={n}"}
            r.update(v if isinstance(v, dict) else {key: v})
            reqs.append(r)
        lines = [json.dumps({k: v for k, v in r.items() if k != "_gen"}) for r in reqs]
        answers, rc = vlib._run_lines([vlib.VH], lines, T * len(lines), T)
        ts, fails = {}, []
        for i, (n, req) in enumerate(zip(sizes, reqs)):
            if i >= len(answers):
                a, dt = run_single(req, T)       # the request the process died / hung on
                if "panic" in a:
                    fails.append(("panic", req, a))
                elif "crash" in a:
                    if a["kind"] == "timeout":
                        ts[n] = -dt
                    fails.append((a["kind"], req, a))
                else:
                    ts[n] = dt                   # slow under load only: it does come back alone
                    continue
                break
            try:
                a = json.loads(answers[i])
            except (RecursionError, ValueError):
                a = {}
            if "panic" in a:
                fails.append(("panic", req, a))  # in-process panic: the series goes on
                continue
            ts[n] = (a.get("_cpu_ms") or 0) / 1000.0
        return f, op, ts, fails

    size_ops = ops + [("staged", "prql")] if thorough else [("lex", "src"), ("fmt", "prql"), ("compile", "prql"), ("staged", "prql")]
    size_items = [(f, o, SIZES) for f in SIZE_KINDS for o in size_ops] + [(f, o, COUNT_SIZES) for f in COUNT_KINDS for o in size_ops]
    size_items += [(f, o, SIZES) for f, (os_, _) in REQ_KINDS.items() for o in os_]
    import concurrent.futures
    with concurrent.futures.ThreadPoolExecutor(vlib.NCPU) as pool:
        results = list(pool.map(series, [(f, o) for f in FAMILIES for o in ops]))
        t1 = time.time()
        results += list(pool.map(series_sizes, size_items))
        ctx.coverage_extra["size_axis"] = {"kinds": sorted(SIZE_KINDS) + sorted(REQ_KINDS), "sizes": SIZES, "count_kinds": sorted(COUNT_KINDS), "count_sizes": COUNT_SIZES,
                                           "entry_points": [o for o, _ in size_ops], "series": len(size_items), "seconds": round(time.time() - t1, 1)}
    times, slow = {}, []
    for f, op, ts, fails in results:
        times[(f, op)] = ts
        for n_, v in ts.items():
            ctx.case((op, f, n_)); ex.n_req += 1
        for kind, req, a in fails:
            ex.n_req += 1
            ctx.count(f"ii-families: {kind}")
            if kind == "panic":
                ex.outcomes["panic"] += 1
                ex.record_failure(ex.pclass(a, op), f"{op} panics on family {f}: {a['panic'][:160]} (at {a.get('at')}, in {a.get('fn')})", req, a)
            elif kind == "timeout":
                pass        # judged by the growth rule below
            else:
                ex.outcomes["crash"] += 1
                stage, a2 = locate_stage(req, T)
                ex.record_failure(f"{kind}:{stage or STAGE_OF[op]}", f"{op} on family {f}: process {kind} in stage {stage} ({a.get('stderr', '')[:120]})", req, a)
        # growth in CPU time: t(4n) / t(n) > 100 with t(4n) > 2 s (for a killed request: the CPU it had burnt when killed);
        # also across one doubling when it is that steep. A cubic algorithm gives 64 (8) and start-up time only lowers the ratio.
        # ONE token of at most 1200 characters (SIZE_KINDS) that is killed at the hard timeout is compared with the next smaller size
        # whatever the ratio of the sizes: nothing polynomial in the length of a token takes milliseconds at n and > 100x that at <= 1200.
        ns = sorted(ts)
        for n_ in ns:
            big = abs(ts[n_])
            if big <= 2.0:
                continue
            flat_kill = ts[n_] < 0 and n_ <= 1200 and (f in SIZE_KINDS or f in REQ_KINDS)
            for m_ in ns:
                if (m_ * 2 <= n_ <= m_ * 4 or (flat_kill and m_ < n_)) and ts[m_] >= 0 and big / max(ts[m_], 1e-3) > 100:
                    slow.append((f, op, m_, ts[m_], n_, ts[n_]))
                    break
    seen_slow = set()
    for f, op, m_, tm, n_, tn in slow:
        stage = STAGE_OF[op]
        if op in ("rq", "compile", "fmt"):
            # attribute to the parser when parsing alone is (nearly) as expensive on the same input
            tp = times.get((f, "pl"), {}).get(n_)
            if any(s[0] == f and s[1] == "pl" for s in slow) or (tp is not None and (tp < 0 or tp >= 0.5 * abs(tn))):
                stage = "parser"
        cid = slow_class(stage, gen_src(f, n_))
        if (cid, f) in seen_slow:
            continue
        seen_slow.add((cid, f))
        key = "src" if op == "lex" else "prql"
        v = ALLGEN[f](n_)
        ex.record_failure(cid, f"{op} on family {f}: {tm:.4f}s CPU at n={m_} but {'no answer within %gs (%.1fs CPU burnt)' % (T, -tn) if tn < 0 else '%.2fs CPU' % tn} at n={n_}",
                          {"op": op, **(v if isinstance(v, dict) else {key: v}), "_gen": f"family {f} n={n_}"}, {"crash": "slow", "t_small": tm, "t_big": tn})
    ctx.coverage_extra["families"] = {
        "hard_timeout_s": T,
        "sizes_reached": {f"{f}/{op}": max(ts) for (f, op), ts in times.items() if ts},
        "cpu_seconds_at_largest (negative: killed at the hard timeout)": {f"{f}/{op}": round(ts[max(ts)], 3) for (f, op), ts in times.items() if ts},
        "slow_flags": [list(s) for s in slow], "seconds": round(time.time() - t0, 1)}
    ctx.sample({"family": "paren-nesting", "n": 64, "input": FAMILIES["paren-nesting"](8) + "  (n=8 shown)"})

    # ---- (iii) PL / RQ JSON ---------------------------------------------------------------------
    t0 = time.time()
    ans = vh_batch([{"op": "pl", "prql": p} for p in progs] + [{"op": "rq", "prql": p} for p in progs], shards=vlib.NCPU)
    pls = [a["pl"] for a in ans[:len(progs)] if a and "pl" in a]
    rqs = [a["rq"] for a in ans[len(progs):] if a and "rq" in a]
    ctx.obligation("PL and RQ JSON of the corpus obtained", len(pls) > 50 and len(rqs) > 50, f"{len(pls)} PL, {len(rqs)} RQ documents")
    reqs = []
    for v in pls:
        reqs.append({"op": "pl_json_to_sql", "json": json.dumps(v), "_gen": "pl-json unchanged"})
    for v in rqs:
        for d in (DIALECTS if thorough else ["generic", "sqlite", "mssql"]):
            reqs.append({"op": "rq_json_to_sql", "json": json.dumps(v), "target": "sql." + d, "_gen": "rq-json unchanged"})
    ex.run(reqs, "iii-unchanged")
    n_j = int((40000 if thorough else 10000) * scale)
    reqs = []
    for i in range(n_j):
        if i % 2 == 0 and pls:
            v = mutate_json(rng, rng.choice(pls)); op = "pl_json_to_sql"
        else:
            v = mutate_json(rng, rng.choice(rqs)); op = "rq_json_to_sql"
        reqs.append({"op": op, "json": json.dumps(v), "target": "sql." + rng.choice(DIALECTS), "_gen": "json mutant"})
    # arbitrary JSON documents as well
    for v in ATOMS + [{"name": "x", "stmts": []}, {"def": {}, "tables": [], "relation": {}}, [1, 2, 3], "from t"]:
        reqs.append({"op": "pl_json_to_sql", "json": json.dumps(v), "_gen": "arbitrary json"})
        reqs.append({"op": "rq_json_to_sql", "json": json.dumps(v), "_gen": "arbitrary json"})
    for s in ["", "{", "[", "nul", "{\"a\":", "\"\\ud800\"", "1e999", "[" * 5000, "{\"a\":" * 3000]:
        reqs.append({"op": "pl_json_to_sql", "json": s, "_gen": "malformed json"})
        reqs.append({"op": "rq_json_to_sql", "json": s, "_gen": "malformed json"})
    ex.run(reqs, "iii-mutants", timeout=(900 if thorough else 150), nontrivial=lambda r, a: not any("line" in (e.get("reason") or "") and "column" in (e.get("reason") or "") for e in a.get("errors", [])))
    ctx.sample({"family": "json-mutant", "op": "rq_json_to_sql", "mutations": "removed/renamed field, type confusion, dangling id, emptied list, grafted subtree"})
    ctx.coverage_extra["json"] = {"pl_documents": len(pls), "rq_documents": len(rqs), "mutants": n_j, "seconds": round(time.time() - t0, 1)}

    # ---- verdict -------------------------------------------------------------------------------
    ctx.coverage_extra["outcomes"] = ex.outcomes
    ctx.coverage_extra["failure_classes"] = dict(sorted(ex.classes.items()))
    ctx.coverage_extra["class_messages"] = {c: dict(sorted(m.items())) for c, m in sorted(ex.messages.items())}
    ctx.coverage_extra["class_witnesses"] = {c: {"request": {k: (v if not isinstance(v, str) or len(v) < 600 else v[:600] + "…") for k, v in w[1].items()},
                                                 "answer": {k: w[2].get(k) for k in ("panic", "at", "fn", "crash") if k in w[2]}}
                                             for c, w in sorted(ex.witness.items())}
    new = sorted(c for c in ex.classes if c not in ctx.known)
    ctx.obligation("exploration: every panic / abort / hang / slow class observed is a listed finding", not new,
                   f"{ex.n_req} requests, {len(ex.classes)} classes hit, new: {new[:8]}")
    ctx.exhaustive = False


def replay(obj):
    if obj.get("kind") in ("no-failing-input-found", "correspondence") or obj.get("correspondence"):
        return vlib.replay_correspondence(obj)
    r = obj.get("replay", obj)
    print(json.dumps({k: v for k, v in obj.items() if k != "replay"}, indent=1)[:2000])
    req = r.get("request")
    if req and "family" not in req:
        if any(k + "_len" in req for k in ("prql", "src", "json")):
            print("input was truncated in the replay file; regenerate with:", r.get("gen"))
            m = re.match(r"family (\S+) n=(\d+)", r.get("gen") or "")
            if m:
                key = "src" if "src" in req else "prql"
                v = ALLGEN[m.group(1)](int(m.group(2)))
                req = {"op": req["op"], **(v if isinstance(v, dict) else {key: v})}
            else:
                return 0
        req = {k: v for k, v in req.items() if not k.startswith("_")}
        a = vh_batch([req])[0]
        print(json.dumps(a)[:3000])
        if "crash" in a:
            print(json.dumps(run_single(req, 60)[0])[:600])
    return 0
