"""C13 errors are located inside the source and point at the offending text."""
import json, re, itertools
import vlib
from vlib import vh_batch, drv_batch, enc, dec

MANIFEST = dict(
    text="Lean theorems over Model/Text (mirrors of convert_lexer_error, the map_span closure of parse_lr_to_pr, the interpolation "
         "rebasing, compose_location / the location assert, ariadne's line table, SourceTree ids): lexer_error_span_ok (full), "
         "parser_span_ok (full statement kept as def; parser_span_ok_counterexample = byte offsets read as character offsets, "
         "parser_span_ok_partial = ASCII text before the span end), interp_span_ok (counterexample for multi-quote strings, partial for "
         "one quote, escape counterexample), multi_file. Tied to the code by (a) exhaustive small-scope + random comparison of "
         "offset conversion, line/column, panic behaviour and quoted line between model, implementation (ErrorMessages::composed on "
         "arbitrary spans) and an independent oracle, (b) the property itself checked on erroneous programs of every class "
         "(lexical, syntactic, interpolation, resolution, type, SQL generation) decorated with ASCII / 2- / 3- / 4-byte text and line "
         "breaks, single- and multi-file, including the ASCII-twin oracle (the reported character span must not depend on the byte "
         "width of earlier text).",
    note="which token range chumsky reports for a rejected program is not modelled (only the span arithmetic applied to it is); "
         "that lexer errors carry boundary-aligned byte spans is asserted on every lexer error of the run. Known findings: non-lexer "
         "spans are byte offsets (panic or shifted location after non-ASCII text), interpolation spans ignore extra quotes and escapes, "
         "errors raised inside std carry a span into a file that is not in the tree.",
    technique="Lean 4 proof over a text-position model + differential run against ErrorMessages::composed / compile + metamorphic ASCII-twin oracle",
    ref="4/C13")

SEPS = set("\r\n\x0b\x0c\x85\u2028\u2029")


# ---------------------------------------------------------------------------------------------
# independent oracle (declarative: a line starts after a separator that is not the \r of \r\n and not the last char)
# ---------------------------------------------------------------------------------------------
def line_starts(src):
    st = [0]
    for i, c in enumerate(src):
        if c in SEPS and not (c == "\r" and i + 1 < len(src) and src[i + 1] == "\n") and i + 1 < len(src):
            st.append(i + 1)
    return st


def line_col(src, off, st=None):
    if off > len(src):
        return None
    st = st or line_starts(src)
    l = max(k for k, s in enumerate(st) if s <= off)
    return [l, off - st[l]]


def line_text(src, l):
    st = line_starts(src)
    if l >= len(st):
        return None
    b = st[l + 1] if l + 1 < len(st) else len(src)
    return src[st[l]:b]


def nows(s):
    return "".join(s.split())


def quoted_lines(display):
    """{line number: text} of the ` N │ text` lines of an ariadne report"""
    out = {}
    for ln in (display or "").split("\n"):
        m = re.match(r"^\s*(\d+) │ ?(.*)$", ln)
        if m:
            # multi-line labels draw arrows in a margin before the text
            out.setdefault(int(m.group(1)), m.group(2).lstrip("╭─▶├│╰ "))
    return out


def lc_str(loc):
    return None if loc is None else f"{loc['start'][0]}:{loc['start'][1]} {loc['end'][0]}:{loc['end'][1]}"


# ---------------------------------------------------------------------------------------------
# suite A: arbitrary sources x arbitrary spans
# ---------------------------------------------------------------------------------------------
def suite_offsets(ctx):
    thorough = ctx.tier == "thorough"
    alpha = ["a", "é", "€", "😀", "\n", "\r", "\x0b", "\u2028", "\x85"] + (["\x0c", "\u2029"] if thorough else [])
    maxlen = 4 if thorough else 3
    srcs = [""]
    for n in range(1, maxlen + 1):
        srcs += ["".join(t) for t in itertools.product(alpha, repeat=n)]
    n_sys = len(srcs)
    rng = ctx.rng
    pool = ["a", "b", " ", "é", "ß", "€", "中", "😀", "\n", "\n", "\r\n", "\r", "\x0b", "\x0c", "\x85", "\u2028", "\u2029", "\t", "|"]
    for _ in range(4000 if thorough else 1200):
        srcs.append("".join(rng.choice(pool) for _ in range(rng.randint(4, 60))))
    vreq, dlines, meta = [], [], []
    for s in srcs:
        n, m = len(s), len(s.encode("utf-8"))
        spans = [[i, i] for i in range(0, n + 2)]
        if n <= 4:
            spans += [[i, j] for i in range(0, n + 2) for j in range(0, n + 2) if i != j]
        else:
            for _ in range(8):
                i, j = rng.randint(0, n + 1), rng.randint(0, n + 1)
                spans.append([i, j])
            spans.append([0, n])
        bytes_ = list(range(0, m + 2))
        vreq.append({"op": "compose", "src": s, "spans": spans})
        vreq.append({"op": "b2c", "src": s, "bytes": bytes_})
        dlines.append(f"b2c\t{enc(s)}\t{' '.join(map(str, bytes_))}")
        for a, b in spans:
            dlines.append(f"compose\t{enc(s)}\t{a}\t{b}")
        nl = len(line_starts(s))
        for l in range(nl + 1):
            dlines.append(f"linetext\t{enc(s)}\t{l}")
        meta.append((s, spans, bytes_, nl))
    va = vh_batch(vreq, shards=vlib.NCPU)
    da = drv_batch(dlines, shards=vlib.NCPU)
    di = 0
    bad_m, bad_o = 0, 0
    n_panic_b = n_panic_o = n_ok = 0
    for k, (s, spans, bytes_, nl) in enumerate(meta):
        comp, b2c = va[2 * k], va[2 * k + 1]
        n = len(s)
        st = line_starts(s)
        # byte -> char
        model_b2c = da[di].split(" "); di += 1
        enc_s = s.encode("utf-8")
        oracle_b2c = []
        for b in bytes_:
            try:
                oracle_b2c.append(len(enc_s[:b].decode("utf-8")) if b <= len(enc_s) else None)
            except UnicodeDecodeError:
                oracle_b2c.append(None)
        impl_b2c = b2c.get("chars")
        mod = [None if w == "-" else int(w) for w in model_b2c]
        ctx.case(("b2c", s), nontrivial=any(ord(c) > 127 for c in s))
        if impl_b2c != mod:
            bad_m += 1
            ctx.disagreement("charOfByte", f"source[..b].chars().count() differs from Model.charOfByte on {s!r}",
                             {"op": "b2c", "src": s, "bytes": bytes_, "impl": impl_b2c, "model": mod})
        if impl_b2c != oracle_b2c:
            bad_o += 1
            ctx.oracle_failure(None, f"byte->char conversion wrong on {s!r}", {"op": "b2c", "src": s, "impl": impl_b2c, "expected": oracle_b2c})
        # compose
        model_lines = {}
        for (a, b), c in zip(spans, comp.get("composed", [None] * len(spans))):
            m = da[di]; di += 1
            ctx.case(("compose", s, a, b), nontrivial=(a <= b <= n and n > 0))
            if c is None:
                impl = "crash"
            elif "panic" in c:
                impl = "panic-bounds" if "out of bounds of the source" in c["panic"] else ("panic-order" if "Label start is after its end" in c["panic"] else "panic-other:" + c["panic"])
            else:
                impl = lc_str(c.get("location"))
            if impl == "panic-bounds":
                n_panic_b += 1
            elif impl == "panic-order":
                n_panic_o += 1
            else:
                n_ok += 1
            graceful = m.startswith("panic") and impl is None   # a repaired `composed` may decline to locate instead of panicking
            if impl != m and not graceful:
                bad_m += 1
                ctx.disagreement("composed", f"composed on {s!r} span {a}..{b}: implementation {impl} model {m}",
                                 {"op": "compose", "src": s, "spans": [[a, b]], "impl": impl, "model": m})
            # oracle: what the property says about a span that IS inside the source
            if a <= b <= n:
                want = f"{line_col(s, a, st)[0]}:{line_col(s, a, st)[1]} {line_col(s, b, st)[0]}:{line_col(s, b, st)[1]}"
                if impl != want:
                    bad_o += 1
                    ctx.oracle_failure(None, f"location of in-bounds span {a}..{b} of {s!r} is {impl}, position is {want}",
                                       {"op": "compose", "src": s, "spans": [[a, b]], "observed": impl, "expected": want})
                else:
                    q = quoted_lines(c.get("display"))
                    l0 = line_col(s, a, st)[0]
                    src_line = line_text(s, l0)
                    if (l0 + 1) not in q or nows(q[l0 + 1]) != nows(src_line):
                        # a line made of blank text only is printed empty; still has to be there
                        bad_o += 1
                        ctx.oracle_failure(None, f"display does not quote line {l0 + 1} of {s!r} for span {a}..{b}",
                                           {"op": "compose", "src": s, "spans": [[a, b]], "display": c.get("display"), "expected_line": src_line})
            elif ("panic" not in (c or {})):
                bad_o += 1
                ctx.oracle_failure(None, f"span {a}..{b} outside {s!r} (len {n}) was composed without complaint: {impl}",
                                   {"op": "compose", "src": s, "spans": [[a, b]], "observed": impl})
        # line text: model vs oracle (the display comparison above ties the oracle to the implementation)
        for l in range(nl + 1):
            m = da[di]; di += 1
            o = line_text(s, l)
            mt = None if m == "-" else dec(m[3:])
            ot = None if o is None else o.rstrip("".join(SEPS))
            if mt != ot:
                bad_m += 1
                ctx.disagreement("lineText", f"line {l} of {s!r}: model {mt!r} oracle {ot!r}", {"src": s, "line": l, "model": mt, "oracle": ot})
    ctx.count("A:spans composed ok", n_ok); ctx.count("A:spans panic out-of-bounds", n_panic_b); ctx.count("A:spans panic label-order", n_panic_o)
    ctx.sample({"suite": "offsets", "src": "aé\nb", "spans": "all (i,j), i,j <= len+1", "compared": "b2c, location, panic kind, quoted line"})
    ctx.obligation("correspondence: charOfByte / lineCol / composed (panic kinds) / lineText = implementation on all strings "
                   f"<= {maxlen} over {len(alpha)} characters + random", bad_m == 0, f"{n_sys} systematic + {len(srcs) - n_sys} random sources, {di} model answers")
    ctx.obligation("oracle: implementation locations of in-bounds spans are their positions and the display quotes their line", bad_o == 0, "")
    return n_sys


# ---------------------------------------------------------------------------------------------
# suite B: real erroneous programs
# ---------------------------------------------------------------------------------------------
# (class, program). `@I@` marks where an infix clause `filter b != "<U>" | ` can go (same line, before the error).
CORES = [
    ("lexical", "from t | @I@select ^"),
    ("lexical", "from t | @I@filter a == 'abc"),
    ("lexical", "from t | @I@select €"),
    ("lexical", "from t | @I@select a ? b"),
    # lexer errors located at the END of the input (the span is empty and sits at the last character)
    ("lexical", "from t | @I@select `name"),
    ("lexical", "from t | @I@select r\"abc"),
    ("lexical", "from t | @I@select f\"{a"),
    ("lexical", "from t | @I@select s\"{"),
    ("lexical", "from t | @I@filter a == \"\"\"abc"),
    ("syntactic", "from t | @I@select )"),
    ("syntactic", "from t | @I@select {a,, b}"),
    ("syntactic", "from t | @I@derive x = = 2"),
    ("syntactic", "from t | @I@select {x = a | as}"),
    ("syntactic", "let = 3"),
    ("syntactic-eoi", "from t | @I@select {"),
    ("syntactic-eoi", "from t | @I@derive x = 1 + "),
    ("interp", "from t | @I@select s\"{a b}\""),
    ("interp", "from t | @I@select f\"{}\""),
    ("interp", "from t | @I@select s\"{a\""),
    ("interp-multiquote", "from t | @I@select s\"\"\"{a b}\"\"\""),
    ("interp-multiquote", "from t | @I@select f'''x{a b}'''"),
    ("interp-escape", "from t | @I@select s\"\\t{a b}\""),
    ("interp-escape", "from t | @I@select f\"\\u{e9}{a b}\""),
    ("interp-nonascii", "from t | @I@select s\"é{a b}\""),
    ("resolution", "from t | @I@select {a} | filter zz > 1"),
    ("resolution", "from t | @I@foo bar"),
    ("resolution", "from t | @I@select std.nope"),
    ("resolution", "from t | @I@join s (==id) | select {q.x}"),
    ("type", "from t | @I@take \"x\""),
    ("type", "from t | @I@filter"),
    ("type", "from t | @I@sort {a} | take 1.5"),
    ("type", "from t | @I@aggregate {sum}"),
    ("type", "from t | @I@take 1..0"),
    ("type", "from t | @I@window rows:a..2 (derive {s = sum b})"),
    ("type", "from t | @I@select {a = s\"x\"} | from_text 3"),
    ("type-std-span", "from t | @I@derive {x = case [a => 1]} | take -1"),
    ("sql", "from t | @I@select {d = (date.to_text c d)}"),
    ("sql", "from t | @I@derive {x = (a | date.to_text \"%q\")}"),
    ("sql", "prql target:sql.mssql\nfrom t | @I@derive {x = (a | date.to_text \"%q\")}"),
    ("sql-nospan", "from s\"x\""),
    ("sql-nospan", "prql target:sql.sqlite\nfrom a | @I@remove b"),
]
FILLS = ["x", "é", "€", "\U0001F600", "é€\U0001F600ß"]
PREFIXES = ["", "# @U@\n", "# @U@\r\n", "let s_ = \"@U@\"\n", "\n\n", "# @U@\u2028# y\n", "let `@U@` = 1\n\n"]


def build_cases(ctx):
    thorough = ctx.tier == "thorough"
    cases = []  # dict(cls, files, twin_files, errfile, tag)

    def add(cls, files, twin, errfile, tag):
        cases.append(dict(cls=cls, files=files, twin=twin, errfile=errfile, tag=tag))

    fills = FILLS
    for cls, core in CORES:
        has_header = core.startswith("prql ")
        for pi, pre in enumerate(PREFIXES):
            if has_header and pre:
                continue  # a header must come first
            for fi, u in enumerate(fills):
                if "@U@" not in pre and fi > 0:
                    continue
                for infix in ([False, True] if "@I@" in core else [False]):
                    if not thorough and infix and pi not in (0, 1):
                        continue
                    def mk(uu):
                        inf = f"filter b != \"{uu}\" | " if infix else ""
                        return pre.replace("@U@", uu) + core.replace("@I@", inf)
                    src, tw = mk(u), mk("x" * len(u))
                    add(cls, [["", src]], [["", tw]], "", f"single pre={pi} fill={fi} infix={int(infix)}")
    # multi-file: the error sits in one file, the decoration in that or the other one
    libs = [("lexical", "let f = x -> x + ^"), ("syntactic", "let f = x -> x + )"), ("syntactic", "let f = = 2"),
            ("interp", "let f = x -> s\"{x y}\""), ("resolution", "let g = (from t | select {a} | filter zz > 1)"),
            ("type", "let g = (from t | take \"x\")")]
    for cls, lib in libs:
        for u in fills:
            for where in ("lib", "main"):
                def mk(uu):
                    dec_ = f"# {uu}\nlet s_ = \"{uu}\"\n"
                    main = (dec_ if where == "main" else "") + "from t | select {a}"
                    l = (dec_ if where == "lib" else "") + lib
                    return [["Main.prql", main], ["lib.prql", l], ["zeta.prql", "let z = 1"]]
                add(cls, mk(u), mk("x" * len(u)), "lib.prql", f"multi err-in-lib deco-in-{where}")
    for cls, core in [c for c in CORES if c[0] in ("lexical", "syntactic", "resolution", "type", "sql", "interp")][::2]:
        if core.startswith("prql "):
            continue
        for u in fills:
            for order in (0, 1):
                def mk(uu):
                    fl = [["Main.prql", f"# {uu}\n" + core.replace("@I@", "")], ["lib.prql", f"# {uu}{uu}\nlet f = x -> x + 1"]]
                    return fl[::-1] if order else fl
                add(cls, mk(u), mk("x" * len(u)), "Main.prql", f"multi err-in-main order={order}")
    return cases


INTERP_RE = re.compile(r'but found ("(.)"|end of input)$', re.S)


def classify(kind, text, span_end_bytes, lexes, reason, src_known):
    """finding id for a failure: call site + predicate on the witness"""
    if not src_known:
        return "span-source-id-not-in-tree"
    b = text.encode("utf-8")
    nonascii_before = any(x >= 0x80 for x in b[:span_end_bytes]) if span_end_bytes is not None else any(x >= 0x80 for x in b)
    if lexes and nonascii_before and kind in ("panic-bounds", "twin", "found-text", "bounds"):
        return "nonlexer-span-bytes-as-chars"
    if kind == "found-text" and reason and INTERP_RE.search(reason):
        head = text.encode("utf-8")[:span_end_bytes].decode("utf-8", "ignore") if span_end_bytes is not None else text
        if re.search(r"[sf](\"{3,}|'{3,})[^\"']*$", head):
            return "interp-span-multiquote"
        if re.search(r"[sf][\"'][^\"']*\\[^\"']*$", head):
            return "interp-span-escape"
    return None


def suite_errors(ctx):
    cases = build_cases(ctx)
    reqs = []
    for c in cases:
        single = len(c["files"]) == 1
        reqs.append({"op": "err_tree", "files": c["files"], "single": single})
        reqs.append({"op": "err_tree", "files": c["twin"], "single": single})
    ans = vh_batch(reqs, shards=vlib.NCPU)
    dl, dmeta = [], []          # model requests
    tok_reqs, tok_meta = [], []
    stats = {"failures": 0, "model_bad": 0}

    def fail(kind, c, text, e, what, span_end_bytes, lexes, src_known=True, extra=None):
        fid = classify(kind, text, span_end_bytes, lexes, (e or {}).get("reason"), src_known)
        stats["failures"] += 1
        ctx.count(f"B:failure {kind} -> {fid or 'UNCLASSIFIED'}")
        ctx.oracle_failure(fid, what, {"op": "err_tree", "files": c["files"], "single": len(c["files"]) == 1, "class": c["cls"], "tag": c["tag"],
                                       "check": kind, "error": {k: (e or {}).get(k) for k in ("reason", "span", "location", "path")}, **(extra or {})})

    for k, c in enumerate(cases):
        a, t = ans[2 * k], ans[2 * k + 1]
        files = dict((p, s) for p, s in c["files"])
        tfiles = dict((p, s) for p, s in c["twin"])
        key = json.dumps(c["files"])
        ctx.count(f"B:class {c['cls']}")
        if "crash" in a or "garbled" in a:
            ctx.case(("err", key))
            ctx.oracle_failure(None, "process died while compiling", {"op": "err_tree", "files": c["files"], "answer": a})
            continue
        if "panic" in a:
            ctx.case(("err", key))
            m = re.search(r"span Some\((\d+):(\d+)-(\d+)\) is out of bounds of the source \(len = (\d+)\)", a["panic"])
            if m:
                sid, s0, s1, ln = map(int, m.groups())
                paths = [p for p, _ in c["files"]]
                path = paths[sid - 1] if 0 < sid <= len(paths) else None
                text = files.get(path, "")
                lexes = dict((p, ok) for p, ok in (t.get("lex_ok") or [])).get(path, True)
                fail("panic-bounds", c, text, None, f"compile panics instead of reporting the error: {a['panic']} ({a.get('at')})", s1, lexes,
                     extra={"panic": a["panic"], "at": a.get("at")})
            else:
                ctx.oracle_failure(None, f"compile panics: {a['panic']}", {"op": "err_tree", "files": c["files"], "panic": a["panic"], "at": a.get("at")})
            continue
        if "errors" not in a:
            ctx.case(("err", key), nontrivial=False)
            ctx.count("B:no error produced")
            continue
        lex_ok = dict((p, ok) for p, ok in a.get("lex_ok", []))
        terrs = t.get("errors") if isinstance(t, dict) else None
        ctx.count(f"B:stage {a['stage']}")
        for ei, e in enumerate(a["errors"]):
            ctx.case(("err", key, ei))
            sp = e.get("span")
            if len(ctx.samples) < 6 and sp and any(ord(ch) > 127 for ch in "".join(files.values())) and ei == 0 and k % 37 == 0:
                ctx.sample({"files": c["files"], "class": c["cls"], "stage": a["stage"], "reason": e["reason"][:80], "span": sp, "location": e.get("location")})
            # P1
            if not (e.get("reason") or "").strip():
                fail("empty-reason", c, "", e, "error with empty reason", None, True)
            if not sp:
                ctx.count("B:errors without span")
                continue
            ctx.count("B:errors with span")
            path = e.get("path")
            if path is None or path not in files:
                fail("foreign-source", c, "", e, f"span {sp} names source id {sp['src']} which is no file of the tree (no location, no display)", None, True, src_known=False)
                continue
            text, n = files[path], len(files[path])
            lexes = lex_ok.get(path, True)
            ebytes = len(text.encode("utf-8"))
            is_lexer_err = not lexes
            ctx.count("B:lexer errors" if is_lexer_err else f"B:{a['stage']}-stage errors (non-lexer)")
            if path != c["errfile"]:
                fail("wrong-file", c, text, e, f"error attributed to {path!r}, the erroneous file is {c['errfile']!r}", None, lexes)
            # P4 bounds / order
            if not (sp["start"] <= sp["end"] <= n):
                fail("bounds", c, text, e, f"span {sp['start']}..{sp['end']} not ordered inside the {n}-character file", sp["end"], lexes)
                continue
            # P5 location = position (oracle) ; model agreement
            want = {"start": line_col(text, sp["start"]), "end": line_col(text, sp["end"])}
            loc = e.get("location")
            if loc != want:
                fail("location", c, text, e, f"location {loc} is not the position {want} of span {sp['start']}..{sp['end']}", sp["end"], lexes)
            dl.append(f"compose\t{enc(text)}\t{sp['start']}\t{sp['end']}"); dmeta.append(("loc", c, e, lc_str(loc)))
            # P6 display quotes the line
            q = quoted_lines(e.get("display"))
            l0 = want["start"][0]
            if (l0 + 1) not in q or nows(q[l0 + 1]) != nows(line_text(text, l0)):
                fail("display", c, text, e, f"display does not quote line {l0 + 1} containing the span", sp["end"], lexes, extra={"display": e.get("display")})
            if path not in (e.get("display") or "") and path:
                fail("display-file", c, text, e, "display does not name the file", sp["end"], lexes, extra={"display": e.get("display")})
            # P7 ASCII twin: the character span must not depend on the byte width of earlier text
            te = terrs[ei] if terrs and ei < len(terrs) and len(terrs) == len(a["errors"]) else None
            if te is None or not te.get("span"):
                if "panic" not in t:
                    ctx.count("B:twin not comparable")
            else:
                tsp = te["span"]
                if (tsp["start"], tsp["end"], te.get("path")) != (sp["start"], sp["end"], path):
                    # a lexer error on a non-ASCII char has a different message but the same span; spans are what we compare
                    fail("twin", c, text, e, f"span {sp['start']}..{sp['end']} but {tsp['start']}..{tsp['end']} when the earlier non-ASCII text is replaced by ASCII of the same length",
                         sp["end"], lexes, extra={"twin_span": tsp})
            # P8 the reason names the found text: it must be the text under the span
            m = INTERP_RE.search(e["reason"])
            found = None
            if m and not is_lexer_err and a["stage"] == "parse":
                found = m.group(2) if m.group(2) is not None else ""
            ml = re.match(r"^unexpected '(.*)'$", e["reason"], re.S)
            if ml and is_lexer_err:
                found = ml.group(1)
            if found is not None:
                under = text[sp["start"]:sp["end"]]
                if under != found:
                    fail("found-text", c, text, e, f"reason says found {found!r} but the span covers {under!r}", sp["end"], lexes)
            # ties to the mirrors
            if is_lexer_err and ml:
                bs, be = len(text[:sp["start"]].encode("utf-8")), len(text[:sp["end"]].encode("utf-8"))
                dl.append(f"lexconv\t{enc(text)}\t{bs}\t{be}"); dmeta.append(("lexconv", c, e, f"{sp['start']} {sp['end']}\t{enc(e['reason'])}"))
            if not is_lexer_err and a["stage"] == "parse" and all(ord(ch) < 128 for ch in text):
                tok_reqs.append({"op": "tokens", "src": text}); tok_meta.append((c, e, text))
    # model agreement
    da = drv_batch(dl)
    for (kind, c, e, impl), m in zip(dmeta, da):
        if impl != m:
            stats["model_bad"] += 1
            ctx.disagreement("composeLocation" if kind == "loc" else "convertLexerError",
                             f"{kind}: implementation {impl!r} model {m!r} for {e['reason'][:50]!r}", {"op": "err_tree", "files": c["files"], "impl": impl, "model": m})
    # mapSpan / interpolation mirrors on ASCII parser errors
    ta = vh_batch(tok_reqs, shards=vlib.NCPU) if tok_reqs else []
    ml, mmeta = [], []
    n_range = n_interp = n_unmatched = 0
    for (c, e, text), tk in zip(tok_meta, ta):
        toks = [t for t in tk.get("ok", []) if not (isinstance(t["kind"], dict) and ("Comment" in t["kind"] or "LineWrap" in t["kind"]))]
        sp = e["span"]
        m = INTERP_RE.search(e["reason"])
        inner = [t for t in toks if isinstance(t["kind"], dict) and "Interpolation" in t["kind"] and t["span"]["start"] <= sp["start"] and sp["end"] <= t["span"]["end"]]
        if inner and "expected" in e["reason"] and m:
            t0 = inner[0]
            value = t0["kind"]["Interpolation"][1].encode("utf-8")
            a_, b_ = sp["start"] - t0["span"]["start"] - 2, sp["end"] - t0["span"]["start"] - 2
            found = (m.group(2) or "").encode("utf-8")
            n_interp += 1
            ok = 0 <= a_ <= b_ <= len(value) and value[a_:b_] == found
            repaired = text[sp["start"]:sp["end"]].encode("utf-8") == found   # behaviour that satisfies the property is accepted too
            if not ok and repaired:
                continue
            if not ok:
                stats["model_bad"] += 1
                ctx.disagreement("interpRebase", f"reported span is not token.start + 2 + (offset of the found text in the token's value): {sp} token {t0['span']}",
                                 {"op": "err_tree", "files": c["files"], "span": sp, "token": t0})
            else:
                ml.append(f"interp\t{t0['span']['start']}\t{a_}\t{b_}"); mmeta.append((c, e, f"{sp['start']} {sp['end']}"))
            continue
        starts = [i for i, t in enumerate(toks) if t["span"]["start"] == sp["start"]]
        ends = [j + 1 for j, t in enumerate(toks) if t["span"]["end"] == sp["end"]]
        cand = [(i, j) for i in starts for j in ends if i < j]
        if not cand and sp["start"] == 0 and toks and toks[-1]["span"]["end"] == sp["end"]:
            cand = [(len(toks), len(toks))]
        if not cand:
            n_unmatched += 1
            stats["model_bad"] += 1
            ctx.disagreement("mapSpan", f"parser error span {sp} is not the span of a token range", {"op": "err_tree", "files": c["files"], "span": sp, "tokens": [t["span"] for t in toks]})
            continue
        n_range += 1
        i, j = cand[0]
        ml.append("mapspan\t" + " ".join(f"{t['span']['start']}:{t['span']['end']}" for t in toks) + f"\t{i}\t{j}"); mmeta.append((c, e, f"{sp['start']} {sp['end']}"))
    for (c, e, impl), m in zip(mmeta, drv_batch(ml)):
        if impl != m:
            stats["model_bad"] += 1
            ctx.disagreement("mapSpan/interpRebase", f"implementation span {impl} model {m}", {"op": "err_tree", "files": c["files"], "impl": impl, "model": m})
    ctx.count("B:parser spans explained as token ranges", n_range); ctx.count("B:interpolation spans explained by rebasing", n_interp)
    ctx.obligation("correspondence: composeLocation / convertLexerError / mapSpan / interpRebase = implementation on the errors of the run",
                   stats["model_bad"] == 0, f"{len(dl)} locations+lexer conversions, {n_range} token ranges, {n_interp} interpolation spans")
    unknown = [v for v in ctx.violations if v["kind"] == "failing-input"]
    ctx.obligation("property on the implementation: every failure of (reason, span inside file, order, location = position, quoted line, "
                   "ASCII-twin span, found-text) is a listed finding", not unknown,
                   f"{len(cases)} programs (+ twins), {stats['failures']} failures, known hits {dict(ctx.known_hits)}")
    return len(cases)


def run(ctx):
    br = vlib.standard_proof_obligations(ctx, ["PrqlModel.Props.C13"], [],
        required_theorems=["lexer_error_span_ok", "parser_span_ok_counterexample", "parser_span_ok_partial", "interp_span_ok_partial",
                           "interp_span_ok_counterexample", "interp_span_escape_counterexample", "multi_file",
                           "mapSpan_empty_range_inverted", "mapSpan_at_end_of_input"])
    ctx.rule = ("suite A: every string up to length 3 (quick) / 4 (thorough) over {a, 2-/3-/4-byte characters, all seven ariadne line separators} plus "
                "seeded random longer strings, each with all (short strings) or sampled spans incl. inverted and out-of-bounds ones and all byte offsets; "
                "a case = (source, span) or (source, byte offsets); non-trivial = span ordered and inside a non-empty source / source has a "
                "multi-byte character. suite B: 36 erroneous cores (lexical, syntactic, end-of-input, interpolation incl. multi-quote / escapes / "
                "non-ASCII, resolution, type, SQL-generation with and without span) x prefixes (comment, CRLF, string, blank lines, U+2028, backtick "
                "name) x fills (ASCII, 2-, 3-, 4-byte, mixed) x optional same-line infix, plus 3-file trees with the error / the decoration in "
                "either file and both insertion orders; a case = one reported error; each is paired with its ASCII twin.")
    ctx.assumptions += ["which token range / byte span chumsky reports for a rejected input is not modelled; only the arithmetic applied to it",
                        "ariadne 0.5.1 line table semantics (Source::from, get_offset_line) as mirrored in Model/Text.lineCol; compared on every run"]
    if not (br.cargo_ok and br.drv_ok):
        return
    suite_offsets(ctx)
    suite_errors(ctx)
    ctx.exhaustive = False


def replay(obj):
    r = obj.get("replay", obj)
    print(json.dumps(obj, indent=1, ensure_ascii=False)[:6000])
    if r.get("op") == "err_tree":
        print(json.dumps(vh_batch([{"op": "err_tree", "files": r["files"], "single": r.get("single", False)}])[0], indent=1, ensure_ascii=False)[:4000])
    elif r.get("op") in ("compose", "b2c"):
        print(json.dumps(vh_batch([{k: v for k, v in r.items() if k in ("op", "src", "spans", "bytes")}])[0], ensure_ascii=False)[:4000])
    return 0
