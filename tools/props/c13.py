"""C13 errors are located inside the source and point at the offending text."""
import json, re, itertools
import vlib
from vlib import vh_batch, drv_batch, enc, dec

MANIFEST = dict(
    text="Lean theorems over Model/Text (mirrors of convert_lexer_error, the map_span closure of parse_lr_to_pr, the interpolation "
         "rebasing, compose_location / the location assert, ariadne's line table, SourceTree ids): lexer_error_span_ok (full), "
         "parser_span_ok (full statement kept as def; parser_span_ok_counterexample = byte offsets read as character offsets, "
         "parser_span_ok_partial = ASCII text before the span end), interp_span_ok (counterexample for multi-quote strings, partial for "
         "one quote, escape counterexample), multi_file. Tied to the code by (a) exhaustive small-scope + random comparison of "
         "offset conversion, line/column, panic behaviour and quoted line between model, implementation (ErrorMessages::composed on "
         "arbitrary spans) and an independent oracle, (b) the property itself checked on erroneous programs of every class "
         "(lexical, syntactic, interpolation, resolution, type, SQL generation) decorated with ASCII / 2- / 3- / 4-byte text and line "
         "breaks, single- and multi-file, including the ASCII-twin oracle (the reported character span must not depend on the byte "
         "width of earlier text), (c) the CONTENT oracle: when the message names a piece of source text (unexpected token / found x, Unknown "
         "name, duplicate declaration, found <literal / path>, end of input ...) the span's slice of the ORIGINAL file holds it, and (d) the "
         "trivia metamorphic oracle (the text the front end lexes is the text the spans index): inserting ignored trivia (blanks, tabs, empty "
         "lines, comments incl. multi-byte, CR / CRLF, LF->CRLF) before an error moves its span by exactly the inserted length, after it "
         "nothing moves, and a character the lexer rejects (BOM, ZWSP, NBSP, NUL, FF, U+2028, U+3000 ...) inserted where a token may start is "
         "itself the only error of that file, at its own position - for every file of single- and multi-file trees and every error stage.",
    note="which token range chumsky reports for a rejected program is not modelled (only the span arithmetic applied to it is); "
         "that lexer errors carry boundary-aligned byte spans is asserted on every lexer error of the run. Known findings: non-lexer "
         "spans are byte offsets (panic or shifted location after non-ASCII text), interpolation spans ignore extra quotes and escapes, "
         "errors raised inside std carry a span into a file that is not in the tree.",
    technique="Lean 4 proof over a text-position model + differential run against ErrorMessages::composed / compile + metamorphic ASCII-twin oracle",
    ref="4/C13")

SEPS = set("\r\n\x0b\x0c\x85\u2028\u2029")


# ---------------------------------------------------------------------------------------------
# independent oracle (declarative: a line starts after a separator that is not the \r of \r\n and not the last char)
# ---------------------------------------------------------------------------------------------
def line_starts(src):
    st = [0]
    for i, c in enumerate(src):
        if c in SEPS and not (c == "\r" and i + 1 < len(src) and src[i + 1] == "\n") and i + 1 < len(src):
            st.append(i + 1)
    return st


def line_col(src, off, st=None):
    if off > len(src):
        return None
    st = st or line_starts(src)
    l = max(k for k, s in enumerate(st) if s <= off)
    return [l, off - st[l]]


def line_text(src, l):
    st = line_starts(src)
    if l >= len(st):
        return None
    b = st[l + 1] if l + 1 < len(st) else len(src)
    return src[st[l]:b]


def nows(s):
    return "".join(s.split())


def quoted_lines(display):
    """{line number: text} of the ` N │ text` lines of an ariadne report"""
    out = {}
    for ln in (display or "").split("\n"):
        m = re.match(r"^\s*(\d+) │ ?(.*)$", ln)
        if m:
            # multi-line labels draw arrows in a margin before the text
            out.setdefault(int(m.group(1)), m.group(2).lstrip("╭─▶├│╰ "))
    return out


def lc_str(loc):
    return None if loc is None else f"{loc['start'][0]}:{loc['start'][1]} {loc['end'][0]}:{loc['end'][1]}"


# ---------------------------------------------------------------------------------------------
# suite A: arbitrary sources x arbitrary spans
# ---------------------------------------------------------------------------------------------
def suite_offsets(ctx):
    thorough = ctx.tier == "thorough"
    alpha = ["a", "é", "€", "😀", "\n", "\r", "\x0b", "\u2028", "\x85"] + (["\x0c", "\u2029"] if thorough else [])
    maxlen = 4 if thorough else 3
    srcs = [""]
    for n in range(1, maxlen + 1):
        srcs += ["".join(t) for t in itertools.product(alpha, repeat=n)]
    n_sys = len(srcs)
    rng = ctx.rng
    pool = ["a", "b", " ", "é", "ß", "€", "中", "😀", "\n", "\n", "\r\n", "\r", "\x0b", "\x0c", "\x85", "\u2028", "\u2029", "\t", "|"]
    for _ in range(4000 if thorough else 1200):
        srcs.append("".join(rng.choice(pool) for _ in range(rng.randint(4, 60))))
    vreq, dlines, meta = [], [], []
    for s in srcs:
        n, m = len(s), len(s.encode("utf-8"))
        spans = [[i, i] for i in range(0, n + 2)]
        if n <= 4:
            spans += [[i, j] for i in range(0, n + 2) for j in range(0, n + 2) if i != j]
        else:
            for _ in range(8):
                i, j = rng.randint(0, n + 1), rng.randint(0, n + 1)
                spans.append([i, j])
            spans.append([0, n])
        bytes_ = list(range(0, m + 2))
        vreq.append({"op": "compose", "src": s, "spans": spans})
        vreq.append({"op": "b2c", "src": s, "bytes": bytes_})
        dlines.append(f"b2c\t{enc(s)}\t{' '.join(map(str, bytes_))}")
        for a, b in spans:
            dlines.append(f"compose\t{enc(s)}\t{a}\t{b}")
        nl = len(line_starts(s))
        for l in range(nl + 1):
            dlines.append(f"linetext\t{enc(s)}\t{l}")
        meta.append((s, spans, bytes_, nl))
    va = vh_batch(vreq, shards=vlib.NCPU)
    da = drv_batch(dlines, shards=vlib.NCPU)
    di = 0
    bad_m, bad_o = 0, 0
    n_panic_b = n_panic_o = n_ok = 0
    for k, (s, spans, bytes_, nl) in enumerate(meta):
        comp, b2c = va[2 * k], va[2 * k + 1]
        n = len(s)
        st = line_starts(s)
        # byte -> char
        model_b2c = da[di].split(" "); di += 1
        enc_s = s.encode("utf-8")
        oracle_b2c = []
        for b in bytes_:
            try:
                oracle_b2c.append(len(enc_s[:b].decode("utf-8")) if b <= len(enc_s) else None)
            except UnicodeDecodeError:
                oracle_b2c.append(None)
        impl_b2c = b2c.get("chars")
        mod = [None if w == "-" else int(w) for w in model_b2c]
        ctx.case(("b2c", s), nontrivial=any(ord(c) > 127 for c in s))
        if impl_b2c != mod:
            bad_m += 1
            ctx.disagreement("charOfByte", f"source[..b].chars().count() differs from Model.charOfByte on {s!r}",
                             {"op": "b2c", "src": s, "bytes": bytes_, "impl": impl_b2c, "model": mod})
        if impl_b2c != oracle_b2c:
            bad_o += 1
            ctx.oracle_failure(None, f"byte->char conversion wrong on {s!r}", {"op": "b2c", "src": s, "impl": impl_b2c, "expected": oracle_b2c})
        # compose
        model_lines = {}
        for (a, b), c in zip(spans, comp.get("composed", [None] * len(spans))):
            m = da[di]; di += 1
            ctx.case(("compose", s, a, b), nontrivial=(a <= b <= n and n > 0))
            if c is None:
                impl = "crash"
            elif "panic" in c:
                impl = "panic-bounds" if "out of bounds of the source" in c["panic"] else ("panic-order" if "Label start is after its end" in c["panic"] else "panic-other:" + c["panic"])
            else:
                impl = lc_str(c.get("location"))
            if impl == "panic-bounds":
                n_panic_b += 1
            elif impl == "panic-order":
                n_panic_o += 1
            else:
                n_ok += 1
            graceful = m.startswith("panic") and impl is None   # a repaired `composed` may decline to locate instead of panicking
            if impl != m and not graceful:
                bad_m += 1
                ctx.disagreement("composed", f"composed on {s!r} span {a}..{b}: implementation {impl} model {m}",
                                 {"op": "compose", "src": s, "spans": [[a, b]], "impl": impl, "model": m})
            # oracle: what the property says about a span that IS inside the source
            if a <= b <= n:
                want = f"{line_col(s, a, st)[0]}:{line_col(s, a, st)[1]} {line_col(s, b, st)[0]}:{line_col(s, b, st)[1]}"
                if impl != want:
                    bad_o += 1
                    ctx.oracle_failure(None, f"location of in-bounds span {a}..{b} of {s!r} is {impl}, position is {want}",
                                       {"op": "compose", "src": s, "spans": [[a, b]], "observed": impl, "expected": want})
                else:
                    q = quoted_lines(c.get("display"))
                    l0 = line_col(s, a, st)[0]
                    src_line = line_text(s, l0)
                    if (l0 + 1) not in q or nows(q[l0 + 1]) != nows(src_line):
                        # a line made of blank text only is printed empty; still has to be there
                        bad_o += 1
                        ctx.oracle_failure(None, f"display does not quote line {l0 + 1} of {s!r} for span {a}..{b}",
                                           {"op": "compose", "src": s, "spans": [[a, b]], "display": c.get("display"), "expected_line": src_line})
            elif ("panic" not in (c or {})):
                bad_o += 1
                ctx.oracle_failure(None, f"span {a}..{b} outside {s!r} (len {n}) was composed without complaint: {impl}",
                                   {"op": "compose", "src": s, "spans": [[a, b]], "observed": impl})
        # line text: model vs oracle (the display comparison above ties the oracle to the implementation)
        for l in range(nl + 1):
            m = da[di]; di += 1
            o = line_text(s, l)
            mt = None if m == "-" else dec(m[3:])
            ot = None if o is None else o.rstrip("".join(SEPS))
            if mt != ot:
                bad_m += 1
                ctx.disagreement("lineText", f"line {l} of {s!r}: model {mt!r} oracle {ot!r}", {"src": s, "line": l, "model": mt, "oracle": ot})
    ctx.count("A:spans composed ok", n_ok); ctx.count("A:spans panic out-of-bounds", n_panic_b); ctx.count("A:spans panic label-order", n_panic_o)
    ctx.sample({"suite": "offsets", "src": "aé\nb", "spans": "all (i,j), i,j <= len+1", "compared": "b2c, location, panic kind, quoted line"})
    ctx.obligation("correspondence: charOfByte / lineCol / composed (panic kinds) / lineText = implementation on all strings "
                   f"<= {maxlen} over {len(alpha)} characters + random", bad_m == 0, f"{n_sys} systematic + {len(srcs) - n_sys} random sources, {di} model answers")
    ctx.obligation("oracle: implementation locations of in-bounds spans are their positions and the display quotes their line", bad_o == 0, "")
    return n_sys


# ---------------------------------------------------------------------------------------------
# suite B: real erroneous programs
# ---------------------------------------------------------------------------------------------
# (class, program). `@I@` marks where an infix clause `filter b != "<U>" | ` can go (same line, before the error).
CORES = [
    ("lexical", "from t | @I@select ^"),
    ("lexical", "from t | @I@filter a == 'abc"),
    ("lexical", "from t | @I@select €"),
    ("lexical", "from t | @I@select a ? b"),
    # lexer errors located at the END of the input (the span is empty and sits at the last character)
    ("lexical", "from t | @I@select `name"),
    ("lexical", "from t | @I@select r\"abc"),
    ("lexical", "from t | @I@select f\"{a"),
    ("lexical", "from t | @I@select s\"{"),
    ("lexical", "from t | @I@filter a == \"\"\"abc"),
    ("syntactic", "from t | @I@select )"),
    ("syntactic", "from t | @I@select {a,, b}"),
    ("syntactic", "from t | @I@derive x = = 2"),
    ("syntactic", "from t | @I@select {x = a | as}"),
    ("syntactic", "let = 3"),
    ("syntactic-eoi", "from t | @I@select {"),
    ("syntactic-eoi", "from t | @I@derive x = 1 + "),
    ("interp", "from t | @I@select s\"{a b}\""),
    ("interp", "from t | @I@select f\"{}\""),
    ("interp", "from t | @I@select s\"{a\""),
    ("interp-multiquote", "from t | @I@select s\"\"\"{a b}\"\"\""),
    ("interp-multiquote", "from t | @I@select f'''x{a b}'''"),
    ("interp-escape", "from t | @I@select s\"\\t{a b}\""),
    ("interp-escape", "from t | @I@select f\"\\u{e9}{a b}\""),
    ("interp-nonascii", "from t | @I@select s\"é{a b}\""),
    ("resolution", "from t | @I@select {a} | filter zz > 1"),
    ("resolution", "from t | @I@foo bar"),
    ("resolution", "from t | @I@select std.nope"),
    ("resolution", "from t | @I@join s (==id) | select {q.x}"),
    ("type", "from t | @I@take \"x\""),
    ("type", "from t | @I@filter"),
    ("type", "from t | @I@sort {a} | take 1.5"),
    ("type", "from t | @I@aggregate {sum}"),
    ("type", "from t | @I@take 1..0"),
    ("type", "from t | @I@window rows:a..2 (derive {s = sum b})"),
    ("type", "from t | @I@select {a = s\"x\"} | from_text 3"),
    ("type-std-span", "from t | @I@derive {x = case [a => 1]} | take -1"),
    ("sql", "from t | @I@select {d = (date.to_text c d)}"),
    ("sql", "from t | @I@derive {x = (a | date.to_text \"%q\")}"),
    ("sql", "prql target:sql.mssql\nfrom t | @I@derive {x = (a | date.to_text \"%q\")}"),
    ("sql", "prql target:sql.duckdb\nfrom t | @I@derive {x = (a | date.to_text \"é%_j\")}"),
    ("sql", "prql target:sql.duckdb\nfrom t | @I@derive {x = (a | date.to_text \"\\\"I\\\" of %d day %_j\")}"),
    ("sql", "prql target:sql.duckdb\nfrom t | @I@derive {x = (a | date.to_text r\"%d-%_j\")}"),
    ("sql-nospan", "from s\"x\""),
    ("sql-nospan", "prql target:sql.sqlite\nfrom a | @I@remove b"),
]
FILLS = ["x", "é", "€", "\U0001F600", "é€\U0001F600ß"]
PREFIXES = ["", "# @U@\n", "# @U@\r\n", "let s_ = \"@U@\"\n", "\n\n", "# @U@\u2028# y\n", "let `@U@` = 1\n\n"]


def build_cases(ctx):
    thorough = ctx.tier == "thorough"
    cases = []  # dict(cls, files, twin_files, errfile, tag)

    def add(cls, files, twin, errfile, tag):
        cases.append(dict(cls=cls, files=files, twin=twin, errfile=errfile, tag=tag))

    fills = FILLS
    for cls, core in CORES:
        has_header = core.startswith("prql ")
        for pi, pre in enumerate(PREFIXES):
            if has_header and pre:
                continue  # a header must come first
            for fi, u in enumerate(fills):
                if "@U@" not in pre and fi > 0:
                    continue
                for infix in ([False, True] if "@I@" in core else [False]):
                    if not thorough and infix and pi not in (0, 1):
                        continue
                    def mk(uu):
                        inf = f"filter b != \"{uu}\" | " if infix else ""
                        return pre.replace("@U@", uu) + core.replace("@I@", inf)
                    src, tw = mk(u), mk("x" * len(u))
                    add(cls, [["", src]], [["", tw]], "", f"single pre={pi} fill={fi} infix={int(infix)}")
    # multi-file: the error sits in one file, the decoration in that or the other one
    libs = [("lexical", "let f = x -> x + ^"), ("syntactic", "let f = x -> x + )"), ("syntactic", "let f = = 2"),
            ("interp", "let f = x -> s\"{x y}\""), ("resolution", "let g = (from t | select {a} | filter zz > 1)"),
            ("type", "let g = (from t | take \"x\")")]
    for cls, lib in libs:
        for u in fills:
            for where in ("lib", "main"):
                def mk(uu):
                    dec_ = f"# {uu}\nlet s_ = \"{uu}\"\n"
                    main = (dec_ if where == "main" else "") + "from t | select {a}"
                    l = (dec_ if where == "lib" else "") + lib
                    return [["Main.prql", main], ["lib.prql", l], ["zeta.prql", "let z = 1"]]
                add(cls, mk(u), mk("x" * len(u)), "lib.prql", f"multi err-in-lib deco-in-{where}")
    for cls, core in [c for c in CORES if c[0] in ("lexical", "syntactic", "resolution", "type", "sql", "interp")][::2]:
        if core.startswith("prql "):
            continue
        for u in fills:
            for order in (0, 1):
                def mk(uu):
                    fl = [["Main.prql", f"# {uu}\n" + core.replace("@I@", "")], ["lib.prql", f"# {uu}{uu}\nlet f = x -> x + 1"]]
                    return fl[::-1] if order else fl
                add(cls, mk(u), mk("x" * len(u)), "Main.prql", f"multi err-in-main order={order}")
    return cases


INTERP_RE = re.compile(r'but found ("(.)"|end of input)$', re.S)


def classify(kind, text, span_end_bytes, lexes, reason, src_known, byte_reading=False):
    """finding id for a failure: call site + predicate on the witness.
    byte_reading (kinds `content` / `shift` only): the reported span, read as BYTE offsets, is exactly right (it holds the named text /
    it is the byte image of the expected character span) - the signature of the byte-offset defect and of nothing else."""
    if not src_known:
        return "span-source-id-not-in-tree"
    b = text.encode("utf-8")
    nonascii_before = any(x >= 0x80 for x in b[:span_end_bytes]) if span_end_bytes is not None else any(x >= 0x80 for x in b)
    if lexes and nonascii_before and kind in ("panic-bounds", "twin", "found-text", "bounds"):
        return "nonlexer-span-bytes-as-chars"
    if lexes and nonascii_before and kind in ("content", "shift") and byte_reading:
        return "nonlexer-span-bytes-as-chars"
    if kind == "found-text" and reason and INTERP_RE.search(reason):
        head = text.encode("utf-8")[:span_end_bytes].decode("utf-8", "ignore") if span_end_bytes is not None else text
        if re.search(r"[sf](\"{3,}|'{3,})[^\"']*$", head):
            return "interp-span-multiquote"
        if re.search(r"[sf][\"'][^\"']*\\[^\"']*$", head):
            return "interp-span-escape"
    return None


# ---------------------------------------------------------------------------------------------
# CONTENT oracle: the reported position must HOLD the text the message talks about
# ---------------------------------------------------------------------------------------------
def named_text(reason, stage):
    """(relation, X) when `reason` names a piece of source text, else None. Relations:
       eq        the span's text is X                      eq-bt    ... up to backticks
       token     X is the Display of a token (keyword / new line / punctuation / identifier)
       lastseg   X is a resolved path (this.t.a): its last segment is the last segment of the span's text
       literal   X is a literal as printed (quotes may differ)
       word      the span's text contains X as a word      suffix   ... contains a dotted suffix of X
       format-spec  the span is the format literal or begins at a `%` specifier
       lex-eoi   empty span at the end of the file         parse-eoi  nothing but trivia after the span end"""
    r = reason or ""
    if r == "unexpected end of input":
        return ("lex-eoi", "")
    m = re.match(r"^unexpected '(.*)'$", r, re.S)
    if m and stage == "parse":
        return ("eq", m.group(1))
    if stage == "parse":
        if re.match(r"^Expected .* but didn't find anything before the end\.$", r, re.S):
            return ("parse-eoi", "")
        m = INTERP_RE.search(r)
        if m:
            return ("eq", m.group(2) or "")
        m = re.match(r"^(?:unexpected|expected .*?,? but found) (.+)$", r, re.S)
        if m:
            return ("token", m.group(1))
        return None
    m = re.match(r"^Unknown (?:name|relation) (.+)$", r, re.S)
    if m:
        return ("eq-bt", m.group(1))
    m = re.match(r"^duplicate declarations of (\S+)$", r)
    if m:
        return ("word", m.group(1))
    m = re.match(r"^`([\w.]+)` only supports", r)
    if m:
        return ("suffix", m.group(1))
    if r.startswith("PRQL doesn't support this format specifier"):
        return ("format-spec", "")
    m = re.match(r"^unexpected `.*internal ([\w.]+)`$", r, re.S)
    if m:
        return ("lastseg", m.group(1))
    m = re.search(r"but found (.+)$", r, re.S)
    if m and not m.group(1).startswith("type "):
        x = m.group(1).strip("`")
        if x.startswith("internal "):
            return None     # a function of std, not user text
        if re.match(r"^-?\d+(\.\d+)?$", x) or x[:1] in "\"'":
            return ("literal", x)
        if re.match(r"^[A-Za-z_$][\w.$]*$", x):
            return ("lastseg", x)
        return ("word", x)
    return None


def content_holds(rel, x, text, s, e):
    """does the character span s..e of text hold what the message names?"""
    if not (0 <= s <= e <= len(text)):
        return False
    under = text[s:e]
    if rel == "lex-eoi":
        return s == e == len(text)
    if rel == "parse-eoi":
        return e > 0 and re.sub(r"#[^\n]*", "", text[e:]).strip() == ""
    if rel == "eq":
        return under == x
    if rel == "eq-bt":
        return under.replace("`", "") == x.replace("`", "")
    if rel == "token":
        if under == x:
            return True
        if x == "new line":
            return under in ("\n", "\r\n", "\r")
        if x.startswith("keyword "):
            return under == x[8:]
        if re.match(r"^([^\w\s\"'#]+|[A-Za-z_][\w.]*)$", x):
            return False
        return None     # literals, comments, interpolations are printed in a normal form: not judged
    if rel == "lastseg":
        return re.sub(r"[()`\s]", "", under).split(".")[-1] == x.split(".")[-1]
    if rel == "literal":
        return under.strip("\"'") == x.strip("\"'")
    if rel == "word":
        return re.search(r"(?<![\w.])" + re.escape(x) + r"(?![\w])", under) is not None
    if rel == "format-spec":
        # "this format specifier": the whole format literal (it begins at its quote / raw prefix) or a stretch that begins AT a specifier
        return under[:1] == "%" or under.lstrip("rR")[:1] in ("\"", "'")
    if rel == "suffix":
        parts = x.split(".")
        return any(".".join(parts[i:]) in under for i in range(len(parts)))
    return None


def byte_reading(text, s, e):
    """the character span that byte offsets s..e denote (None when not on character boundaries)"""
    b = text.encode("utf-8")
    if not (0 <= s <= e <= len(b)):
        return None
    try:
        return len(b[:s].decode("utf-8")), len(b[:e].decode("utf-8"))
    except UnicodeDecodeError:
        return None


def content_check(reason, stage, text, sp):
    """None = the message names no text / not judged; else (ok, relation, X, ok_when_read_as_bytes)"""
    nt = named_text(reason, stage)
    if nt is None:
        return None
    ok = content_holds(nt[0], nt[1], text, sp["start"], sp["end"])
    if ok is None:
        return None
    br = byte_reading(text, sp["start"], sp["end"])
    return ok, nt[0], nt[1], bool(br and content_holds(nt[0], nt[1], text, br[0], br[1]))


def suite_errors(ctx):
    cases = build_cases(ctx)
    reqs = []
    for c in cases:
        single = len(c["files"]) == 1
        reqs.append({"op": "err_tree", "files": c["files"], "single": single})
        reqs.append({"op": "err_tree", "files": c["twin"], "single": single})
    ans = vh_batch(reqs, shards=vlib.NCPU)
    dl, dmeta = [], []          # model requests
    tok_reqs, tok_meta = [], []
    stats = {"failures": 0, "model_bad": 0}

    def fail(kind, c, text, e, what, span_end_bytes, lexes, src_known=True, extra=None, byte_reading=False):
        fid = classify(kind, text, span_end_bytes, lexes, (e or {}).get("reason"), src_known, byte_reading)
        stats["failures"] += 1
        ctx.count(f"B:failure {kind} -> {fid or 'UNCLASSIFIED'}")
        ctx.oracle_failure(fid, what, {"op": "err_tree", "files": c["files"], "single": len(c["files"]) == 1, "class": c["cls"], "tag": c["tag"],
                                       "check": kind, "error": {k: (e or {}).get(k) for k in ("reason", "span", "location", "path")}, **(extra or {})})

    for k, c in enumerate(cases):
        a, t = ans[2 * k], ans[2 * k + 1]
        files = dict((p, s) for p, s in c["files"])
        tfiles = dict((p, s) for p, s in c["twin"])
        key = json.dumps(c["files"])
        ctx.count(f"B:class {c['cls']}")
        if "crash" in a or "garbled" in a:
            ctx.case(("err", key))
            ctx.oracle_failure(None, "process died while compiling", {"op": "err_tree", "files": c["files"], "answer": a})
            continue
        if "panic" in a:
            ctx.case(("err", key))
            m = re.search(r"span Some\((\d+):(\d+)-(\d+)\) is out of bounds of the source \(len = (\d+)\)", a["panic"])
            if m:
                sid, s0, s1, ln = map(int, m.groups())
                paths = [p for p, _ in c["files"]]
                path = paths[sid - 1] if 0 < sid <= len(paths) else None
                text = files.get(path, "")
                lexes = dict((p, ok) for p, ok in (t.get("lex_ok") or [])).get(path, True)
                fail("panic-bounds", c, text, None, f"compile panics instead of reporting the error: {a['panic']} ({a.get('at')})", s1, lexes,
                     extra={"panic": a["panic"], "at": a.get("at")})
            else:
                ctx.oracle_failure(None, f"compile panics: {a['panic']}", {"op": "err_tree", "files": c["files"], "panic": a["panic"], "at": a.get("at")})
            continue
        if "errors" not in a:
            ctx.case(("err", key), nontrivial=False)
            ctx.count("B:no error produced")
            continue
        lex_ok = dict((p, ok) for p, ok in a.get("lex_ok", []))
        terrs = t.get("errors") if isinstance(t, dict) else None
        ctx.count(f"B:stage {a['stage']}")
        for ei, e in enumerate(a["errors"]):
            ctx.case(("err", key, ei))
            sp = e.get("span")
            if len(ctx.samples) < 6 and sp and any(ord(ch) > 127 for ch in "".join(files.values())) and ei == 0 and k % 37 == 0:
                ctx.sample({"files": c["files"], "class": c["cls"], "stage": a["stage"], "reason": e["reason"][:80], "span": sp, "location": e.get("location")})
            # P1
            if not (e.get("reason") or "").strip():
                fail("empty-reason", c, "", e, "error with empty reason", None, True)
            if not sp:
                ctx.count("B:errors without span")
                continue
            ctx.count("B:errors with span")
            path = e.get("path")
            if path is None or path not in files:
                fail("foreign-source", c, "", e, f"span {sp} names source id {sp['src']} which is no file of the tree (no location, no display)", None, True, src_known=False)
                continue
            text, n = files[path], len(files[path])
            lexes = lex_ok.get(path, True)
            ebytes = len(text.encode("utf-8"))
            is_lexer_err = not lexes
            ctx.count("B:lexer errors" if is_lexer_err else f"B:{a['stage']}-stage errors (non-lexer)")
            if path != c["errfile"]:
                fail("wrong-file", c, text, e, f"error attributed to {path!r}, the erroneous file is {c['errfile']!r}", None, lexes)
            # P4 bounds / order
            if not (sp["start"] <= sp["end"] <= n):
                fail("bounds", c, text, e, f"span {sp['start']}..{sp['end']} not ordered inside the {n}-character file", sp["end"], lexes)
                continue
            # P5 location = position (oracle) ; model agreement
            want = {"start": line_col(text, sp["start"]), "end": line_col(text, sp["end"])}
            loc = e.get("location")
            if loc != want:
                fail("location", c, text, e, f"location {loc} is not the position {want} of span {sp['start']}..{sp['end']}", sp["end"], lexes)
            dl.append(f"compose\t{enc(text)}\t{sp['start']}\t{sp['end']}"); dmeta.append(("loc", c, e, lc_str(loc)))
            # P6 display quotes the line
            q = quoted_lines(e.get("display"))
            l0 = want["start"][0]
            if (l0 + 1) not in q or nows(q[l0 + 1]) != nows(line_text(text, l0)):
                fail("display", c, text, e, f"display does not quote line {l0 + 1} containing the span", sp["end"], lexes, extra={"display": e.get("display")})
            if path not in (e.get("display") or "") and path:
                fail("display-file", c, text, e, "display does not name the file", sp["end"], lexes, extra={"display": e.get("display")})
            # P7 ASCII twin: the character span must not depend on the byte width of earlier text
            te = terrs[ei] if terrs and ei < len(terrs) and len(terrs) == len(a["errors"]) else None
            if te is None or not te.get("span"):
                if "panic" not in t:
                    ctx.count("B:twin not comparable")
            else:
                tsp = te["span"]
                if (tsp["start"], tsp["end"], te.get("path")) != (sp["start"], sp["end"], path):
                    # a lexer error on a non-ASCII char has a different message but the same span; spans are what we compare
                    fail("twin", c, text, e, f"span {sp['start']}..{sp['end']} but {tsp['start']}..{tsp['end']} when the earlier non-ASCII text is replaced by ASCII of the same length",
                         sp["end"], lexes, extra={"twin_span": tsp})
            # P8 the reason names the found text: it must be the text under the span
            m = INTERP_RE.search(e["reason"])
            found = None
            if m and not is_lexer_err and a["stage"] == "parse":
                found = m.group(2) if m.group(2) is not None else ""
            ml = re.match(r"^unexpected '(.*)'$", e["reason"], re.S)
            if ml and is_lexer_err:
                found = ml.group(1)
            if found is not None:
                under = text[sp["start"]:sp["end"]]
                if under != found:
                    fail("found-text", c, text, e, f"reason says found {found!r} but the span covers {under!r}", sp["end"], lexes)
            else:
                # P9 CONTENT: every other message that names a piece of source text - the span must hold it
                cc = content_check(e["reason"], a["stage"], text, sp)
                if cc is None:
                    ctx.count("B:content oracle: message names no text")
                else:
                    ctx.count(f"B:content oracle applied ({cc[1]})")
                    if not cc[0]:
                        fail("content", c, text, e, f"reason names {cc[2]!r} ({cc[1]}) but the span {sp['start']}..{sp['end']} covers {text[sp['start']:sp['end']]!r}",
                             sp["end"], lexes, byte_reading=cc[3])
            # ties to the mirrors
            if is_lexer_err and ml:
                bs, be = len(text[:sp["start"]].encode("utf-8")), len(text[:sp["end"]].encode("utf-8"))
                dl.append(f"lexconv\t{enc(text)}\t{bs}\t{be}"); dmeta.append(("lexconv", c, e, f"{sp['start']} {sp['end']}\t{enc(e['reason'])}"))
            if not is_lexer_err and a["stage"] == "parse" and all(ord(ch) < 128 for ch in text):
                tok_reqs.append({"op": "tokens", "src": text}); tok_meta.append((c, e, text))
    # model agreement
    da = drv_batch(dl)
    for (kind, c, e, impl), m in zip(dmeta, da):
        if impl != m:
            stats["model_bad"] += 1
            ctx.disagreement("composeLocation" if kind == "loc" else "convertLexerError",
                             f"{kind}: implementation {impl!r} model {m!r} for {e['reason'][:50]!r}", {"op": "err_tree", "files": c["files"], "impl": impl, "model": m})
    # mapSpan / interpolation mirrors on ASCII parser errors
    ta = vh_batch(tok_reqs, shards=vlib.NCPU) if tok_reqs else []
    ml, mmeta = [], []
    n_range = n_interp = n_unmatched = 0
    for (c, e, text), tk in zip(tok_meta, ta):
        toks = [t for t in tk.get("ok", []) if not (isinstance(t["kind"], dict) and ("Comment" in t["kind"] or "LineWrap" in t["kind"]))]
        sp = e["span"]
        m = INTERP_RE.search(e["reason"])
        inner = [t for t in toks if isinstance(t["kind"], dict) and "Interpolation" in t["kind"] and t["span"]["start"] <= sp["start"] and sp["end"] <= t["span"]["end"]]
        if inner and "expected" in e["reason"] and m:
            t0 = inner[0]
            value = t0["kind"]["Interpolation"][1].encode("utf-8")
            a_, b_ = sp["start"] - t0["span"]["start"] - 2, sp["end"] - t0["span"]["start"] - 2
            found = (m.group(2) or "").encode("utf-8")
            n_interp += 1
            ok = 0 <= a_ <= b_ <= len(value) and value[a_:b_] == found
            repaired = text[sp["start"]:sp["end"]].encode("utf-8") == found   # behaviour that satisfies the property is accepted too
            if not ok and repaired:
                continue
            if not ok:
                stats["model_bad"] += 1
                ctx.disagreement("interpRebase", f"reported span is not token.start + 2 + (offset of the found text in the token's value): {sp} token {t0['span']}",
                                 {"op": "err_tree", "files": c["files"], "span": sp, "token": t0})
            else:
                ml.append(f"interp\t{t0['span']['start']}\t{a_}\t{b_}"); mmeta.append((c, e, f"{sp['start']} {sp['end']}"))
            continue
        starts = [i for i, t in enumerate(toks) if t["span"]["start"] == sp["start"]]
        ends = [j + 1 for j, t in enumerate(toks) if t["span"]["end"] == sp["end"]]
        cand = [(i, j) for i in starts for j in ends if i < j]
        if not cand and sp["start"] == 0 and toks and toks[-1]["span"]["end"] == sp["end"]:
            cand = [(len(toks), len(toks))]
        if not cand:
            n_unmatched += 1
            stats["model_bad"] += 1
            ctx.disagreement("mapSpan", f"parser error span {sp} is not the span of a token range", {"op": "err_tree", "files": c["files"], "span": sp, "tokens": [t["span"] for t in toks]})
            continue
        n_range += 1
        i, j = cand[0]
        ml.append("mapspan\t" + " ".join(f"{t['span']['start']}:{t['span']['end']}" for t in toks) + f"\t{i}\t{j}"); mmeta.append((c, e, f"{sp['start']} {sp['end']}"))
    for (c, e, impl), m in zip(mmeta, drv_batch(ml)):
        if impl != m:
            stats["model_bad"] += 1
            ctx.disagreement("mapSpan/interpRebase", f"implementation span {impl} model {m}", {"op": "err_tree", "files": c["files"], "impl": impl, "model": m})
    ctx.count("B:parser spans explained as token ranges", n_range); ctx.count("B:interpolation spans explained by rebasing", n_interp)
    ctx.obligation("correspondence: composeLocation / convertLexerError / mapSpan / interpRebase = implementation on the errors of the run",
                   stats["model_bad"] == 0, f"{len(dl)} locations+lexer conversions, {n_range} token ranges, {n_interp} interpolation spans")
    unknown = [v for v in ctx.violations if v["kind"] == "failing-input"]
    ctx.obligation("property on the implementation: every failure of (reason, span inside file, order, location = position, quoted line, "
                   "ASCII-twin span, found-text) is a listed finding", not unknown,
                   f"{len(cases)} programs (+ twins), {stats['failures']} failures, known hits {dict(ctx.known_hits)}")
    return len(cases)


# ---------------------------------------------------------------------------------------------
# suite C: the text the front end lexes is the text the spans index (trivia metamorphic + content)
# ---------------------------------------------------------------------------------------------
# `¦` = a top-level pipe, rendered ` | ` (one line) or as a line break (one transform per line)
TRIV_BASES = [
    ("lexical", "from t ¦ select ^"),
    ("lexical", "from t ¦ filter a == 'abc"),
    ("lexical", "from t ¦ select a ? b"),
    ("lexical-eoi", "from t ¦ select `name"),
    ("lexical-eoi", "from t ¦ select f\"{a"),
    ("syntactic", "from t ¦ select )"),
    ("syntactic", "from t ¦ select {a,, b}"),
    ("syntactic", "from t ¦ derive x = = 2"),
    ("syntactic", "from t ¦ select {x = a | as}"),
    ("syntactic", "from t ¦ sort (-)"),
    ("syntactic", "from t ¦ select {a let}"),
    ("syntactic", "from t ¦ select {a = 1 ?? }"),
    ("syntactic", "let = 3"),
    ("syntactic", "let f = = 2\nfrom t ¦ take 1"),
    ("syntactic", "let x = 1\nlet y = \nfrom t ¦ take 1"),
    ("syntactic-eoi", "from t ¦ select {"),
    ("syntactic-eoi", "from t ¦ derive x = 1 + "),
    ("interp", "from t ¦ select s\"{a b}\""),
    ("interp", "from t ¦ select f\"{}\""),
    ("resolution", "from t ¦ select {a} ¦ filter zz > 1"),
    ("resolution", "from t ¦ foo bar"),
    ("resolution", "from t ¦ select std.nope"),
    ("resolution", "from t ¦ join s (==id) ¦ select {q.x}"),
    ("resolution", "from t ¦ join s (==id) ¦ select id"),
    ("resolution", "from t ¦ derive {x = s.*}"),
    ("resolution", "from t ¦ select (f 1 2)"),
    ("resolution", "from t ¦ group {a} (aggregate {sum b} | zz)"),
    ("resolution", "let x = 1\nlet x = 2\nfrom t ¦ take 1"),
    ("resolution", "module m {let a = 1}\nfrom t ¦ select m.b"),
    ("type", "from t ¦ take \"x\""),
    ("type", "from t ¦ filter"),
    ("type", "from t ¦ sort {a} ¦ take 1.5"),
    ("type", "from t ¦ aggregate {sum}"),
    ("type", "from t ¦ take 1..0"),
    ("type", "from t ¦ take 5 ¦ take (a)"),
    ("type", "from t ¦ window rows:a..2 (derive {s = sum b})"),
    ("type", "from t ¦ window rolling:x (derive {s = sum b})"),
    ("type", "from t ¦ select {a = s\"x\"} ¦ from_text 3"),
    ("type", "from t ¦ loop 3"),
    ("type", "from t ¦ filter [1,2]"),
    ("type", "from t ¦ derive {x = (a | as)}"),
    ("type-std-span", "from t ¦ derive {x = case [a => 1]} ¦ take -1"),
    ("lowering", "from t ¦ derive {c = case [a == 1 => {1}]}"),
    ("lowering", "from t ¦ aggregate {x = min {a, b}}"),
    ("sql", "from t ¦ select {d = (date.to_text c d)}"),
    ("sql", "from t ¦ derive {x = (a | date.to_text \"%q\")}"),
    ("sql", "prql target:sql.mssql\nfrom t ¦ derive {x = (a | date.to_text \"%q\")}"),
    ("sql", "prql target:sql.duckdb\nfrom t ¦ derive {x = (a | date.to_text \"€%d é%_j\")}"),
    ("sql", "prql target:sql.duckdb\nfrom t ¦ derive {x = (a | date.to_text \"\\t%d\\t%_j\")}"),
]
# multi-file trees: (class, [(path, template)], file holding the error)
TRIV_TREES = [
    ("lexical", [("Main.prql", "from t ¦ select {a}"), ("lib.prql", "let z = 1\nlet f = x -> x + ^"), ("zeta.prql", "let z = 1")], "lib.prql"),
    ("syntactic", [("Main.prql", "from t ¦ select {a}"), ("lib.prql", "let z = 1\nlet f = x -> x + )"), ("zeta.prql", "let z = 1")], "lib.prql"),
    ("interp", [("Main.prql", "from t ¦ select {a}"), ("lib.prql", "let f = x -> s\"{x y}\"")], "lib.prql"),
    ("resolution", [("Main.prql", "from t ¦ select {a}"), ("lib.prql", "let z = 1\nlet g = (from t | select {a} | filter zz > 1)"), ("zeta.prql", "let z = 1")], "lib.prql"),
    ("type", [("Main.prql", "from t ¦ select {a}"), ("lib.prql", "let g = (from t | take \"x\")")], "lib.prql"),
    ("sql", [("Main.prql", "from lib.g ¦ take 3"), ("lib.prql", "let z = 1\nlet g = (from t | select {d = (date.to_text c d)})")], "lib.prql"),
    ("resolution", [("Main.prql", "from t ¦ select {a} ¦ filter zz > 1"), ("lib.prql", "let f = x -> x + 1\nlet g = 2")], "Main.prql"),
    ("resolution", [("lib.prql", "let f = x -> x + 1\nlet g = 2"), ("Main.prql", "from t ¦ select {lib.nope}")], "Main.prql"),
    ("syntactic", [("lib.prql", "let f = x -> x + 1"), ("Main.prql", "from t ¦ select )")], "Main.prql"),
    ("lexical", [("Main.prql", "from t ¦ select ^"), ("lib.prql", "let f = x -> x + 1")], "Main.prql"),
    ("type", [("Main.prql", "from t ¦ sort {a} ¦ take 1.5"), ("lib.prql", "let f = x -> x + 1")], "Main.prql"),
    ("sql", [("Main.prql", "from t ¦ select {d = (date.to_text c d)}"), ("lib.prql", "let f = x -> x + 1")], "Main.prql"),
]
TRIV_INLINE = [" ", "\t", "  \t "]
TRIV_LINE = ["\n", "\r\n", "# c\n", "#\r\n", "   \n", "\t# c\r\n", "\n\n\n", "\r", "# \xe9\n", "# \u20ac\U0001F600\r\n", "# e\u0301\n"]
TRIV_END = ["  ", "\n", "\n# c\n", "\r\n\t"]
# characters the lexer rejects wherever a token may start: the (only) error is about THAT character, at its position
TRIV_REJECTED = ["\ufeff", "\u200b", "\xa0", "\x00", "\x0c", "\u2028", "\u3000"]
TRIV_REJECTED_MORE = ["\x0b", "\x85", "\u2003", "\u2029", "\x7f", "\xad", "\u2060"]


def render_tpl(tpl, style):
    """-> (text, inline insertion points, line insertion points); insertion points are token boundaries outside any token"""
    out, inline = "", [0]
    for i, part in enumerate(tpl.split(" ¦ ")):
        if i:
            out += " | " if style == 0 else "\n"
            inline.append(len(out))
        out += part
    line = [0] + [i + 1 for i, ch in enumerate(out) if ch == "\n" and i + 1 < len(out)]
    inline = sorted(set(inline + line))
    return out, inline, line


def shift_span(sp, edits):
    """image of the character span under insertions [(pos, text)] (no edit lies inside the span; an edit AT an empty span is not generated)"""
    s, e = sp
    return (s + sum(len(t) for p, t in edits if p <= s), e + sum(len(t) for p, t in edits if p < e or (p <= s and s == e)))


def apply_edits(text, edits):
    out, last = "", 0
    for p, t in sorted(edits, key=lambda x: x[0]):
        out += text[last:p] + t
        last = p
    return out + text[last:]


def suite_trivia(ctx):
    thorough = ctx.tier == "thorough"
    rng = ctx.rng
    # ---- bases
    bases = []   # dict(cls, files=[[path, text]], inline={path: [...]}, line={path: [...]}, single, errfile)
    for cls, tpl in TRIV_BASES:
        for style in ((0, 1) if " ¦ " in tpl else (0,)):
            text, inl, lin = render_tpl(tpl, style)
            bases.append(dict(cls=cls, files=[["", text]], inline={"": inl}, line={"": lin}, single=True, errfile="", style=style))
    for cls, fl, errfile in TRIV_TREES:
        for style in (0, 1):
            files, inline, line = [], {}, {}
            for p, tpl in fl:
                text, inl, lin = render_tpl(tpl, style)
                files.append([p, text]); inline[p] = inl; line[p] = lin
            bases.append(dict(cls=cls, files=files, inline=inline, line=line, single=False, errfile=errfile, style=style))
    bans = vh_batch([{"op": "err_tree", "files": b["files"], "single": b["single"]} for b in bases], shards=vlib.NCPU)
    stats = {"failures": 0, "bases": 0, "variants": 0, "unlisted": 0}

    def fail(kind, b, files, path, e, what, span_end, lexes, extra=None, byte_reading=False, src_known=True):
        text = dict((p, s) for p, s in files).get(path, "")
        fid = classify(kind, text, span_end, lexes, (e or {}).get("reason"), src_known, byte_reading)
        stats["failures"] += 1
        if not (fid and fid in ctx.known):
            stats["unlisted"] += 1
        ctx.count(f"C:failure {kind} -> {fid or 'UNCLASSIFIED'}")
        ctx.oracle_failure(fid, what, {"op": "err_tree", "files": files, "single": b["single"], "class": b["cls"], "check": kind,
                                       "error": {k: (e or {}).get(k) for k in ("reason", "span", "location", "path")}, **(extra or {})})

    def judge_errors(b, files, a, lex_ok):
        """structural + content oracle on every error of one answer; -> list of (reason, path, start, end) or None (panic / no errors)"""
        fmap = dict((p, s) for p, s in files)
        if "crash" in a or "garbled" in a:
            stats["unlisted"] += 1
            ctx.oracle_failure(None, "process died while compiling", {"op": "err_tree", "files": files, "single": b["single"], "answer": a})
            return None
        if "panic" in a:
            m = re.search(r"span Some\((\d+):(\d+)-(\d+)\) is out of bounds of the source \(len = (\d+)\)", a["panic"])
            if m:
                sid, s0, s1, ln = map(int, m.groups())
                paths = [p for p, _ in files]
                path = paths[sid - 1] if 0 < sid <= len(paths) else None
                fail("panic-bounds", b, files, path, None, f"compile panics instead of reporting the error: {a['panic']} ({a.get('at')})", s1,
                     lex_ok.get(path, True), extra={"panic": a["panic"], "at": a.get("at")})
            else:
                stats["unlisted"] += 1
                ctx.oracle_failure(None, f"compile panics: {a['panic']}", {"op": "err_tree", "files": files, "single": b["single"], "panic": a["panic"], "at": a.get("at")})
            return None
        if "errors" not in a:
            return []
        out = []
        for e in a["errors"]:
            sp, path = e.get("span"), e.get("path")
            if not sp:
                out.append((e["reason"], None, None, None)); continue
            if path is None or path not in fmap:
                fail("foreign-source", b, files, "", e, f"span {sp} names source id {sp['src']} which is no file of the tree", None, True, src_known=False)
                out.append((e["reason"], None, sp["start"], sp["end"])); continue
            out.append((e["reason"], path, sp["start"], sp["end"]))
            text = fmap[path]; lexes = lex_ok.get(path, True)
            if not (sp["start"] <= sp["end"] <= len(text)):
                fail("bounds", b, files, path, e, f"span {sp['start']}..{sp['end']} not ordered inside the {len(text)}-character file", sp["end"], lexes)
                continue
            want = {"start": line_col(text, sp["start"]), "end": line_col(text, sp["end"])}
            if e.get("location") != want:
                fail("location", b, files, path, e, f"location {e.get('location')} is not the position {want} of the span", sp["end"], lexes)
            q = quoted_lines(e.get("display")); l0 = want["start"][0]
            # (ASCII control characters of the source - NUL, DEL ... - are not printed by the renderer: compared up to those)
            vis = lambda z: "".join(ch for ch in nows(z) if ch >= " " and ch != "\x7f")
            if (l0 + 1) not in q or vis(q[l0 + 1]) != vis(line_text(text, l0)):
                fail("display", b, files, path, e, f"display does not quote line {l0 + 1} containing the span", sp["end"], lexes, extra={"display": e.get("display")})
            cc = content_check(e["reason"], a["stage"], text, sp)
            if cc is None:
                ctx.count("C:content oracle: message names no text")
            else:
                ctx.count(f"C:content oracle applied ({cc[1]})")
                if not cc[0]:
                    fail("content", b, files, path, e, f"reason names {cc[2]!r} ({cc[1]}) but the span {sp['start']}..{sp['end']} covers {text[sp['start']:sp['end']]!r}",
                         sp["end"], lexes, byte_reading=cc[3])
        return out

    # ---- base answers: must be errors, on ASCII text, satisfying the oracles themselves
    variants = []   # (base index, files, kind, edited path, edits, expectation)
    for bi, (b, a) in enumerate(zip(bases, bans)):
        lex_ok = dict((p, ok) for p, ok in (a.get("lex_ok") or []))
        b["lex_ok"] = lex_ok
        errs = judge_errors(b, b["files"], a, lex_ok)
        b["errs"] = errs
        ctx.case(("triv-base", json.dumps(b["files"])), nontrivial=bool(errs))
        if not errs:
            ctx.count("C:base without error (not used)")
            continue
        stats["bases"] += 1
        ctx.count(f"C:base class {b['cls']} stage {a['stage']}")
        for path, text in b["files"]:
            mine = [x for x in errs if x[1] == path]
            first = min([x[2] for x in mine], default=None)
            is_eoi = lambda x: named_text(x[0], a["stage"]) is not None and named_text(x[0], a["stage"])[0] == "parse-eoi"
            def allowed(p):
                return all(is_eoi(x) or p < x[2] or (p == x[2] and x[2] < x[3]) for x in mine)
            inl = [p for p in b["inline"][path] if allowed(p)]
            lin = [p for p in b["line"][path] if allowed(p)]
            # the start of the offending text itself, when it stands after a blank
            if first is not None and first > 0 and text[first - 1] == " " and allowed(first) and first not in inl:
                inl.append(first)
            for t in TRIV_INLINE:
                for p in inl:
                    variants.append((bi, path, "ignored", [(p, t)]))
            for t in TRIV_LINE:
                for p in lin:
                    variants.append((bi, path, "ignored", [(p, t)]))
            for t in TRIV_REJECTED + (TRIV_REJECTED_MORE if thorough else []):
                for p in inl:
                    variants.append((bi, path, "rejected", [(p, t)]))
            # after the error: nothing moves (not for errors AT the end of the input)
            if all(not is_eoi(x) and not (x[2] == x[3] == len(text)) for x in mine):
                for t in TRIV_END:
                    variants.append((bi, path, "ignored", [(len(text), t)]))
            # LF -> CRLF everywhere
            nl = [i for i, ch in enumerate(text) if ch == "\n"]
            if nl:
                variants.append((bi, path, "ignored", [(i, "\r") for i in nl]))
            b.setdefault("pos", {})[path] = (inl, lin)
    # random compositions of ignored trivia over all files of a base
    usable = [bi for bi, b in enumerate(bases) if b.get("errs")]
    for _ in range(3000 if thorough else 500):
        bi = rng.choice(usable); b = bases[bi]
        path = rng.choice([p for p, _ in b["files"]])
        inl, lin = b["pos"][path]
        edits, used = [], set()
        for _ in range(rng.randint(2, 4)):
            if lin and rng.random() < 0.5:
                p, t = rng.choice(lin), "".join(rng.choice(TRIV_LINE[:8]) for _ in range(rng.randint(1, 2)))
            elif inl:
                p, t = rng.choice(inl), rng.choice(TRIV_INLINE)
            else:
                continue
            if p in used:
                continue
            used.add(p); edits.append((p, t))
        if edits:
            variants.append((bi, path, "ignored", sorted(edits)))
    reqs, vfiles = [], []
    for bi, path, kind, edits in variants:
        b = bases[bi]
        files = [[p, apply_edits(s, edits) if p == path else s] for p, s in b["files"]]
        vfiles.append(files)
        reqs.append({"op": "err_tree", "files": files, "single": b["single"]})
    vans = vh_batch(reqs, shards=vlib.NCPU)
    for (bi, path, kind, edits), files, a in zip(variants, vfiles, vans):
        b = bases[bi]
        stats["variants"] += 1
        ins = "".join(t for _, t in edits)
        ctx.case(("triv", json.dumps(files)), nontrivial=True)
        ctx.count(f"C:variant {kind}" + (" multi-byte" if any(ord(ch) > 127 for ch in ins) and kind == "ignored" else "") + ("" if b["single"] else " (tree)"))
        # an ignored insertion does not change whether a file lexes; a rejected one is judged as a lexer error
        lex_ok = dict(b["lex_ok"])
        if kind == "rejected":
            lex_ok[path] = False
        got = judge_errors(b, files, a, lex_ok)
        if got is None:
            continue
        newtext = dict((p, s) for p, s in files)[path]
        stage = a.get("stage")
        if kind == "rejected":
            p, t = edits[0]
            want = (f"unexpected '{t}'", path, p, p + 1)
            mine = [x for x in got if x[1] == path]
            others = [x for x in got if x[1] != path]
            if mine != [want] or any(x not in b["errs"] for x in others):
                stats["failures"] += 1; stats["unlisted"] += 1
                ctx.count("C:failure rejected-trivia -> UNCLASSIFIED")
                ctx.oracle_failure(None, f"U+{ord(t):04X} inserted at offset {p} of {path!r} (where a token may start) is rejected by the lexer: the errors of that file "
                                   f"must be exactly {want}, got {got} (errors without the insertion: {b['errs']})",
                                   {"op": "err_tree", "files": files, "single": b["single"], "class": b["cls"], "check": "rejected-trivia", "inserted": [p, t],
                                    "expected": want, "observed": got, "base": b["files"], "base_errors": b["errs"]})
            continue
        # ignored trivia: same errors, spans of the edited file moved by exactly the inserted length
        want = []
        for x in b["errs"]:
            if x[1] != path or x[2] is None:
                want.append(x); continue
            nt = named_text(x[0], "parse")
            if nt and nt[0] == "parse-eoi":
                want.append((x[0], x[1], None, None)); continue      # whole-input span: judged by the content oracle
            if any(x[2] < p < x[3] or (p == x[2] and t == "\r") for p, t in edits):
                want.append((x[0], x[1], None, None)); ctx.count("C:span with an edit inside (not compared)"); continue
            s2, e2 = shift_span((x[2], x[3]), edits)
            want.append((x[0], x[1], s2, e2))
        def blur(x, w):
            return (x[0], x[1], None, None) if w[2] is None and w[1] is not None else x
        ok = len(got) == len(want) and sorted(map(str, [blur(g, w) for g, w in zip(sorted(got, key=str), sorted(want, key=str))])) == sorted(map(str, want))
        if not ok:
            # alignment by (reason, path) for the classification
            br_ok, span_end, e0 = False, None, None
            if len(got) == len(want):
                br_ok = True
                for g, w in zip(sorted(got, key=lambda x: (x[0], str(x[1]))), sorted(want, key=lambda x: (x[0], str(x[1])))):
                    if g[:2] != w[:2]:
                        br_ok = False; break
                    if w[2] is None or g[2:] == w[2:]:
                        continue
                    tb = len(newtext[:w[2]].encode("utf-8")), len(newtext[:w[3]].encode("utf-8"))
                    if g[1] != path or (g[2], g[3]) != tb:
                        br_ok = False; break
                    span_end = max(span_end or 0, g[3])
                    e0 = {"reason": g[0], "path": g[1], "span": {"start": g[2], "end": g[3]}}
            fail("shift", b, files, path, e0, f"inserting {ins!r} ({len(ins)} characters of ignored trivia, edits {edits}) into {path!r} must move the spans of that file "
                 f"by exactly the inserted length and change nothing else: expected {want}, got {got}", span_end, b["lex_ok"].get(path, True),
                 extra={"edits": edits, "expected": want, "observed": got, "base": b["files"], "base_errors": b["errs"]}, byte_reading=br_ok and span_end is not None)
    ctx.count("C:bases", stats["bases"]); ctx.count("C:variants", stats["variants"])
    ctx.sample({"suite": "trivia", "base": "from t | select {a} | filter zz > 1", "variant": "\\ufefffrom t | ...", "expected": "exactly: unexpected '\\ufeff' at 0..1",
                "variant2": "# c\\nfrom t | ...", "expected2": "Unknown name `zz` at 33..35 (29..31 + 4)"})
    ctx.obligation("property on the implementation (trivia): inserting ignored trivia (blanks, tabs, empty lines, comments incl. multi-byte, CR / CRLF) before an error moves "
                   "its span by exactly the inserted length, after it moves nothing; a rejected character (BOM, ZWSP, NBSP, NUL, FF, U+2028, U+3000) is itself "
                   "the error at its own position; the span holds the text the message names; every failure is a listed finding", stats["unlisted"] == 0,
                   f"{stats['bases']} erroneous bases (single files and trees), {stats['variants']} variants, {stats['failures']} failures, {stats['unlisted']} not listed")
    return stats["variants"]


def run(ctx):
    br = vlib.standard_proof_obligations(ctx, ["PrqlModel.Props.C13"], [],
        required_theorems=["lexer_error_span_ok", "parser_span_ok_counterexample", "parser_span_ok_partial", "interp_span_ok_partial",
                           "interp_span_ok_counterexample", "interp_span_escape_counterexample", "multi_file",
                           "mapSpan_empty_range_inverted", "mapSpan_at_end_of_input"])
    ctx.rule = ("suite A: every string up to length 3 (quick) / 4 (thorough) over {a, 2-/3-/4-byte characters, all seven ariadne line separators} plus "
                "seeded random longer strings, each with all (short strings) or sampled spans incl. inverted and out-of-bounds ones and all byte offsets; "
                "a case = (source, span) or (source, byte offsets); non-trivial = span ordered and inside a non-empty source / source has a "
                "multi-byte character. suite B: 36 erroneous cores (lexical, syntactic, end-of-input, interpolation incl. multi-quote / escapes / "
                "non-ASCII, resolution, type, SQL-generation with and without span, also INSIDE a format literal behind non-ASCII text / escapes / a raw prefix) x prefixes (comment, CRLF, string, blank lines, U+2028, backtick "
                "name) x fills (ASCII, 2-, 3-, 4-byte, mixed) x optional same-line infix, plus 3-file trees with the error / the decoration in "
                "either file and both insertion orders; a case = one reported error; each is paired with its ASCII twin. suite C: 47 erroneous ASCII cores "
                "(every stage incl. lowering) in one-line and one-transform-per-line layout + 12 two-/three-file trees; every file x every insertion point "
                "(start of file, after a top-level pipe, start of a line, start of the offending text, end of file) x 3 inline / 11 line / 4 trailing "
                "ignored trivia, 7 (thorough 14) rejected characters, LF->CRLF, + seeded random compositions of 2-4 insertions; a case = one variant.")
    ctx.assumptions += ["which token range / byte span chumsky reports for a rejected input is not modelled; only the arithmetic applied to it",
                        "ariadne 0.5.1 line table semantics (Source::from, get_offset_line) as mirrored in Model/Text.lineCol; compared on every run"]
    if not (br.cargo_ok and br.drv_ok):
        return
    suite_offsets(ctx)
    suite_errors(ctx)
    suite_trivia(ctx)
    ctx.exhaustive = False


def replay(obj):
    if obj.get("kind") in ("no-failing-input-found", "correspondence") or obj.get("correspondence"):
        return vlib.replay_correspondence(obj)
    r = obj.get("replay", obj)
    print(json.dumps(obj, indent=1, ensure_ascii=False)[:6000])
    if r.get("op") == "err_tree":
        print(json.dumps(vh_batch([{"op": "err_tree", "files": r["files"], "single": r.get("single", False)}])[0], indent=1, ensure_ascii=False)[:4000])
    elif r.get("op") in ("compose", "b2c"):
        print(json.dumps(vh_batch([{k: v for k, v in r.items() if k in ("op", "src", "spans", "bytes")}])[0], ensure_ascii=False)[:4000])
    return 0
