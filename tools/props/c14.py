"""C14 formatting preserves the program and is idempotent."""
import glob, json, os, re, time
import vlib
import c14grid
from vlib import vh_batch, drv_batch, enc, dec
import exprgen as G

MANIFEST = dict(
    text="Lean theorems over tables regenerated from codegen/ast.rs, pr/ident.rs, lexer/lr.rs and parser/expr.rs: fmt_parse_roundtrip "
         "(second instance of the generic precedence round trip: the parentheses the formatter omits are exactly those the Pratt parser "
         "regroups, decided over the two extracted tables and lifted to every depth; unary/binary adjacency via can_bind_left), "
         "literal_roundtrip (partials + counterexamples: mixed quotes, floats without fraction), ident_roundtrip (counterexample: keyword "
         "identifiers are printed bare; partial), fmt_idempotent on the operator fragment. Ties: the formatter model fmtExpr is compared "
         "with the real formatter on every operator triple, on folding cases and on random trees; every generated source (all literal "
         "kinds, backtick identifiers, named arguments, nested pipelines, functions, modules, annotations, long lines) and every "
         "integration query is formatted by the real formatter, re-parsed (same PL tree modulo spans), compiled (same SQL) and formatted again "
         "(unchanged); the same oracle runs over two seed-independent grids: every written literal form over an adversarial alphabet (all string "
         "kinds incl. s-/f-string text fragments, numbers, dates, identifiers, ranges) and every parenthesis-deciding position x every expression "
         "shape (one and two levels, bare and parenthesised, short and long lines), with a ledger of the inputs that fail on the recorded tree.",
    note="line breaking is width arithmetic and is covered by the differential run only; the Lean model is the single-line form. "
         "f64 Display is modelled for decimals with few digits.",
    technique="Lean 4 proofs over regenerated formatter / parser tables + differential formatting run", ref="4/C14")

LEAF = ("col", "null", "int", "bool", "float", "str")
KEYWORDS = ["let", "into", "case", "prql", "type", "module", "internal", "func", "import", "enum"]


def strip_spans(v):
    if isinstance(v, dict):
        return {k: strip_spans(x) for k, x in v.items() if k not in ("span", "doc_comment")}
    if isinstance(v, list):
        return [strip_spans(x) for x in v]
    return v


def first_diff(a, b, path=""):
    """path and the two differing sub-values of two JSON values"""
    if type(a) != type(b):
        return path, a, b
    if isinstance(a, dict):
        for k in sorted(set(a) | set(b)):
            if k not in a or k not in b:
                return path + "/" + k, a.get(k), b.get(k)
            d = first_diff(a[k], b[k], path + "/" + k)
            if d:
                return d
        return None
    if isinstance(a, list):
        if len(a) != len(b):
            return path + "/len", a, b
        for i, (x, y) in enumerate(zip(a, b)):
            d = first_diff(x, y, f"{path}/{i}")
            if d:
                return d
        return None
    return None if a == b else (path, a, b)


def node_at(tree, path):
    """the sub-value of a JSON value at a first_diff path (None if the path leaves the value)"""
    v = tree
    for seg in [x for x in path.split("/") if x]:
        if isinstance(v, dict) and seg in v:
            v = v[seg]
        elif isinstance(v, list) and seg.isdigit() and int(seg) < len(v):
            v = v[int(seg)]
        else:
            return None
    return v


def walk(v):
    yield v
    if isinstance(v, dict):
        for x in v.values():
            yield from walk(x)
    elif isinstance(v, list):
        for x in v:
            yield from walk(x)


VALID_IDENT = re.compile(r"^(?:\*|[a-zA-Z_$][a-zA-Z0-9_$]*)$")        # codegen/ast.rs valid_prql_ident (tied by Gen/Fmt + display_tie)


def name_findings(tree, formatted):
    """known defects of NAME positions the formatter writes without `write_ident_part`, judged on the original tree AND on the
    offending rendering being present in the formatted text: [finding id]"""
    out = []
    for n in walk(tree):
        if not isinstance(n, dict):
            continue
        fc = n.get("FuncCall")
        if isinstance(fc, dict):
            for k in (fc.get("named_args") or {}):
                if (not VALID_IDENT.match(k) or k in KEYWORDS) and re.search(r"(?:^|[\s(\[{|])" + re.escape(k) + ":", formatted):
                    out.append("fmt-named-arg-name-not-quoted")
        for kind in ("VarDef", "ModuleDef", "TypeDef"):
            d = n.get(kind)
            if isinstance(d, dict) and isinstance(d.get("name"), str):
                k = d["name"]
                kw = {"VarDef": "let|into", "ModuleDef": "module", "TypeDef": "type"}[kind]
                if (not VALID_IDENT.match(k) or k in KEYWORDS + ["true", "false", "null"]) and re.search(r"(?m)^\s*(?:" + kw + ") " + re.escape(k) + r"(?: |$)", formatted):
                    out.append("fmt-definition-name-not-quoted")
        # `*` passes valid_prql_ident (meant for `t.*`), so a NAME spelled `*` is written bare where only an identifier may stand
        star = [n.get("alias") == "*"] + [isinstance(n.get(k), dict) and n[k].get("name") == "*" for k in ("VarDef", "ModuleDef", "TypeDef")]
        if isinstance(n.get("Func"), dict):
            star += [q.get("name") == "*" for k in ("params", "named_params") for q in n["Func"].get(k) or []]
        if isinstance(n.get("FuncCall"), dict):
            star += ["*" in (n["FuncCall"].get("named_args") or {})]
        if any(star) and re.search(r"(?:^|[\s{(,])\*(?: =|:| )", formatted):
            out.append("fmt-star-name-printed-bare")
        for kind in ("SString", "FString"):
            for it in n.get(kind) or []:
                e = it.get("Expr") if isinstance(it, dict) else None
                parts = ((e or {}).get("expr") or {}).get("Ident") if e else None
                for part in parts or []:
                    # written bare by write_ident_part, but the interpolation grammar reads only [alpha _][alnum _]* or backticks
                    if VALID_IDENT.match(part) and part not in KEYWORDS and not re.match(r"^[^\W\d]\w*$", part) and re.search(r"\{[^{}`]*" + re.escape(part) + r"[^{}`]*\}", formatted):
                        out.append("fmt-interpolation-ident-printed-bare")
    return out


def operand_children(n):
    """(role, child) for the operand positions of one PL node"""
    if not isinstance(n, dict):
        return
    for kind, roles in (("Binary", ("left", "right")), ("Unary", ("expr",)), ("Range", ("start", "end")), ("FuncCall", ("name",))):
        d = n.get(kind)
        if isinstance(d, dict):
            for r in roles:
                if isinstance(d.get(r), dict):
                    yield kind, r, d[r]
    for v in ((n.get("FuncCall") or {}).get("named_args") or {}).values() if isinstance(n.get("FuncCall"), dict) else ():
        if isinstance(v, dict):
            yield "FuncCall", "named", v


def structure_findings(tree, formatted):
    """known defects of the unchanged formatter that drop parentheses, judged on the ORIGINAL tree (used only for a source whose
    formatted text fails the round trip): [finding id]"""
    out = []
    for n in walk(tree):
        for kind, role, c in operand_children(n):
            if c.get("alias") is not None:
                out.append("fmt-alias-on-operand-not-parenthesised")        # `(k = a) + 1` is written `k = a + 1`
            while kind == "Range" and role == "start" and isinstance(c.get("Unary"), dict) and isinstance(c["Unary"].get("expr"), dict):
                c = c["Unary"]["expr"]              # `(-($1))..c`: the parameter is still the last token before `..`
            if kind == "Range" and role == "start" and "Param" in c and re.search(r"\$\w+\.\.", formatted):
                out.append("fmt-param-range-start-merges")                   # `($1)..c` is written `$1..c`, lexed as the parameter `1..c`
        f = n.get("Func") if isinstance(n, dict) else None
        inner = [x.get(k) for x in (n.get("Case") or []) if isinstance(x, dict) for k in ("condition", "value")] if isinstance(n, dict) and isinstance(n.get("Case"), list) else []
        if isinstance(f, dict):
            inner.append(f.get("body"))
        if any(isinstance(x, dict) and "Func" in x for x in inner):
            out.append("fmt-lambda-in-case-or-body-not-parenthesised")       # `case [(func x -> x) => c]`, `func x -> (func y -> x)` lose the parentheses
        if isinstance(f, dict):
            for q in f.get("named_params") or []:
                dv = q.get("default_value")
                if isinstance(dv, dict) and (set(dv) & {"FuncCall", "Func", "Binary", "Unary", "Range"} or dv.get("alias") is not None):
                    out.append("fmt-named-param-default-not-parenthesised")  # `func x n:(g 1) -> x` is written `func x n:g 1 -> x`
    return out


# -------------------------------------------------------------------------------------------------
# statement-level sources
# -------------------------------------------------------------------------------------------------

INT_LITS = ["0", "7", "42", "1_000", "0x1F", "0b101", "0o17", "9223372036854775807"]
FLOAT_LITS = ["1.5", "0.25", "2.0", "1e3", "1.5e-3", "3.14159", "1_0.5", "100000.0"]
STR_LITS = ['"abc"', "'abc'", '"it\'s"', "'say \"hi\"'", '"a\\nb"', '"tab\\there"', '"back\\\\slash"', '"uni\\u{e9}"', '"é✓"', "''", '""',
            '"""a"b"""', "'''a'b'''", '"\'a\\""', '"q\'\'q\\"\\"q"', "r'raw\\n'", 'r"raw"', '"{brace}"', '"x" ', '"a\\"b\'c"']
OTHER_LITS = ["true", "false", "null", "@2020-01-31", "@12:30:05", "@2020-01-31T12:30:05", "@2020-01-31T12:30:05Z", "2days", "3hours", "10years",
              "1..5", "..5", "1..", "[1, 2, 3]", "[]", "{a, b}", '{x = 1, `y z` = 2}', 's"a{b}c"', 'f"a{b}c"', 's"{{lit}}"', "$1", "$name"]
IDENTS = ["`true`", "`null`", "a", "b_c", "t.a", "`a b`", "`x-y`", "t.`a b`", "`select`", "_x", "this.a", "`let`", "`import`", "`case`", "`module`", "`enum`", "`func`", "`type`"]
TRANSFORMS = [
    "select {a, b}", "select {x = a + 1, `y z` = b}", "derive {c = a * 2}", "derive c = a - b", "filter a > 1 && b != null", "filter (a | in 1..5)",
    "sort {a, -b}", "sort a", "take 5", "take 2..4", "group {a} (aggregate {s = sum b, n = count this})", "group a (take 1)",
    "group {a, b} (sort c | take 2)", "aggregate {m = max a}", "join u (==id)", "join side:left u (t.id == u.id)", "join side:full x=u (==id)",
    "window rows:-1..1 (derive {m = average b})", "window expanding:true (derive {r = sum b})", "append u", "select !{a}", "derive {d = case [a > 1 => 'x', true => 'y']}",
    "derive {e = math.round 2 a, f = (b | math.abs)}", "derive {g = f\"{a}-{b}\", h = s\"UPPER({a})\"}", "filter !(a == b || c)", "derive x = -a", "derive {y = a ?? 0}",
    "derive {z = (a | as int)}", "select {t.*}", "loop (filter a < 3 | select {a = a + 1})",
]
LONG = ("select {first_long_column_name, second_long_column_name, third_long_column_name, fourth_long_column_name, fifth_long_column_name}",
        "derive {total_amount_with_everything = first_long_column_name * second_long_column_name + third_long_column_name - (fourth_long_column_name / fifth_long_column_name)}",
        "filter first_long_column_name > 10 && second_long_column_name < 20 && (third_long_column_name == 'a fairly long string literal' || fourth_long_column_name != null)",
        "group {first_long_column_name, second_long_column_name} (aggregate {sum_of_third = sum third_long_column_name, count_of_rows = count this})")


def statement_sources(rng, n):
    out = []
    # systematic: every literal and identifier alone, as an alias value, as an operand
    for l in INT_LITS + FLOAT_LITS + STR_LITS + OTHER_LITS:
        out.append(("literal", f"let x = {l}"))
        out.append(("literal", f"from t | derive {{v = {l}}}"))
    for l in INT_LITS + FLOAT_LITS:
        out.append(("literal", f"let x = -{l} + {l} * 2"))
    for i in IDENTS:
        out.append(("ident", f"from t | select {{{i}}}"))
        out.append(("ident", f"from t | derive {{{i.split('.')[-1]} = 1}}"))
        out.append(("ident", f"let f = {i.split('.')[-1]} -> {i.split('.')[-1]} + 1"))
    for t in TRANSFORMS + list(LONG):
        out.append(("transform", "from t | " + t))
    out += [("func", "let f = a b -> a + b\nfrom t | derive {c = f a b}"),
            ("func", "let f = a b:2 -> a * b\nfrom t | derive {c = f b:3 a, d = (f a)}"),
            ("func", "let f = func a <int> b <int>:1 -> <int> a + b"),
            ("func", "let g = x -> (x | math.abs | math.round 1)\nfrom t | select {y = g a}"),
            ("func", "let f = rel -> (rel | filter a > 1 | take 3)\nfrom t | f"),
            ("module", "module m {\n  let x = 1\n  let f = y -> y + x\n}\nfrom t | derive {z = m.f a}"),
            ("module", "module outer {\n  module inner {\n    let k = 5\n  }\n}\nfrom t | derive {z = outer.inner.k}"),
            ("annotation", "@{binding_strength=11}\nlet mul = a b -> a * b"),
            ("annotation", "@{a=1, b='x'}\nlet y = 2\n@{c=true}\nlet z = 3"),
            ("header", "prql target:sql.sqlite\nfrom t | take 1"),
            ("header", "prql version:\"0.13\" target:sql.postgres\n\nfrom t"),
            ("let", "let top = (from t | sort a | take 10)\nfrom top | select {a}"),
            ("let", "from t | select {a} | into result"),
            ("let", "let arr = [{a = 1, b = 'x'}, {a = 2, b = 'y'}]\nfrom arr"),
            ("type", "type my_int = int"),
            ("import", "module m {\n  let x = 1\n}\nimport m.x"),
            ("import", "module m {\n  let x = 1\n}\nimport y = m.x"),
            ("nested", "from t | join (from u | filter b > 1 | select {id, b}) (==id) | select {t.a, b}"),
            ("nested", "from t | derive {x = (a | math.abs | math.round 2), y = ((b + 1) * 2 | math.sqrt)}"),
            ("comment", "# leading comment\nfrom t # trailing\n| select {a} # another"),
            ("doc", "#! doc comment\nlet x = 1"),
            ("wrap", "from t\n| select {\n    a,\n    b,\n  }\n| take \\\n  5")]
    # targeted: ranges, unary operators and calls as operands / arguments
    for e in ["a + (b | in 1..(2 ** c))", "a ** (b | in 1..(2 ** c))", "(1..(2 ** c)) ** 2", "a - (1..(b - c))", "f (-a) (+b) (!c) (==d)", "f (a..b) (-1..2)",
              "(f a)..(g b)", "-(a..b)", "case [a => f b, true => (c | g)]", "f (case [a => 1])", "(a + b | f)", "{a = -b, c = (d | f)}", "f x:(a + 1) (g 1)",
              "f x:1 y:2 z:3 a", "a ?? (b ?? c)", "(a ~= 'x') == true", "f (a == b) c", "(func a -> a + 1) 2", "f (g (h a))", "a && (b | in 1..)", "-(2 ** 3)", "(-2) ** 3",
              "!(!a)", "[1, -2, (3 | f)]", "1..(-2)", "(-1)..2", "f - 1", "t.a + `t u`.`b c`", "a.b.c.`d e`", "(a | f | g b) + 1", "f (a | g)", "-(f a)", "(f a) ** 2", "2 ** (f a)"]:
        out.append(("targeted", "let x = " + e))
    for t in ["sort {-a, +b}", "sort (-a)", "take (-1)..", "select (a)", "select {(a), (b + 1)}", "filter (a | in (b - 1)..(c ** 2))", "derive {x = a - -b, y = a--b}"]:
        out.append(("targeted", "from t | " + t))
    # random pipelines
    for _ in range(n):
        k = rng.randint(1, 5)
        ts = [rng.choice(TRANSFORMS) for _ in range(k)]
        if rng.random() < 0.25:
            ts.insert(rng.randrange(len(ts) + 1), rng.choice(LONG))
        src = "from t | " + " | ".join(ts)
        if rng.random() < 0.3:
            src = src.replace(" | ", "\n", rng.randint(1, 3))
        if rng.random() < 0.3:
            e = G.random_tree(rng, rng.randint(2, 4))
            src += " | derive {rnd = " + G.full_paren(e) + "}"
        if rng.random() < 0.2:
            src = f"let v = {rng.choice(INT_LITS + FLOAT_LITS + STR_LITS)}\n" + src
        out.append(("random", src))
    return out


def classify_ast_diff(src, d, tree=None, formatted=""):
    """known-finding id for a first AST difference (path, original value, value after formatting); tree = the original PL"""
    path, a, b = d
    if tree is not None:
        parent = node_at(tree, path.rsplit("/", 1)[0])
        pl_ = parent.get("Literal") if isinstance(parent, dict) else None
        if isinstance(pl_, dict) and isinstance(pl_.get("String"), str) and "'" in pl_["String"] and '"' in pl_["String"] and a is None:
            return "fmt-string-mixed-quotes"            # the literal came back as several tokens (a call of strings)
        if isinstance(pl_, dict) and "Float" in pl_ and a is None and path.endswith("/Ident") and b == ["inf"]:
            return "fmt-float-overflow-printed-inf"
        segs = path.split("/")
        sub = tree
        for i in range(len(segs), 0, -1):
            if segs[i - 1] in ("FuncCall", "SString", "FString"):
                sub = node_at(tree, "/".join(segs[:i - 1]))
                break
        nf = name_findings(sub, formatted)
        if nf:
            return nf[0]
        # dropped parentheses: the defect must sit in the subtree that changed (walk up to the nearest enclosing node that shows it)
        if path.endswith("/alias") and isinstance(a, str) and b is None and len(segs) >= 3 and (segs[-2] in ("left", "right", "expr", "start", "end", "name") or segs[-3] == "named_args") \
                and "fmt-alias-on-operand-not-parenthesised" in structure_findings(node_at(tree, "/".join(segs[:-3])), formatted):
            return "fmt-alias-on-operand-not-parenthesised"
        for i in range(len(segs), 0, -1):
            if segs[i - 1] == "Func":
                sf = structure_findings({"Func": {k: v for k, v in (node_at(tree, "/".join(segs[:i])) or {}).items() if k == "named_params"}}, formatted)
                if "fmt-named-param-default-not-parenthesised" in sf and "named_params" in segs[i:i + 1]:
                    return "fmt-named-param-default-not-parenthesised"
        if re.search(r"\$\w+\.\.", formatted):
            for i in range(len(segs) - 1, max(len(segs) - 4, 0), -1):
                if "fmt-param-range-start-merges" in structure_findings(node_at(tree, "/".join(segs[:i])), formatted):
                    return "fmt-param-range-start-merges"

    def mixed_strings(x):
        """string literals with both quote kinds anywhere inside the original subtree"""
        if isinstance(x, dict):
            l_ = x.get("Literal")
            if isinstance(l_, dict) and isinstance(l_.get("String"), str) and "'" in l_["String"] and '"' in l_["String"]:
                return True
            return any(mixed_strings(v) for v in x.values())
        if isinstance(x, list):
            return any(mixed_strings(v) for v in x)
        return False
    if b is None and isinstance(a, (dict, list)) and mixed_strings(a) and re.search(r"'{3,}|\"{3,}", formatted or ""):
        # an operand that is such a string literal came back as several tokens, so the node above it changed its kind
        return "fmt-string-mixed-quotes"

    def lit(x):
        return x.get("Literal") if isinstance(x, dict) and "Literal" in x else None
    la, lb = lit(a), lit(b)
    # the difference may sit below the Literal node
    if "Literal" in path:
        if "/Float" in path or (isinstance(a, (int, float)) and "Float" in path):
            return "fmt-float-printed-without-fraction"
        if "/String" in path and isinstance(a, str) and "'" in a and '"' in a:
            return "fmt-string-mixed-quotes"
    if isinstance(a, dict) and isinstance(b, dict) and set(a) != set(b) and ("Float" in a and "Integer" in b):
        return "fmt-float-printed-without-fraction"
    if path.endswith("/Float") or path.endswith("/Integer"):
        return "fmt-float-printed-without-fraction"
    if isinstance(a, str) and isinstance(b, str) and ("'" in a and '"' in a):
        return "fmt-string-mixed-quotes"
    if path.endswith("/Binary") and a is None and isinstance(b, dict) and b.get("op") == "Pow" and '"Range"' in json.dumps(b):
        return "fmt-range-bound-pow-not-parenthesised"      # a Range with a `**` bound came back as `**` over a Range
    if re.search(r"/Func/named_params/\d+/ty$", path) and b is None:
        return "fmt-named-param-type-dropped"
    if re.search(r"/[SF]String/\d+/Expr/format$", path) and isinstance(a, str) and b is None:
        return "fmt-interpolation-format-dropped"      # s"{a:>10}" is written s"{a}"
    return None


def classify_text(formatted):
    if re.search(r"\.\.\S+ \*\* ", formatted) or re.search(r" \*\* \S+\.\.", formatted):
        return "fmt-range-bound-pow-not-parenthesised"
    return None


def run(ctx):
    br = vlib.standard_proof_obligations(ctx, ["PrqlModel.Props.C14"], ["Fmt", "Pratt", "Lex"],
        required_theorems=["fmt_parse_roundtrip", "fmt_compat", "fmt_idempotent", "literal_roundtrip_string_counterexample",
                           "literal_roundtrip_string_partial", "literal_roundtrip_float_counterexample", "literal_roundtrip_int_bounded",
                           "ident_roundtrip_counterexample", "fmt_keywords_counterexample", "backtick_roundtrip", "ident_roundtrip_partial_bounded"])
    ctx.rule = ("(i) expression fragment: every (parent, child, side) operator triple, folding cases and random trees up to depth 6, written "
                "with minimal and with full parentheses after `let x =`: real formatter text vs the Lean model fmtExpr, re-parse, second "
                "formatting; (ii) generated statement-level sources (every literal kind, backtick identifiers, named arguments, nested "
                "pipelines, functions, modules, annotations, headers, long lines that force wrapping, random pipelines) and the integration "
                "queries of /repo: fmt, re-parse (PL JSON modulo spans), compile both (SQL equal), fmt again (unchanged); (iii) seed-independent "
                "grids (tools/c14grid.py), same oracle: every WRITTEN literal form (strings of both quote styles and delimiter lengths 1..7, raw, s-/f-strings "
                "with text fragments around interpolations, over backslash escapes / both quotes / braces / doubled braces / newline / tab / unicode; integers, "
                "floats, dates, units, ranges, identifiers with backticks, keywords, this./that.) as a let value, tuple item, call argument; every syntactic "
                "position in which the formatter decides about parentheses (operands of every binary and unary operator, positional and named arguments, "
                "callee, pipeline stages, tuple / array items, case arms, range bounds, lambda bodies and defaults, interpolations, aliases: 82 expression-level and 37 statement-level "
                "positions incl. sort keys, window / join arguments, annotations, long lines) x every expression shape (91: identifiers, literals, unary, calls "
                "with positional / named / nested / lambda arguments, pipelines, lambdas, one binary operator per level, ranges, tuples, arrays, case, s-/f-strings), "
                "bare and parenthesised, short and long names, one level everywhere and two levels over the core sets (all x all in the thorough tier); plus random "
                "nestings. A deterministic input that fails is excused by a listed finding only if that very input is in the ledger known_cases/C14.json; "
                "a case = one source; non-trivial = the source parses")
    if not (br.cargo_ok and br.drv_ok):
        return
    quick = ctx.tier == "quick"
    ctx.exhaustive = False

    # ---------------- (i) expression fragment
    trees = [t for t, _ in G.triples()] + G.folding_cases()
    ctxs = G.contexts()
    for n, (t, _) in enumerate(G.triples()):
        if quick:
            trees.append(ctxs[(n * 5 + ctx.seed) % len(ctxs)][1](t))
        else:
            trees += [f(t) for _, f in ctxs]
    nrand = 400 if quick else 5000
    while nrand:
        t = G.random_tree(ctx.rng, ctx.rng.randint(2, 6))
        if t[0] not in LEAF and G.size(t) <= 30:
            trees.append(t)
            nrand -= 1
    trees = [t for t in dict.fromkeys(trees) if not any(n[0] == "bin" and n[1] == "RegexSearch" and False for n in G.nodes(t))]
    model = drv_batch([f"c14fmt\t{G.sexp(t)}" for t in trees])
    srcs, meta = [], []
    nprec_ok = nprec_bad = 0
    for t, m in zip(trees, model):
        f = dict(x.split("=", 1) for x in m.split("\t") if "=" in x)
        if "src" not in f:
            ctx.disagreement("fmtExpr", "model driver gave no answer", {"tree": G.sexp(t), "answer": m})
            continue
        mfmt = dec(f["fmt"])
        if f.get("prec") == "ok":
            nprec_ok += 1
        elif f.get("prec") == "bad":
            nprec_bad += 1
            ctx.disagreement("fmtExpr vs PrecU.pr fmtNp", "the two formulations of the formatter model differ", {"tree": G.sexp(t)})
        for variant, text in (("min", dec(f["src"])), ("full", G.full_paren(t))):
            srcs.append(G.PRELUDE + "let x = " + text)
            meta.append((t, variant, mfmt))
    res = check_sources(ctx, [("expr-" + v, s) for (t, v, mf), s in zip(meta, srcs)], compile_too=False)
    nbad = nmodel = 0
    for (t, variant, mfmt), r in zip(meta, res):
        if r is None or r.get("fmt") is None:
            continue
        last = r["fmt"].rsplit("\nlet x = ", 1)[-1]
        if "\n" in last.rstrip("\n"):
            ctx.count("fmtExpr: wrapped output (not compared with the single-line model)")
            continue
        nmodel += 1
        if last.rstrip("\n") != mfmt:
            nbad += 1
            ctx.disagreement("fmtExpr", f"formatter prints `{last.rstrip(chr(10))}`, model fmtExpr gives `{mfmt}`", {"tree": G.sexp(t), "variant": variant})
    ctx.obligation("correspondence: formatter text = Model.Fmt.fmtExpr on the expression fragment", nbad == 0 and nmodel > 0, f"{nmodel} compared")
    ctx.obligation("correspondence: fmtExpr = rendering of PrecU.pr fmtNp on operator trees (ties theorem fmt_parse_roundtrip to the text model)",
                   nprec_bad == 0 and nprec_ok > 0, f"{nprec_ok} operator trees")

    # ---------------- model of literal / identifier display vs the real formatter
    display_tie(ctx)

    # ---------------- (ii) statements + integration queries
    stm = statement_sources(ctx.rng, 150 if quick else 2000)
    for f in sorted(glob.glob(os.path.join(vlib.REPO, "prqlc/prqlc/tests/integration/queries/*.prql"))):
        stm.append(("integration-query", open(f, encoding="utf-8").read()))
    check_sources(ctx, [x for x in stm if x[0] != "random"], compile_too=True, det=True)
    check_sources(ctx, [x for x in stm if x[0] == "random"], compile_too=True)

    # ---------------- (iii) seed-independent grids: written literal forms; parenthesis positions x expression shapes
    lit = c14grid.written_literals(not quick)
    par = c14grid.paren_sources(not quick)
    rnd = c14grid.random_literals(ctx.rng, 2000 if quick else 30000) + c14grid.random_paren_sources(ctx.rng, 3000 if quick else 60000, 3 if quick else 4)
    allsrc = list(dict.fromkeys(lit + par + rnd))
    compiled = [x for x in allsrc if x[0].endswith("-stage") or x[0].startswith(("stmt:main", "stmt2:main"))]
    t0 = time.time()
    isdet = lambda x: not x[0].endswith("random")
    cs = set(compiled)
    rest = [x for x in allsrc if x not in cs]
    check_sources(ctx, [x for x in compiled if isdet(x)], compile_too=True, det=True)
    check_sources(ctx, [x for x in compiled if not isdet(x)], compile_too=True)
    check_sources(ctx, [x for x in rest if isdet(x)], compile_too=False, det=True)
    check_sources(ctx, [x for x in rest if not isdet(x)], compile_too=False)
    ctx.count(f"grids: {len(lit)} written-literal sources, {len(par)} position x shape sources, {len(rnd)} random; {len(compiled)} also compiled")
    ctx.coverage_extra["grid_seconds"] = round(time.time() - t0, 1)


def display_tie(ctx):
    strs = ["abc", "it's", 'say "hi"', "'a\"", "a'b\"c", "''", '""', "'", '"', "a\nb", "tab\t", "back\\slash", "é✓", "{x}", "'''", 'x"""y\'', "\"'", "'\"'", "\x01", ""]
    for _ in range(60):
        strs.append("".join(ctx.rng.choice("ab'\" \\\n{") for _ in range(ctx.rng.randint(0, 6))))
    idents = ["a", "a b", "let", "import", "case", "x-y", "_a", "$p", "a$", "1a", "A9_", "*", "", "é"]
    strs = list(dict.fromkeys(strs))
    ans = drv_batch([f"c14lit\tstr\t{enc(s)}" for s in strs] + [f"c14lit\tident\t{enc(s)}" for s in idents] + [f"c14lit\talias\t{enc(s)}" for s in idents])
    # the real display: build a PL program through JSON is not possible from source for arbitrary strings; use PRQL escapes
    def lit_src(s):
        out = ""
        for c in s:
            if c == '"':
                out += '\\"'
            elif c == "\\":
                out += "\\\\"
            elif c == "\n":
                out += "\\n"
            elif c == "\t":
                out += "\\t"
            elif ord(c) < 32:
                out += "\\u{%x}" % ord(c)
            else:
                out += c
        return '"' + out + '"'
    real = vh_batch([{"op": "fmt", "prql": "let x = " + lit_src(s)} for s in strs]
                    + [{"op": "fmt", "prql": f"let x = `{s}`"} for s in idents]
                    + [{"op": "fmt", "prql": f"from t | select {{`{s}` = 1}}"} for s in idents])
    nbad = 0
    n = len(strs)
    for i, (s, m, r) in enumerate(zip(strs + idents + idents, ans, real)):
        kind = "str" if i < n else ("ident" if i < n + len(idents) else "alias")
        ctx.case(("display", kind, s))
        if "prql" not in r:
            ctx.count(f"display tie: source with {kind} does not parse")
            continue
        if kind == "alias":
            got = r["prql"].split("select {", 1)[1].rsplit(" = 1}", 1)[0]
        else:
            got = r["prql"][len("let x = "):].rstrip("\n")
        if got != dec(m):
            nbad += 1
            ctx.disagreement("display", f"{kind} {s!r}: formatter prints {got!r}, model {dec(m)!r}", {"kind": kind, "value": s})
    ctx.obligation("correspondence: Literal / identifier display = Model.Fmt (litDisplay, displayIdentPart, writeIdentPart)", nbad == 0, f"{len(ans)} values")


def check_sources(ctx, sources, compile_too, det=False):
    """fmt, re-parse, compile, fmt again; returns per source {"fmt": text or None}"""
    reqs = []
    for kind, s in sources:
        reqs.append({"op": "pl", "prql": s})
        reqs.append({"op": "fmt", "prql": s})
        if compile_too:
            reqs.append({"op": "compile", "prql": s, "target": "sql.generic"})
    ans = vh_batch(reqs)
    step = 3 if compile_too else 2
    second = []
    for i, (kind, s) in enumerate(sources):
        f = ans[i * step + 1]
        if "prql" in f:
            second.append({"op": "pl", "prql": f["prql"]})
            second.append({"op": "fmt", "prql": f["prql"]})
            if compile_too:
                second.append({"op": "compile", "prql": f["prql"], "target": "sql.generic"})
    ans2 = iter(vh_batch(second))
    out = []
    for i, (kind, s) in enumerate(sources):
        pl, f = ans[i * step], ans[i * step + 1]
        comp = ans[i * step + 2] if compile_too else None
        parses = "pl" in pl
        dk = ("C14", s) if det else None         # identity of a seed-independent input (ledger of inputs that fail on the recorded tree)
        ctx.case((kind, s), nontrivial=parses)
        ctx.count(f"kind={kind.split(':')[0]}: {'parses' if parses else 'rejected by the parser'}")
        if not parses:
            out.append(None)
            if "prql" in f:
                ctx.oracle_failure(None, "a source that does not parse was formatted", {"prql": s}, det_key=dk)
            continue
        if "prql" not in f:
            out.append({"fmt": None})
            fid = None
            if "panic" in f:
                fid = None
            ctx.oracle_failure(fid, f"the formatter failed on a source that parses: {str(f)[:200]}", {"prql": s, "observed": f}, det_key=dk)
            continue
        text = f["prql"]
        out.append({"fmt": text})
        pl2, f2 = next(ans2), next(ans2)
        comp2 = next(ans2) if compile_too else None
        if len(ctx.samples) < 4 and kind not in ("expr-min", "expr-full"):
            ctx.sample({"kind": kind, "source": s[:160], "formatted": text[:160]})
        replay = {"prql": s, "formatted": text}
        if "pl" not in pl2:
            fid = "fmt-keyword-identifier-printed-bare" if re.search(r"`(" + "|".join(KEYWORDS + ["true", "false", "null"]) + r")`", s) else None
            if fid is None and re.search(r"\d\.\d|\de\d", s) and re.search(r"\d{19,}", text):
                fid = "fmt-float-printed-without-fraction"
            if fid is None and any(("'" in m and '"' in m) for m in re.findall(r"(?:\"(?:[^\"\\]|\\.)*\"|'(?:[^'\\]|\\.)*')", s)):
                fid = "fmt-string-mixed-quotes"
            if fid is None and any(isinstance(n, dict) and isinstance(n.get("Literal"), dict) and isinstance(n["Literal"].get("String"), str)
                                   and "'" in n["Literal"]["String"] and '"' in n["Literal"]["String"] for n in walk(pl["pl"])):
                fid = "fmt-string-mixed-quotes"         # same predicate on the lexed value (the regex above does not read triple-quoted forms)
            if fid is None:
                fid = (name_findings(pl["pl"], text) + structure_findings(pl["pl"], text) or [None])[0]
            ctx.oracle_failure(fid, f"formatted text does not parse: {text[:120]!r}", {**replay, "observed": pl2}, det_key=dk)
            continue
        d = first_diff(strip_spans(pl["pl"]), strip_spans(pl2["pl"]))
        if d:
            fid = classify_ast_diff(s, d, strip_spans(pl["pl"]), text) or classify_text(text)
            if fid is None and re.search(r"`(" + "|".join(KEYWORDS + ["true", "false", "null"]) + r")`", s):
                fid = "fmt-keyword-identifier-printed-bare"
            ctx.oracle_failure(fid, f"re-parsed tree differs at {d[0]}: {json.dumps(d[1])[:80]} became {json.dumps(d[2])[:80]} (formatted: {text[:100]!r})",
                               {**replay, "path": d[0]}, det_key=dk)
            continue
        if f2.get("prql") != text and sorted(re.split(r"\s+", f2.get("prql", ""))) == sorted(re.split(r"\s+", text)) and len(re.findall(r"\b\w+:", text)) >= 2:
            ctx.oracle_failure("fmt-named-args-order-unstable", f"named arguments are printed in a different order by the second pass: {text[:80]!r} vs {f2['prql'][:80]!r}", {**replay, "second": f2})
            continue
        if f2.get("prql") != text:
            ctx.oracle_failure(None, f"formatting is not idempotent: second pass gives {str(f2.get('prql', f2))[:120]!r}", {**replay, "second": f2}, det_key=dk)
            continue
        if compile_too:
            same = (comp.get("sql") == comp2.get("sql")) and (("sql" in comp) == ("sql" in comp2))
            if "sql" not in comp and "sql" not in comp2:
                same = [e.get("reason") for e in comp.get("errors", [])] == [e.get("reason") for e in comp2.get("errors", [])]
            if not same and any("out of bounds of the source" in str(x.get("panic", "")) for x in (comp, comp2)):
                ctx.oracle_failure("compile-panics-composing-error-after-multibyte", "compile panics while composing an error message after multi-byte text (one of source / formatted source)",
                                   {**replay, "sql": comp, "sql_formatted": comp2}, det_key=dk)
            elif not same:
                ctx.oracle_failure(None, "source and formatted source compile differently", {**replay, "sql": comp, "sql_formatted": comp2}, det_key=dk)
    return out


def replay(obj):
    if obj.get("kind") in ("no-failing-input-found", "correspondence") or obj.get("correspondence"):
        return vlib.replay_correspondence(obj)
    r = obj.get("replay", obj)
    print(json.dumps(r, indent=1, default=str)[:3000])
    if "prql" in r:
        a = vh_batch([{"op": "fmt", "prql": r["prql"]}])[0]
        print(a)
    return 0
