"""C14 formatting preserves the program and is idempotent."""
import glob, json, os, re
import vlib
from vlib import vh_batch, drv_batch, enc, dec
import exprgen as G

MANIFEST = dict(
    text="Lean theorems over tables regenerated from codegen/ast.rs, pr/ident.rs, lexer/lr.rs and parser/expr.rs: fmt_parse_roundtrip "
         "(second instance of the generic precedence round trip: the parentheses the formatter omits are exactly those the Pratt parser "
         "regroups, decided over the two extracted tables and lifted to every depth; unary/binary adjacency via can_bind_left), "
         "literal_roundtrip (partials + counterexamples: mixed quotes, floats without fraction), ident_roundtrip (counterexample: keyword "
         "identifiers are printed bare; partial), fmt_idempotent on the operator fragment. Ties: the formatter model fmtExpr is compared "
         "with the real formatter on every operator triple, on folding cases and on random trees; every generated source (all literal "
         "kinds, backtick identifiers, named arguments, nested pipelines, functions, modules, annotations, long lines) and every "
         "integration query is formatted by the real formatter, re-parsed (same PL tree modulo spans), compiled (same SQL) and formatted again "
         "(unchanged).",
    note="line breaking is width arithmetic and is covered by the differential run only; the Lean model is the single-line form. "
         "f64 Display is modelled for decimals with few digits.",
    technique="Lean 4 proofs over regenerated formatter / parser tables + differential formatting run", ref="4/C14")

LEAF = ("col", "null", "int", "bool", "float", "str")
KEYWORDS = ["let", "into", "case", "prql", "type", "module", "internal", "func", "import", "enum"]


def strip_spans(v):
    if isinstance(v, dict):
        return {k: strip_spans(x) for k, x in v.items() if k not in ("span", "doc_comment")}
    if isinstance(v, list):
        return [strip_spans(x) for x in v]
    return v


def first_diff(a, b, path=""):
    """path and the two differing sub-values of two JSON values"""
    if type(a) != type(b):
        return path, a, b
    if isinstance(a, dict):
        for k in sorted(set(a) | set(b)):
            if k not in a or k not in b:
                return path + "/" + k, a.get(k), b.get(k)
            d = first_diff(a[k], b[k], path + "/" + k)
            if d:
                return d
        return None
    if isinstance(a, list):
        if len(a) != len(b):
            return path + "/len", a, b
        for i, (x, y) in enumerate(zip(a, b)):
            d = first_diff(x, y, f"{path}/{i}")
            if d:
                return d
        return None
    return None if a == b else (path, a, b)


# -------------------------------------------------------------------------------------------------
# statement-level sources
# -------------------------------------------------------------------------------------------------

INT_LITS = ["0", "7", "42", "1_000", "0x1F", "0b101", "0o17", "9223372036854775807"]
FLOAT_LITS = ["1.5", "0.25", "2.0", "1e3", "1.5e-3", "3.14159", "1_0.5", "100000.0"]
STR_LITS = ['"abc"', "'abc'", '"it\'s"', "'say \"hi\"'", '"a\\nb"', '"tab\\there"', '"back\\\\slash"', '"uni\\u{e9}"', '"é✓"', "''", '""',
            '"""a"b"""', "'''a'b'''", '"\'a\\""', '"q\'\'q\\"\\"q"', "r'raw\\n'", 'r"raw"', '"{brace}"', '"x" ', '"a\\"b\'c"']
OTHER_LITS = ["true", "false", "null", "@2020-01-31", "@12:30:05", "@2020-01-31T12:30:05", "@2020-01-31T12:30:05Z", "2days", "3hours", "10years",
              "1..5", "..5", "1..", "[1, 2, 3]", "[]", "{a, b}", '{x = 1, `y z` = 2}', 's"a{b}c"', 'f"a{b}c"', 's"{{lit}}"', "$1", "$name"]
IDENTS = ["`true`", "`null`", "a", "b_c", "t.a", "`a b`", "`x-y`", "t.`a b`", "`select`", "_x", "this.a", "`let`", "`import`", "`case`", "`module`", "`enum`", "`func`", "`type`"]
TRANSFORMS = [
    "select {a, b}", "select {x = a + 1, `y z` = b}", "derive {c = a * 2}", "derive c = a - b", "filter a > 1 && b != null", "filter (a | in 1..5)",
    "sort {a, -b}", "sort a", "take 5", "take 2..4", "group {a} (aggregate {s = sum b, n = count this})", "group a (take 1)",
    "group {a, b} (sort c | take 2)", "aggregate {m = max a}", "join u (==id)", "join side:left u (t.id == u.id)", "join side:full x=u (==id)",
    "window rows:-1..1 (derive {m = average b})", "window expanding:true (derive {r = sum b})", "append u", "select !{a}", "derive {d = case [a > 1 => 'x', true => 'y']}",
    "derive {e = math.round 2 a, f = (b | math.abs)}", "derive {g = f\"{a}-{b}\", h = s\"UPPER({a})\"}", "filter !(a == b || c)", "derive x = -a", "derive {y = a ?? 0}",
    "derive {z = (a | as int)}", "select {t.*}", "loop (filter a < 3 | select {a = a + 1})",
]
LONG = ("select {first_long_column_name, second_long_column_name, third_long_column_name, fourth_long_column_name, fifth_long_column_name}",
        "derive {total_amount_with_everything = first_long_column_name * second_long_column_name + third_long_column_name - (fourth_long_column_name / fifth_long_column_name)}",
        "filter first_long_column_name > 10 && second_long_column_name < 20 && (third_long_column_name == 'a fairly long string literal' || fourth_long_column_name != null)",
        "group {first_long_column_name, second_long_column_name} (aggregate {sum_of_third = sum third_long_column_name, count_of_rows = count this})")


def statement_sources(rng, n):
    out = []
    # systematic: every literal and identifier alone, as an alias value, as an operand
    for l in INT_LITS + FLOAT_LITS + STR_LITS + OTHER_LITS:
        out.append(("literal", f"let x = {l}"))
        out.append(("literal", f"from t | derive {{v = {l}}}"))
    for l in INT_LITS + FLOAT_LITS:
        out.append(("literal", f"let x = -{l} + {l} * 2"))
    for i in IDENTS:
        out.append(("ident", f"from t | select {{{i}}}"))
        out.append(("ident", f"from t | derive {{{i.split('.')[-1]} = 1}}"))
        out.append(("ident", f"let f = {i.split('.')[-1]} -> {i.split('.')[-1]} + 1"))
    for t in TRANSFORMS + list(LONG):
        out.append(("transform", "from t | " + t))
    out += [("func", "let f = a b -> a + b\nfrom t | derive {c = f a b}"),
            ("func", "let f = a b:2 -> a * b\nfrom t | derive {c = f b:3 a, d = (f a)}"),
            ("func", "let f = func a <int> b <int>:1 -> <int> a + b"),
            ("func", "let g = x -> (x | math.abs | math.round 1)\nfrom t | select {y = g a}"),
            ("func", "let f = rel -> (rel | filter a > 1 | take 3)\nfrom t | f"),
            ("module", "module m {\n  let x = 1\n  let f = y -> y + x\n}\nfrom t | derive {z = m.f a}"),
            ("module", "module outer {\n  module inner {\n    let k = 5\n  }\n}\nfrom t | derive {z = outer.inner.k}"),
            ("annotation", "@{binding_strength=11}\nlet mul = a b -> a * b"),
            ("annotation", "@{a=1, b='x'}\nlet y = 2\n@{c=true}\nlet z = 3"),
            ("header", "prql target:sql.sqlite\nfrom t | take 1"),
            ("header", "prql version:\"0.13\" target:sql.postgres\n\nfrom t"),
            ("let", "let top = (from t | sort a | take 10)\nfrom top | select {a}"),
            ("let", "from t | select {a} | into result"),
            ("let", "let arr = [{a = 1, b = 'x'}, {a = 2, b = 'y'}]\nfrom arr"),
            ("type", "type my_int = int"),
            ("import", "module m {\n  let x = 1\n}\nimport m.x"),
            ("import", "module m {\n  let x = 1\n}\nimport y = m.x"),
            ("nested", "from t | join (from u | filter b > 1 | select {id, b}) (==id) | select {t.a, b}"),
            ("nested", "from t | derive {x = (a | math.abs | math.round 2), y = ((b + 1) * 2 | math.sqrt)}"),
            ("comment", "# leading comment\nfrom t # trailing\n| select {a} # another"),
            ("doc", "#! doc comment\nlet x = 1"),
            ("wrap", "from t\n| select {\n    a,\n    b,\n  }\n| take \\\n  5")]
    # targeted: ranges, unary operators and calls as operands / arguments
    for e in ["a + (b | in 1..(2 ** c))", "a ** (b | in 1..(2 ** c))", "(1..(2 ** c)) ** 2", "a - (1..(b - c))", "f (-a) (+b) (!c) (==d)", "f (a..b) (-1..2)",
              "(f a)..(g b)", "-(a..b)", "case [a => f b, true => (c | g)]", "f (case [a => 1])", "(a + b | f)", "{a = -b, c = (d | f)}", "f x:(a + 1) (g 1)",
              "f x:1 y:2 z:3 a", "a ?? (b ?? c)", "(a ~= 'x') == true", "f (a == b) c", "(func a -> a + 1) 2", "f (g (h a))", "a && (b | in 1..)", "-(2 ** 3)", "(-2) ** 3",
              "!(!a)", "[1, -2, (3 | f)]", "1..(-2)", "(-1)..2", "f - 1", "t.a + `t u`.`b c`", "a.b.c.`d e`", "(a | f | g b) + 1", "f (a | g)", "-(f a)", "(f a) ** 2", "2 ** (f a)"]:
        out.append(("targeted", "let x = " + e))
    for t in ["sort {-a, +b}", "sort (-a)", "take (-1)..", "select (a)", "select {(a), (b + 1)}", "filter (a | in (b - 1)..(c ** 2))", "derive {x = a - -b, y = a--b}"]:
        out.append(("targeted", "from t | " + t))
    # random pipelines
    for _ in range(n):
        k = rng.randint(1, 5)
        ts = [rng.choice(TRANSFORMS) for _ in range(k)]
        if rng.random() < 0.25:
            ts.insert(rng.randrange(len(ts) + 1), rng.choice(LONG))
        src = "from t | " + " | ".join(ts)
        if rng.random() < 0.3:
            src = src.replace(" | ", "\n", rng.randint(1, 3))
        if rng.random() < 0.3:
            e = G.random_tree(rng, rng.randint(2, 4))
            src += " | derive {rnd = " + G.full_paren(e) + "}"
        if rng.random() < 0.2:
            src = f"let v = {rng.choice(INT_LITS + FLOAT_LITS + STR_LITS)}\n" + src
        out.append(("random", src))
    return out


def classify_ast_diff(src, d):
    """known-finding id for a first AST difference (path, original value, value after formatting)"""
    path, a, b = d

    def lit(x):
        return x.get("Literal") if isinstance(x, dict) and "Literal" in x else None
    la, lb = lit(a), lit(b)
    # the difference may sit below the Literal node
    if "Literal" in path:
        if "/Float" in path or (isinstance(a, (int, float)) and "Float" in path):
            return "fmt-float-printed-without-fraction"
        if "/String" in path:
            return "fmt-string-mixed-quotes"
    if isinstance(a, dict) and isinstance(b, dict) and set(a) != set(b) and ("Float" in a and "Integer" in b):
        return "fmt-float-printed-without-fraction"
    if path.endswith("/Float") or path.endswith("/Integer"):
        return "fmt-float-printed-without-fraction"
    if isinstance(a, str) and isinstance(b, str) and ("'" in a and '"' in a):
        return "fmt-string-mixed-quotes"
    if path.endswith("/Binary") and a is None and isinstance(b, dict) and b.get("op") == "Pow" and '"Range"' in json.dumps(b):
        return "fmt-range-bound-pow-not-parenthesised"      # a Range with a `**` bound came back as `**` over a Range
    if re.search(r"/Func/named_params/\d+/ty$", path) and b is None:
        return "fmt-named-param-type-dropped"
    return None


def classify_text(formatted):
    if re.search(r"\.\.\S+ \*\* ", formatted) or re.search(r" \*\* \S+\.\.", formatted):
        return "fmt-range-bound-pow-not-parenthesised"
    return None


def run(ctx):
    br = vlib.standard_proof_obligations(ctx, ["PrqlModel.Props.C14"], ["Fmt", "Pratt", "Lex"],
        required_theorems=["fmt_parse_roundtrip", "fmt_compat", "fmt_idempotent", "literal_roundtrip_string_counterexample",
                           "literal_roundtrip_string_partial", "literal_roundtrip_float_counterexample", "literal_roundtrip_int_bounded",
                           "ident_roundtrip_counterexample", "fmt_keywords_counterexample", "backtick_roundtrip", "ident_roundtrip_partial_bounded"])
    ctx.rule = ("(i) expression fragment: every (parent, child, side) operator triple, folding cases and random trees up to depth 6, written "
                "with minimal and with full parentheses after `let x =`: real formatter text vs the Lean model fmtExpr, re-parse, second "
                "formatting; (ii) generated statement-level sources (every literal kind, backtick identifiers, named arguments, nested "
                "pipelines, functions, modules, annotations, headers, long lines that force wrapping, random pipelines) and the integration "
                "queries of /repo: fmt, re-parse (PL JSON modulo spans), compile both (SQL equal), fmt again (unchanged); a case = one source; "
                "non-trivial = the source parses")
    if not (br.cargo_ok and br.drv_ok):
        return
    quick = ctx.tier == "quick"
    ctx.exhaustive = False

    # ---------------- (i) expression fragment
    trees = [t for t, _ in G.triples()] + G.folding_cases()
    ctxs = G.contexts()
    for n, (t, _) in enumerate(G.triples()):
        if quick:
            trees.append(ctxs[(n * 5 + ctx.seed) % len(ctxs)][1](t))
        else:
            trees += [f(t) for _, f in ctxs]
    nrand = 400 if quick else 5000
    while nrand:
        t = G.random_tree(ctx.rng, ctx.rng.randint(2, 6))
        if t[0] not in LEAF and G.size(t) <= 30:
            trees.append(t)
            nrand -= 1
    trees = [t for t in dict.fromkeys(trees) if not any(n[0] == "bin" and n[1] == "RegexSearch" and False for n in G.nodes(t))]
    model = drv_batch([f"c14fmt\t{G.sexp(t)}" for t in trees])
    srcs, meta = [], []
    nprec_ok = nprec_bad = 0
    for t, m in zip(trees, model):
        f = dict(x.split("=", 1) for x in m.split("\t") if "=" in x)
        if "src" not in f:
            ctx.disagreement("fmtExpr", "model driver gave no answer", {"tree": G.sexp(t), "answer": m})
            continue
        mfmt = dec(f["fmt"])
        if f.get("prec") == "ok":
            nprec_ok += 1
        elif f.get("prec") == "bad":
            nprec_bad += 1
            ctx.disagreement("fmtExpr vs PrecU.pr fmtNp", "the two formulations of the formatter model differ", {"tree": G.sexp(t)})
        for variant, text in (("min", dec(f["src"])), ("full", G.full_paren(t))):
            srcs.append(G.PRELUDE + "let x = " + text)
            meta.append((t, variant, mfmt))
    res = check_sources(ctx, [("expr-" + v, s) for (t, v, mf), s in zip(meta, srcs)], compile_too=False)
    nbad = nmodel = 0
    for (t, variant, mfmt), r in zip(meta, res):
        if r is None or r.get("fmt") is None:
            continue
        last = r["fmt"].rsplit("\nlet x = ", 1)[-1]
        if "\n" in last.rstrip("\n"):
            ctx.count("fmtExpr: wrapped output (not compared with the single-line model)")
            continue
        nmodel += 1
        if last.rstrip("\n") != mfmt:
            nbad += 1
            ctx.disagreement("fmtExpr", f"formatter prints `{last.rstrip(chr(10))}`, model fmtExpr gives `{mfmt}`", {"tree": G.sexp(t), "variant": variant})
    ctx.obligation("correspondence: formatter text = Model.Fmt.fmtExpr on the expression fragment", nbad == 0 and nmodel > 0, f"{nmodel} compared")
    ctx.obligation("correspondence: fmtExpr = rendering of PrecU.pr fmtNp on operator trees (ties theorem fmt_parse_roundtrip to the text model)",
                   nprec_bad == 0 and nprec_ok > 0, f"{nprec_ok} operator trees")

    # ---------------- model of literal / identifier display vs the real formatter
    display_tie(ctx)

    # ---------------- (ii) statements + integration queries
    stm = statement_sources(ctx.rng, 150 if quick else 2000)
    for f in sorted(glob.glob(os.path.join(vlib.REPO, "prqlc/prqlc/tests/integration/queries/*.prql"))):
        stm.append(("integration-query", open(f, encoding="utf-8").read()))
    check_sources(ctx, stm, compile_too=True)


def display_tie(ctx):
    strs = ["abc", "it's", 'say "hi"', "'a\"", "a'b\"c", "''", '""', "'", '"', "a\nb", "tab\t", "back\\slash", "é✓", "{x}", "'''", 'x"""y\'', "\"'", "'\"'", "\x01", ""]
    for _ in range(60):
        strs.append("".join(ctx.rng.choice("ab'\" \\\n{") for _ in range(ctx.rng.randint(0, 6))))
    idents = ["a", "a b", "let", "import", "case", "x-y", "_a", "$p", "a$", "1a", "A9_", "*", "", "é"]
    strs = list(dict.fromkeys(strs))
    ans = drv_batch([f"c14lit\tstr\t{enc(s)}" for s in strs] + [f"c14lit\tident\t{enc(s)}" for s in idents] + [f"c14lit\talias\t{enc(s)}" for s in idents])
    # the real display: build a PL program through JSON is not possible from source for arbitrary strings; use PRQL escapes
    def lit_src(s):
        out = ""
        for c in s:
            if c == '"':
                out += '\\"'
            elif c == "\\":
                out += "\\\\"
            elif c == "\n":
                out += "\\n"
            elif c == "\t":
                out += "\\t"
            elif ord(c) < 32:
                out += "\\u{%x}" % ord(c)
            else:
                out += c
        return '"' + out + '"'
    real = vh_batch([{"op": "fmt", "prql": "let x = " + lit_src(s)} for s in strs]
                    + [{"op": "fmt", "prql": f"let x = `{s}`"} for s in idents]
                    + [{"op": "fmt", "prql": f"from t | select {{`{s}` = 1}}"} for s in idents])
    nbad = 0
    n = len(strs)
    for i, (s, m, r) in enumerate(zip(strs + idents + idents, ans, real)):
        kind = "str" if i < n else ("ident" if i < n + len(idents) else "alias")
        ctx.case(("display", kind, s))
        if "prql" not in r:
            ctx.count(f"display tie: source with {kind} does not parse")
            continue
        if kind == "alias":
            got = r["prql"].split("select {", 1)[1].rsplit(" = 1}", 1)[0]
        else:
            got = r["prql"][len("let x = "):].rstrip("\n")
        if got != dec(m):
            nbad += 1
            ctx.disagreement("display", f"{kind} {s!r}: formatter prints {got!r}, model {dec(m)!r}", {"kind": kind, "value": s})
    ctx.obligation("correspondence: Literal / identifier display = Model.Fmt (litDisplay, displayIdentPart, writeIdentPart)", nbad == 0, f"{len(ans)} values")


def check_sources(ctx, sources, compile_too):
    """fmt, re-parse, compile, fmt again; returns per source {"fmt": text or None}"""
    reqs = []
    for kind, s in sources:
        reqs.append({"op": "pl", "prql": s})
        reqs.append({"op": "fmt", "prql": s})
        if compile_too:
            reqs.append({"op": "compile", "prql": s, "target": "sql.generic"})
    ans = vh_batch(reqs)
    step = 3 if compile_too else 2
    second = []
    for i, (kind, s) in enumerate(sources):
        f = ans[i * step + 1]
        if "prql" in f:
            second.append({"op": "pl", "prql": f["prql"]})
            second.append({"op": "fmt", "prql": f["prql"]})
            if compile_too:
                second.append({"op": "compile", "prql": f["prql"], "target": "sql.generic"})
    ans2 = iter(vh_batch(second))
    out = []
    for i, (kind, s) in enumerate(sources):
        pl, f = ans[i * step], ans[i * step + 1]
        comp = ans[i * step + 2] if compile_too else None
        parses = "pl" in pl
        ctx.case((kind, s), nontrivial=parses)
        ctx.count(f"kind={kind}: {'parses' if parses else 'rejected by the parser'}")
        if not parses:
            out.append(None)
            if "prql" in f:
                ctx.oracle_failure(None, "a source that does not parse was formatted", {"prql": s})
            continue
        if "prql" not in f:
            out.append({"fmt": None})
            fid = None
            if "panic" in f:
                fid = None
            ctx.oracle_failure(fid, f"the formatter failed on a source that parses: {str(f)[:200]}", {"prql": s, "observed": f})
            continue
        text = f["prql"]
        out.append({"fmt": text})
        pl2, f2 = next(ans2), next(ans2)
        comp2 = next(ans2) if compile_too else None
        if len(ctx.samples) < 4 and kind not in ("expr-min", "expr-full"):
            ctx.sample({"kind": kind, "source": s[:160], "formatted": text[:160]})
        replay = {"prql": s, "formatted": text}
        if "pl" not in pl2:
            fid = "fmt-keyword-identifier-printed-bare" if re.search(r"`(" + "|".join(KEYWORDS + ["true", "false", "null"]) + r")`", s) else None
            if fid is None and re.search(r"\d\.\d|\de\d", s) and re.search(r"\d{19,}", text):
                fid = "fmt-float-printed-without-fraction"
            if fid is None and any(("'" in m and '"' in m) for m in re.findall(r"(?:\"(?:[^\"\\]|\\.)*\"|'(?:[^'\\]|\\.)*')", s)):
                fid = "fmt-string-mixed-quotes"
            ctx.oracle_failure(fid, f"formatted text does not parse: {text[:120]!r}", {**replay, "observed": pl2})
            continue
        d = first_diff(strip_spans(pl["pl"]), strip_spans(pl2["pl"]))
        if d:
            fid = classify_ast_diff(s, d) or classify_text(text)
            if fid is None and re.search(r"`(" + "|".join(KEYWORDS + ["true", "false", "null"]) + r")`", s):
                fid = "fmt-keyword-identifier-printed-bare"
            ctx.oracle_failure(fid, f"re-parsed tree differs at {d[0]}: {json.dumps(d[1])[:80]} became {json.dumps(d[2])[:80]} (formatted: {text[:100]!r})",
                               {**replay, "path": d[0]})
            continue
        if f2.get("prql") != text and sorted(re.split(r"\s+", f2.get("prql", ""))) == sorted(re.split(r"\s+", text)) and len(re.findall(r"\b\w+:", text)) >= 2:
            ctx.oracle_failure("fmt-named-args-order-unstable", f"named arguments are printed in a different order by the second pass: {text[:80]!r} vs {f2['prql'][:80]!r}", {**replay, "second": f2})
            continue
        if f2.get("prql") != text:
            ctx.oracle_failure(None, f"formatting is not idempotent: second pass gives {str(f2.get('prql', f2))[:120]!r}", {**replay, "second": f2})
            continue
        if compile_too:
            same = (comp.get("sql") == comp2.get("sql")) and (("sql" in comp) == ("sql" in comp2))
            if "sql" not in comp and "sql" not in comp2:
                same = [e.get("reason") for e in comp.get("errors", [])] == [e.get("reason") for e in comp2.get("errors", [])]
            if not same and any("out of bounds of the source" in str(x.get("panic", "")) for x in (comp, comp2)):
                ctx.oracle_failure("compile-panics-composing-error-after-multibyte", "compile panics while composing an error message after multi-byte text (one of source / formatted source)",
                                   {**replay, "sql": comp, "sql_formatted": comp2})
            elif not same:
                ctx.oracle_failure(None, "source and formatted source compile differently", {**replay, "sql": comp, "sql_formatted": comp2})
    return out


def replay(obj):
    r = obj.get("replay", obj)
    print(json.dumps(r, indent=1, default=str)[:3000])
    if "prql" in r:
        a = vh_batch([{"op": "fmt", "prql": r["prql"]}])[0]
        print(a)
    return 0
