"""C15 staged compilation through JSON equals one-shot compile."""
import json, re
import vlib
from vlib import vh_batch, drv_batch, enc, dec

MANIFEST = dict(
    text="Lean theorems: Json.parse_print (a total JSON parser reads back the compact text of every JSON value), "
         "span_json_roundtrip, ident_json_roundtrip (the two hand-written encodings, incl. decimal print/read of every Nat), "
         "expr_json_roundtrip_partial / _counterexample (serde's flattened externally-tagged object encoding of a model AST: key "
         "disjointness proved on the variant and field names extracted from the real #[derive] types, absent optional = None; "
         "non-finite floats are the counterexample) and staged_eq (the staged chain through JSON equals one-shot compile given the "
         "round trips). Tied to the code by the translator Gen/Serde (55 types, regenerated each run, every real PL/RQ JSON document "
         "is walked against the extracted shapes) and by running generated sources x 13 targets x format on/off through "
         "to_pl(from_pl), to_rq(from_rq), the staged chain and compile; real serde_json texts go through the Lean parser/printer. "
         "Source-text layer: directed programs, the corpus, the repository's integration queries, every book example (rejected ones too) "
         "and generated programs are rewritten (one transform per line, heads, tails with multi-line / raw / escaped / multi-byte literals "
         "or a lexer / parser / resolver / SQL-stage rejection after all line breaks) and perturbed as text (CRLF, CR, mixed and exotic line "
         "terminators, end of text, BOM, blanks, tabs, multi-byte comments / identifiers / normal forms, long lines, pairs of these); both "
         "routes must give the same SQL or the same error (kind, code, reason, hints, span) and - with the staged error composed against the "
         "submitted text - the same display and location.",
    note="serde and serde_json themselves are modelled, not verified; the model AST is representative (PR Expr without Func/Ty), the "
         "remaining derive types are covered by the generic extracted-shape checks (flatten disjointness, skip=>default) and the "
         "differential run; finite f64 <-> text exactness is ryu/serde_json's (assumed, exercised by the float corpus).",
    technique="Lean 4 proofs over a JSON model + regenerated serde shape tables + differential staged/one-shot run", ref="4/C15")

DIALECTS = ["ansi", "bigquery", "clickhouse", "duckdb", "generic", "glaredb", "mssql", "mysql", "postgres", "redshift", "sqlite", "snowflake"]

# ------------------------------------------------------------------------------------------------
# corpus: every AST node kind, every optional field present and absent
# ------------------------------------------------------------------------------------------------
SYSTEMATIC = [
    # identifiers, literals of every kind
    "from t | select {a, t.b, `x y`.c, this.d, t.`e f`}",
    "from t | derive {n = null, i = 1, f = 1.5, e = 1e3, b = true, b2 = false, s = \"s\", q = 's', r = r\"raw\\n\", d = @2020-01-01, tm = @10:00, ts = @2020-01-01T10:00:00, v = 2days, h = 0x1F, o = 0o17, bi = 0b101, u = 1_000}",
    "from t | derive {x = 9223372036854775807, y = -9223372036854775807, z = 0, w = -0}",
    "from t | derive {x = \"\\n\\t\\r\\\"\\\\\\u{1F600}\\x41\\u{7f}\\u{1}\\u{1f}\", y = 'é中\u2028', z = \"\", w = '\"', v = \"'\"}",
    "from t | derive {x = 1e308, y = 5e-324, z = 0.1, w = 123456789.123456789, v = 1e22, u = 1e21, s = 1.0e-7, r = 0.30000000000000004, q = 1.7976931348623157e308, p = 2.2250738585072014e-308, o = 1.0, n = 100.0, m = 1e15, l = 1e16, k = 0.000001, j = 0.0000001}",
    "from t | derive {x = 2years, y = 3months, z = 1weeks, w = 10hours, v = 5minutes, u = 30seconds, s = 7milliseconds, r = 9microseconds}",
    # compound expressions
    "from t | derive {x = (a | math.round 2)} | filter (a | in 1..5) | filter (a | in ..5) | filter (a | in 1..) | filter (b | in 'a'..'z')",
    "from t | derive {x = [1, 2, 3], y = [], z = {a, b = c, {d}}, w = {}}",
    "from t | derive {x = -a, y = +a, z = !b, w = ==a}",
    "from t | derive {x = a * b // c / d % e ** f + g - h, y = (a == b) && (c != d) || (e > f) && (g < h) || (i >= j) && (k <= l), z = a ~= 'x', w = a ?? b}",
    "let f = func x y:1 -> x + y\nfrom t | derive {z = f a y:2, w = f a}",
    "let f = func x <int> y <text>:'a' -> <bool> x == 1\nfrom t | derive {z = f a}",
    "let g = func a <int> b <float> c <bool> d <text> e <date> f <time> g <timestamp> -> a\nfrom t",
    "from t | derive {x = s\"count({a})\", y = f\"{a} and {b}\", z = s\"plain\", w = f\"{a:>10}x\", v = s\"{a}{b}\"}",
    "from t | derive {x = case [a > 1 => 2, a == 0 => null, true => 3], y = case []}",
    "from t | filter a == $1 && b == $two",
    "let f = internal foo.bar\nfrom t",
    # statements
    "prql target:sql.sqlite version:\"0.13\"\nfrom t | take 3",
    "prql target:sql.mssql\nfrom t | take 3",
    "prql version:\"^0.9\" target:sql.postgres\nfrom t",
    "from t | take 5 | into x",
    "let x = (from t | take 5)\nlet y = (from x | filter a > 1)\nfrom y | join x (==a)",
    "type X = int\ntype Y = {a = int, b = [text]}\nfrom t",
    "module m {\n let y = 1 \n module n { let z = 2 }\n}\nfrom t | derive {z = m.y + m.n.z}",
    "import m.y\nimport z = m.n.w\nfrom t",
    "@{binding_strength=1}\nlet f = func x -> x\n@{a=1}\n@{b=2}\nlet g = func x -> x\nfrom t | derive {y = f a}",
    "#! doc comment\nlet f = func x -> x\n#! doc for main\nfrom t",
    "#! doc\n@{a=1}\nlet f = func x -> x\nfrom t",
    # types
    "let t <[{a = int, b = text}]>\nfrom t | select a",
    "module default_db {\n let t <[{a = int, b = int}]> \n}\nfrom t | select {a, c = b + 1}",
    "let f = func x <[int]> y <{a = int, text}> z <{int, ..}> -> x\nfrom t",
    "let f = func x <func int -> text> y <func int text -> bool> -> x\nfrom t",
    "let f = func x <{a = int, *}> y <[]> z <func> w <m.T> -> x\nfrom t",
    "let x <int> = 1\nlet y <[{a = int}]> = (from t)\nfrom y",
    # transforms: a resolvable query per RQ node kind
    "from t | sort {-a, +b} | take 2..5 | group {a} (aggregate {s = sum b})",
    "from t | join u (==a) | join side:left v (t.a == v.b) | join side:right w (==a) | join side:full z (==a)",
    "from t | window rows:-1..1 (derive {m = sum a}) | window range:..0 (derive {n = sum a}) | window expanding:true (derive {o = sum a})",
    "from t | group {a} (sort b | derive {r = row_number this, l = lag 1 b})",
    "from t | group {a} (take 1)",
    "from t | append u | loop (filter a > 1)",
    "from [{a = 1, b = 'x', c = null, d = 1.5, e = true, f = @2020-01-01}, {a = 2, b = 'y', c = null, d = 2.5, e = false, f = @2020-01-02}] | select {a, b}",
    "from t | select {a, b} | derive {c = a + b} | filter c > 1 | aggregate {s = sum c, n = count this}",
    "from s\"SELECT * FROM t\" | select {a}",
    "from (read_csv 'x.csv') | select {a}",
    "from t | select {x = s\"{a} + 1\", y = case [a > 1 => 'x', true => 'y'], z = a | in [1, 2, 3]}",
    "from t | derive {d = @2020-01-01, s = (a | as text)} | select {d, s, z = a / b}",
    "from t | select {x = math.round 2 a, y = text.length b, w = (a | in 1..5), v = a ** 2, u = a // b}",
    "from t | select !{a}",
    "from t | distinct_on_is_not_a_function a",
    # error programs: the staged chain must report the same error
    "from t | fiter a",
    "from t | select {a} | filter zz > 1",
    "from t | selec {a",
    "from t | derive {x = 1 +}",
    "let x = 1\nlet y = 2\n",
    "from t | take 'a'",
    "from t | derive {a = 1..}",
    "from t | select {a = ..}",
    "",
    "from t | derive x = 9223372036854775808",
    # the known finding (non-finite float) and its neighbours
    "from t | select {a, b = 1e999}",
    "from t | filter a > -1e400",
    "from t | select {b = 1e309}",
]

IDENTS = ["a", "b", "c", "t.a", "`my col`", "this.b"]
LITS = ["1", "0", "42", "-7", "1.5", "2.25e3", "1e-3", "true", "false", "null", "'x'", "\"y z\"", "r'\\d+'", "@2021-03-04", "@12:30:00",
        "@2021-03-04T12:30:00", "3days", "10hours", "0x2a", "1_000_000", "'é'", "\"\\n\"", "''"]
BINOPS = ["*", "//", "/", "%", "**", "+", "-", "==", "!=", ">", "<", ">=", "<=", "~=", "&&", "||", "??"]


def rand_expr(rng, d=0):
    r = rng.random()
    if d >= 3 or r < 0.25:
        return rng.choice(IDENTS if rng.random() < 0.5 else LITS)
    if r < 0.5:
        return f"({rand_expr(rng, d + 1)} {rng.choice(BINOPS)} {rand_expr(rng, d + 1)})"
    if r < 0.58:
        return f"({rng.choice(['-', '!', '+'])}{rand_expr(rng, d + 1)})"
    if r < 0.66:
        return f"({rng.choice(['math.abs', 'math.round 1', 'text.upper', 'text.length', 'sum', 'min'])} {rand_expr(rng, d + 1)})"
    if r < 0.72:
        return "f\"" + "".join(rng.choice(["x ", "{a}", "{b}", "-", "{t.a}"]) for _ in range(rng.randint(1, 4))) + "\""
    if r < 0.78:
        return "s\"" + "".join(rng.choice(["f(", "{a}", ", ", "{b}", ")"]) for _ in range(rng.randint(1, 4))) + "\""
    if r < 0.85:
        n = rng.randint(1, 3)
        return "case [" + ", ".join(f"{rand_expr(rng, d + 1)} => {rand_expr(rng, d + 1)}" for _ in range(n)) + "]"
    if r < 0.9:
        return f"({rand_expr(rng, d + 1)} | in {rng.choice(['1..5', '..3', '2..', '[1, 2]'])})"
    if r < 0.95:
        return "[" + ", ".join(rand_expr(rng, d + 1) for _ in range(rng.randint(0, 3))) + "]"
    return "{" + ", ".join(rand_expr(rng, d + 1) for _ in range(rng.randint(1, 3))) + "}"


def rand_float(rng):
    k = rng.random()
    if k < 0.3:
        return f"{rng.randint(0, 10 ** rng.randint(1, 17))}.{rng.randint(0, 10 ** rng.randint(1, 17))}"
    if k < 0.6:
        return f"{rng.randint(1, 9)}.{rng.randint(0, 10 ** 15)}e{rng.randint(-320, 308)}"
    if k < 0.8:
        return f"{rng.randint(1, 999)}e{rng.randint(-30, 30)}"
    return f"0.{'0' * rng.randint(0, 20)}{rng.randint(1, 10 ** 6)}"


def rand_string(rng):
    chars = []
    for _ in range(rng.randint(0, 8)):
        k = rng.random()
        if k < 0.5:
            chars.append(rng.choice("abc XYZ019_-/%"))
        elif k < 0.7:
            chars.append(rng.choice(["\\n", "\\t", "\\r", "\\\\", "\\\"", "\\u{%x}" % rng.choice([1, 8, 12, 0x1f, 0x7f, 0x80, 0xe9, 0x2028, 0xffff, 0x1f600, 0x10ffff])]))
        else:
            chars.append(chr(rng.choice([0xe9, 0x4e2d, 0x1f600, 0xa0, 0x7f, 0x3b1])))
    return '"' + "".join(chars) + '"'


def rand_program(rng):
    parts = ["from t"]
    for _ in range(rng.randint(1, 5)):
        k = rng.random()
        if k < 0.3:
            parts.append("derive {" + ", ".join(f"x{i} = {rand_expr(rng)}" for i in range(rng.randint(1, 3))) + "}")
        elif k < 0.45:
            parts.append(f"filter {rand_expr(rng)}")
        elif k < 0.55:
            parts.append("select {" + ", ".join(rng.sample(["a", "b", "c", "y = a + 1", "z = f\"{a}\""], rng.randint(1, 3))) + "}")
        elif k < 0.63:
            parts.append("sort {" + ", ".join(rng.choice(["a", "-b", "+c"]) for _ in range(rng.randint(1, 2))) + "}")
        elif k < 0.7:
            parts.append("take " + rng.choice(["3", "2..4", "..5", "3.."]))
        elif k < 0.78:
            parts.append("group {a} (" + rng.choice(["aggregate {s = sum b, n = count this}", "take 1", "sort b | derive {r = row_number this}", "derive {m = max b}"]) + ")")
        elif k < 0.84:
            parts.append(f"join {rng.choice(['', 'side:left ', 'side:full '])}u (==a)")
        elif k < 0.88:
            parts.append("window rows:-2..0 (derive {w = sum a})")
        elif k < 0.92:
            parts.append("append u")
        elif k < 0.96:
            parts.append(f"derive {{fl = {rand_float(rng)}, st = {rand_string(rng)}}}")
        else:
            parts.append("aggregate {s = sum a}")
    pre = rng.choice(["", "", "", "prql target:sql.%s\n" % rng.choice(DIALECTS), "let k = 3\n", "let f = func x y:2 -> x * y\n"])
    return pre + " | ".join(parts)


# ------------------------------------------------------------------------------------------------
# typed walk of a real JSON document against the extracted serde shapes
# ------------------------------------------------------------------------------------------------
SPAN_RE = re.compile(r"\d+:\d+-\d+\Z")


class Walker:
    def __init__(self, ex):
        self.types = ex["types"]
        self.cov = {}
        self.problems = []

    def hit(self, k):
        self.cov[k] = self.cov.get(k, 0) + 1

    def bad(self, where, msg):
        if len(self.problems) < 20:
            self.problems.append(f"{where}: {msg}")

    def walk(self, t, v, where):
        k = t[0]
        if k == "prim":
            p = t[1]
            if p == "string" or p == "char":
                ok = isinstance(v, str)
            elif p == "bool":
                ok = isinstance(v, bool)
            elif p in ("i64", "usize", "u16"):
                ok = isinstance(v, int) and not isinstance(v, bool)
            else:                                   # f64: a number; null is what serde_json writes for a non-finite value
                ok = (isinstance(v, (int, float)) and not isinstance(v, bool)) or v is None
                self.hit("f64:" + ("null(non-finite)" if v is None else "number"))
            if not ok:
                self.bad(where, f"expected {p}, found {json.dumps(v)[:40]}")
        elif k == "app":
            if t[1] == "Box":
                self.walk(t[2][0], v, where)
            elif t[1] == "Option":
                if v is not None:
                    self.walk(t[2][0], v, where)
            elif t[1] == "Vec":
                if not isinstance(v, list):
                    return self.bad(where, "expected a sequence")
                for x in v:
                    self.walk(t[2][0], x, where + "[]")
            elif t[1] == "HashMap":
                if not isinstance(v, dict):
                    return self.bad(where, "expected a map")
                for x in v.values():
                    self.walk(t[2][1], x, where + "{}")
        elif k == "tuple":
            if not isinstance(v, list) or len(v) != len(t[1]):
                return self.bad(where, "expected a fixed-length sequence")
            for tt, x in zip(t[1], v):
                self.walk(tt, x, where)
        elif k == "struct_inline":
            if not isinstance(v, dict) or set(v) != {n for n, _ in t[1]}:
                return self.bad(where, "inline struct keys differ")
        elif k == "ref":
            self.walk_ref(t[1], v, where)

    def walk_fields(self, q, fields, v, where, tag=""):
        if not isinstance(v, dict):
            return self.bad(where, f"{q}: expected an object")
        known = set()
        for f in fields:
            if f["flatten"]:
                en = self.types[f["type"][1]]
                names = {w["name"]: w for w in en["variants"]}
                found = [key for key in v if key in names]
                if len(found) != 1:
                    self.bad(where, f"{q}: flattened {en['q']} shows {len(found)} variant keys")
                    continue
                known.add(found[0])
                tag = f"[{found[0]}]"
                self.walk_variant(en, names[found[0]], v[found[0]], where + "." + found[0])
        for f in fields:
            if f["flatten"]:
                continue
            known.add(f["name"])
            opt = f["type"][0] == "app" and f["type"][1] == "Option"
            if f["name"] not in v:
                if not f["skip"]:
                    self.bad(where, f"{q}.{f['name']} is absent but has no skip_serializing_if")
                self.hit(f"{q}{tag}.{f['name']}:absent")
            else:
                x = v[f["name"]]
                state = "null" if (opt and x is None) else "present"
                if f["skip"] in ("Vec::is_empty", "HashMap::is_empty") and x in ([], {}):
                    state = "present-empty"
                if opt or f["skip"]:
                    self.hit(f"{q}{tag}.{f['name']}:{state}")
                self.walk(f["type"], x, where + "." + f["name"])
        for key in v:
            if key not in known:
                self.bad(where, f"{q}: key `{key}` is neither a field nor a variant of a flattened enum")

    def walk_variant(self, en, w, payload, where):
        self.hit(f"{en['q']}::{w['name']}")
        if w["shape"] == "newtype":
            self.walk(w["elems"][0], payload, where)
        elif w["shape"] == "tuple":
            self.walk(("tuple", w["elems"]), payload, where)
        elif w["shape"] == "struct":
            self.walk_fields(f"{en['q']}::{w['name']}", w["fields"], payload, where)
        else:
            self.bad(where, "unit variant with a payload")

    def walk_ref(self, q, v, where):
        t = self.types[q]
        if t["kind"] == "handwritten":
            if q == "hand.Span":
                if not (isinstance(v, str) and SPAN_RE.match(v)):
                    self.bad(where, f"span text {v!r}")
            elif not (isinstance(v, list) and v and all(isinstance(x, str) for x in v)):
                self.bad(where, f"ident {v!r}")
            else:
                self.hit(f"hand.Ident:path={'empty' if len(v) == 1 else 'nonempty'}")
        elif t["kind"] in ("newtype", "tuplestruct"):
            self.walk(t["elems"][0], v, where)
        elif t["kind"] == "struct":
            self.walk_fields(q, t["fields"], v, where)
        else:
            names = {w["name"]: w for w in t["variants"]}
            if isinstance(v, str):
                if v in names and names[v]["shape"] == "unit":
                    self.hit(f"{q}::{v}")
                else:
                    self.bad(where, f"{q}: `{v}` is not a unit variant")
            elif isinstance(v, dict) and len(v) == 1 and next(iter(v)) in names:
                key = next(iter(v))
                self.walk_variant(t, names[key], v[key], where + "." + key)
            else:
                self.bad(where, f"{q}: not an externally tagged variant: {json.dumps(v)[:60]}")

    def universe(self):
        """every coverage key the extracted shapes allow"""
        keys = set()
        for q, t in self.types.items():
            if t["kind"] == "enum":
                for w in t["variants"]:
                    keys.add(f"{q}::{w['name']}")
                    for f in w.get("fields", []):
                        if f["type"][0] == "app" and f["type"][1] == "Option":
                            keys.add(f"{q}::{w['name']}.{f['name']}:null"); keys.add(f"{q}::{w['name']}.{f['name']}:present")
            if t["kind"] == "struct":
                flat = [f for f in t["fields"] if f["flatten"]]
                tags = [f"[{w['name']}]" for w in self.types[flat[0]["type"][1]]["variants"]] if flat else [""]
                for f in t["fields"]:
                    if f["flatten"]:
                        continue
                    opt = f["type"][0] == "app" and f["type"][1] == "Option"
                    for tag in tags:
                        if f["skip"]:
                            keys.add(f"{q}{tag}.{f['name']}:absent")
                            keys.add(f"{q}{tag}.{f['name']}:present")
                        elif opt:
                            keys.add(f"{q}{tag}.{f['name']}:null"); keys.add(f"{q}{tag}.{f['name']}:present")
        return keys


# what the parser / resolver cannot produce (reached by the edited-document suite or not at all); everything else must be covered
def expected_uncovered(k):
    pats = [
        r"pr\.Expr\[\w+\]\.span:absent",            # the parser always records a span (edited documents cover it)
        r"pr\.Stmt\[\w+\]\.span:absent",
        r"pr\.Expr\[\w+\]\.doc_comment:present",    # doc comments attach to statements only
        r"pr\.Stmt\[(QueryDef|ImportDef|TypeDef|ModuleDef)\]\.(annotations|doc_comment):present",
        r"pr\.Expr\[(Pipeline|Internal|Func|Param)\]\.alias:present",
        r"pr\.Ty\.name:present", r"pr\.TyFunc\.name_hint:present",   # filled in by the resolver only
        r"pr\.TyFunc\.return_ty:null",                               # the type syntax always has `-> T`
    ]
    return any(re.fullmatch(p, k) for p in pats)


# ------------------------------------------------------------------------------------------------
# helpers
# ------------------------------------------------------------------------------------------------

def strip_keys(v, keys):
    if isinstance(v, dict):
        return {k: strip_keys(x, keys) for k, x in v.items() if k not in keys}
    if isinstance(v, list):
        return [strip_keys(x, keys) for x in v]
    return v


def add_nulls(v, parent=None):
    """write the skipped optional fields of PR Expr explicitly as null (Option + missing/`null` => None).
    An Expr object is recognised by an ExprKind key; objects under a `kind` key are TyKind values (not flattened)."""
    if isinstance(v, dict):
        r = {k: add_nulls(x, k) for k, x in v.items()}
        if parent != "kind" and any(k in r for k in ("Ident", "Literal", "Binary", "Unary", "Tuple", "Array", "FuncCall", "Pipeline", "Range",
                                                    "Case", "SString", "FString", "Func", "Param", "Internal")) and len(r) <= 4:
            for k in ("span", "alias", "doc_comment"):
                r.setdefault(k, None)
        return r
    if isinstance(v, list):
        return [add_nulls(x, parent if parent != "kind" else None) for x in v]
    return v


def has_null_float(v):
    if isinstance(v, dict):
        return any((k == "Float" and x is None) or has_null_float(x) for k, x in v.items())
    if isinstance(v, list):
        return any(has_null_float(x) for x in v)
    return False


def py_stat(text):
    """the same summary Drv/Json.lean computes, from Python's own parser (pairs kept, so duplicate keys count)"""
    st = dict(nulls=0, bools=0, ints=0, texts=0, strs=0, arrs=0, objs=0, intsum=0, strlen=0, keylen=0)

    class Obj(list):
        pass

    def go(v):
        if v is None:
            st["nulls"] += 1; return 0
        if isinstance(v, bool):
            st["bools"] += 1; return 0
        if isinstance(v, int):
            st["ints"] += 1; st["intsum"] += v; return 0
        if isinstance(v, FloatTok):
            st["texts"] += 1; return 0
        if isinstance(v, str):
            st["strs"] += 1; st["strlen"] += len(v); return 0
        if isinstance(v, Obj):
            st["objs"] += 1
            d = 0
            for k, x in v:
                st["keylen"] += len(k)
                d = max(d, go(x))
            return 1 + d
        st["arrs"] += 1
        d = 0
        for x in v:
            d = max(d, go(x))
        return 1 + d

    class FloatTok(str):
        pass

    v = json.loads(text, object_pairs_hook=Obj, parse_float=FloatTok, parse_constant=lambda c: (_ for _ in ()).throw(ValueError(c)))
    depth = go(v)
    return "ok " + " ".join(str(st[k]) for k in ("nulls", "bools", "ints", "texts", "strs", "arrs", "objs", "intsum", "strlen", "keylen")) + f" {depth}"


def py_accepts(text):
    try:
        json.loads(text, parse_constant=lambda c: (_ for _ in ()).throw(ValueError(c)))
        # python tolerates lone surrogate escapes, the model (like serde_json) does not
        return re.search(r"\\u[dD][89a-fA-F]", text) is None or None
    except (ValueError, RecursionError):
        return False


def canon(r):
    """result of a compile, with the order inside `hints` lists normalised: `available columns: t.b, t.a` is emitted in
    hash-iteration order, which varies between two identical calls (that is C11's subject, not a staged/one-shot difference)"""
    if not isinstance(r, dict) or not isinstance(r.get("errors"), list):
        return r
    def hint(h):
        if isinstance(h, str) and ": " in h:
            head, items = h.split(": ", 1)
            return head + ": " + ", ".join(sorted(items.split(", ")))
        return h
    return {**r, "errors": [{**e, "hints": sorted(hint(h) for h in e.get("hints", []))} if isinstance(e, dict) else e for e in r["errors"]]}


FINDING_NONFINITE = "nonfinite-float-serialised-as-null"


FINDING_NONDET = "compile-output-not-deterministic"
FINDING_PANIC = "compile-panics-composing-error-after-multibyte"
FINDING_FLOAT_ULP = "finite-float-not-exact-through-serde-json"
FLOAT_TOKEN = re.compile(r'"Float":(-?[0-9][0-9.eE+-]*)')
SQL_FLOAT = re.compile(r"\b\d+\.\d+(?:[eE][+-]?\d+)?\b|\b\d+[eE][+-]?\d+\b")


def classify(prql, plj, stage, reason):
    """known-finding classification: call site + predicate on the witness"""
    if stage == "to_pl" and plj is not None and has_null_float(plj) and re.match(r"invalid type: null, expected f64", reason or ""):
        return FINDING_NONFINITE
    return None


def masked(text):
    """a JSON document with every float replaced by a placeholder"""
    try:
        return json.loads(text, parse_float=lambda s: "<float>")
    except Exception:
        return None


def only_floats_differ(a_text, b_text):
    return a_text is not None and b_text is not None and masked(a_text) is not None and masked(a_text) == masked(b_text)


def sql_only_floats_differ(a, b):
    return (isinstance(a, dict) and isinstance(b, dict) and "sql" in a and "sql" in b
            and SQL_FLOAT.sub("<float>", a["sql"]) == SQL_FLOAT.sub("<float>", b["sql"]))


# ------------------------------------------------------------------------------------------------
# source-text layer: prql_to_pl and compile must read the SAME text.  Bases (directed programs, the corpus above, the
# repository's integration queries, every ```prql block of the book - the rejected ones too - and generated programs) are
# rewritten structurally (one transform per line, a head, a tail that adds a text-sensitive literal or makes the program be
# rejected at the lexer / parser / resolver / SQL stage AFTER all line breaks) and then perturbed as text.
# ------------------------------------------------------------------------------------------------
TEXT_BASES = [
    "from tickets\nderive {\n  reply = \"\"\"Dear customer,\nwe are on it.\"\"\",\n  short = 'a\nb',\n}\nselect {id, reply, short}",
    "from t\nderive {\n  x = f\"\"\"{a} first\nsecond {b}\n\"\"\",\n  y = s\"\"\"coalesce({a},\n  {b})\"\"\",\n}\nfilter x != 'q'",
    "from t\nderive {\n  r1 = r\"C:\\dir\\n\",\n  e1 = \"tab\\there\\r\\nnext\\u{e9}\\x41\",\n  q = \"it's\",\n}\nfilter r1 != e1",
    "#! the module doc\n\n# a comment\nlet f = func x -> x + 1 # trailing comment\n\n#! doc of main\nfrom t # why\n# between\nselect {a, b = f a} # end",
    "from t\nderive x = 1\n  \\ + 2\n  # comment inside the wrap\n  \\ + a\nfilter x > 1",
    "prql target:sql.mssql version:\"0.13\"\n\nfrom t\nderive {z = \"\"\"l1\nl2\"\"\"}\ntake 3",
    "from `t\u00e0ble`\nderive {`gr\u00f6\u00dfe` = '\u00e9\u4e2d\U0001f600', n = \"\"\"\u00fc\n\u00f6\"\"\"}\nfilter `gr\u00f6\u00dfe` != '\u00df'",
    "let x = (\n  from t\n  filter a > 1\n)\nfrom x\njoin side:left u (==a)\ngroup {a} (\n  aggregate {s = sum b}\n)\nsort {-s}",
    "from_text format:json \"\"\"[\n  {\"a\": 1, \"b\": \"x\"},\n  {\"a\": 2, \"b\": \"y\"}\n]\"\"\"\nselect {a}",
    "from_text \"\"\"a,b\n1,2\n3,4\n\"\"\"\nfilter a > 1",
    "from t\nselect {\n  a,\n  c = case [\n    a > 1 => 'big',\n    true => 'small',\n  ],\n}\nsort {\n  -a,\n}",
    "from t",
]
TEXT_TAILS = [
    # accepted: literals whose value is the text between the quotes
    ("ml-string", "derive {zz_m1 = \"\"\"first\nsecond\n\"\"\", zz_m2 = 'x\ny'}"),
    ("ml-interp", "derive {zz_m3 = f\"\"\"{a}\n{b}\"\"\", zz_m4 = s\"\"\"f({a},\n{b})\"\"\"}"),
    ("raw-esc", "derive {zz_m5 = r\"raw\\r\\n\", zz_m6 = \"esc\\r\\n\\t\\u{e9}\"}"),
    ("mb-lit", "derive {zz_m7 = '\u00e9\u4e2d\U0001f600'} # c\u00f6mment\nfilter zz_m7 != '\u00df'"),
    ("nfc-nfd", "derive {zz_m8 = 'e\u0301' == '\u00e9'}"),
    ("wrap", "derive {\n  zz_m9 = 1, # one\n  zz_m10 =\n    \\ 2,\n}"),
    ("long-lit", "derive {zz_m11 = '" + "x" * 5000 + "'}"),
    # rejected, stage by stage, the offending text after every line break of the base
    ("err-resolve", "zz_unknown_fn a"),
    ("err-resolve-hint", "select {zz_a = a}\nfilter zz_missing > 1"),
    ("err-type", "take 'x'"),
    ("err-parse", "derive {zz_b = 1 +}"),
    ("err-lex", "derive {zz_c = 'unterminated}"),
    ("err-sql", "derive {zz_d = a ~= 'x'}"),           # rejected by rq_to_sql for mssql
    ("err-int", "derive {zz_e = 9223372036854775808}"),
    ("err-ml-then", "derive {zz_f = \"\"\"one\ntwo\"\"\"}\nzz_unknown_fn zz_f"),
    ("err-mb-then", "derive {zz_g = '\u00e9'}\nzz_unknown_fn zz_g"),
]
TEXT_HEADS = [
    ("prql-target", "prql target:sql.mssql\n"),
    ("prql-version", "prql version:\"0.13\" target:sql.sqlite\n\n"),
    ("doc", "#! doc comment\n"),
    ("blank", "\n\n"),
    ("comment", "# leading comment\n# second line\n\n"),
]


def _eol(sep):
    return lambda s: s.replace("\n", sep)


def _eol_cycle(seps):
    def f(s):
        parts = s.split("\n")
        return parts[0] + "".join(seps[i % len(seps)] + x for i, x in enumerate(parts[1:]))
    return f


def _each_line(pre="", post="", skip_first=False):
    def f(s):
        ls = s.split("\n")
        return "\n".join((x if (skip_first and i == 0) else pre + x + post) for i, x in enumerate(ls))
    return f


def _first(old, new):
    return lambda s: s.replace(old, new, 1)


def _then(*fs):
    def f(s):
        for g in fs:
            s = g(s)
        return s
    return f


_IDENT_MB = lambda s: re.sub(r"\bt\b", "t\u00e4_\u8868", re.sub(r"\ba\b", "\u00e4", s))
_NFD = lambda s: __import__("unicodedata").normalize("NFD", s)
_MB_PREFIX = lambda s: "# \u00fcn\u00efc\u00f6d\u00e9 \u4e2d\u6587 \U0001f600\U0001f600\n" + s
_LONG_PREFIX = lambda s: "# " + "long " * 20000 + "\n" + s
_BOM = lambda s: "\ufeff" + s

TEXT_PERTURBATIONS = [
    ("identity", lambda s: s),
    # line terminators
    ("eol:crlf", _eol("\r\n")), ("eol:cr", _eol("\r")), ("eol:mixed", _eol_cycle(["\r\n", "\n", "\r"])), ("eol:mixed2", _eol_cycle(["\n", "\r\n"])),
    ("eol:lfcr", _eol("\n\r")), ("eol:crcrlf", _eol("\r\r\n")), ("eol:ls", _eol("\u2028")), ("eol:nel", _eol("\x85")), ("eol:vt", _eol("\x0b")),
    ("eol:ff", _eol("\x0c")),
    # end of the text
    ("end:+lf", lambda s: s + "\n"), ("end:+crlf", lambda s: s + "\r\n"), ("end:+cr", lambda s: s + "\r"), ("end:strip", lambda s: s.rstrip("\n")),
    ("end:+lf3", lambda s: s + "\n\n\n"), ("end:+blanks", lambda s: s + "   "), ("end:+tab-lf", lambda s: s + "\t\n"),
    ("end:+comment", lambda s: s.rstrip("\n") + "\n# end"), ("end:+ctrl-z", lambda s: s + "\x1a"), ("end:+nul", lambda s: s + "\x00"),
    # byte order mark
    ("bom", _BOM), ("bom-after-line", lambda s: s.replace("\n", "\n\ufeff", 1)),
    # blanks
    ("ws:trailing", _each_line(post="  \t")), ("ws:tab-indent", _each_line(pre="\t", skip_first=True)), ("ws:tabs", lambda s: s.replace(" ", "\t")),
    ("ws:double", lambda s: s.replace(" ", "  ")), ("ws:nbsp", _first(" ", "\u00a0")), ("ws:zwsp", _first(" ", " \u200b")), ("ws:ideographic", _first(" ", "\u3000")),
    # multi-byte characters: comments, identifiers, normal forms
    ("mb:prefix-comment", _MB_PREFIX), ("mb:line-comments", _each_line(post=" # \u00e9\U0001f600")), ("mb:idents", _IDENT_MB), ("mb:nfd", _NFD),
    # long lines
    ("long:gap", _first(" ", " " * 20000)), ("long:prefix-comment", _LONG_PREFIX), ("long:one-line", lambda s: s.replace("\n", " " * 3000 + "\n", 1)),
    # pairs: a line-terminator style with each other kind
    ("crlf+end-crlf", _then(lambda s: s + "\n", _eol("\r\n"))), ("crlf+bom", _then(_eol("\r\n"), _BOM)), ("crlf+ws-trailing", _then(_each_line(post=" \t"), _eol("\r\n"))),
    ("crlf+tab-indent", _then(_each_line(pre="\t", skip_first=True), _eol("\r\n"))), ("crlf+mb-prefix", _then(_MB_PREFIX, _eol("\r\n"))),
    ("crlf+mb-line-comments", _then(_each_line(post=" # \u00e9\U0001f600"), _eol("\r\n"))), ("crlf+mb-idents", _then(_IDENT_MB, _eol("\r\n"))),
    ("crlf+long-prefix", _then(_LONG_PREFIX, _eol("\r\n"))), ("cr+mb-prefix", _then(_MB_PREFIX, _eol("\r"))), ("mixed+ws-trailing", _then(_each_line(post="  "), _eol_cycle(["\r\n", "\r", "\n"]))),
    ("crlf+strip", _then(lambda s: s.rstrip("\n"), _eol("\r\n"))),
]
# perturbations that put a character between tokens which the lexer of the unchanged tree does not accept there (U+FEFF included): they
# reach rejections only, unless the character lands inside a literal or a comment
TEXT_OUTSIDE_ALPHABET = {"eol:ls", "eol:nel", "eol:vt", "eol:ff", "end:+ctrl-z", "end:+nul", "bom", "crlf+bom", "bom-after-line", "ws:nbsp", "ws:zwsp",
                         "ws:ideographic"}
TEXT_OPTION_SETS = [{"format": False, "signature": False}, {"format": False, "signature": False, "target": "sql.sqlite"},
                    {"format": True, "signature": False, "target": "sql.mssql"}, {"format": True, "signature": True, "target": "sql.postgres"}]


def book_blocks():
    """every ```prql block of the book, the ones tagged `error` / `no-eval` included (both routes must agree on a rejection too)"""
    import corpus, glob, os
    out = []
    for f in sorted(glob.glob(os.path.join(corpus.REPO, "web/book/src/**/*.md"), recursive=True)):
        text = open(f, encoding="utf-8").read()
        for i, m in enumerate(re.finditer(r"```prql([^\n]*)\n(.*?)```", text, re.S)):
            out.append((f"book:{os.path.relpath(f, corpus.REPO)}#{i}", m.group(2)))
    return out


def one_per_line(s):
    """the pipeline written one transform per line (inside parentheses a line break is a pipe as well)"""
    return s.replace(" | ", "\n")


def text_variants(i, name, src, full):
    """structural rewrites of one base: (label, text).  full = every tail and head, else a rotating choice"""
    lines = one_per_line(src).rstrip("\n")
    out = [("as-is", src)]
    if lines != src:
        out.append(("lines", lines))
    T, H = len(TEXT_TAILS), len(TEXT_HEADS)
    tails = range(T) if full else sorted({i % T, (5 * i + 7) % T})
    for k in tails:
        out.append(("lines+tail:" + TEXT_TAILS[k][0], lines + "\n" + TEXT_TAILS[k][1]))
    heads = range(H) if full else [i % H]
    for h in heads:
        k = (3 * i + h + 1) % T
        out.append((f"head:{TEXT_HEADS[h][0]}+lines+tail:{TEXT_TAILS[k][0]}", TEXT_HEADS[h][1] + lines + "\n" + TEXT_TAILS[k][1]))
    return out


def rand_text(rng, src):
    """a generated program, rewritten and perturbed at random places"""
    s = one_per_line(src) if rng.random() < 0.8 else src
    label = []
    if rng.random() < 0.3:
        h = rng.choice(TEXT_HEADS); s = h[1] + s; label.append("head:" + h[0])
    for _ in range(rng.choice([0, 1, 1, 2])):
        t = rng.choice(TEXT_TAILS); s = s + "\n" + t[1]; label.append("tail:" + t[0])
    # decorate random line ends, then choose a terminator per line break
    ls = s.split("\n")
    for j in range(len(ls)):
        k = rng.random()
        if k < 0.15:
            ls[j] += rng.choice([" ", "\t", "  \t ", " # c", " # \u00e9\u4e2d\U0001f600", " #! d"])
        elif k < 0.22:
            ls[j] = rng.choice(["\t", "  ", " \t"]) + ls[j]
    seps = rng.choice([["\r\n"], ["\r\n"], ["\r"], ["\n", "\r\n"], ["\n", "\r\n", "\r"], ["\n", "\r\n", "\r", "\r\n\r\n", "\n\r", "\r\r\n"]])
    s = ls[0] + "".join(rng.choice(seps) + x for x in ls[1:])
    label.append("eol:" + "/".join(repr(x)[1:-1] for x in seps))
    for _ in range(rng.choice([0, 0, 1, 2])):
        n, f = rng.choice([q for q in TEXT_PERTURBATIONS if not q[0].startswith(("eol:", "crlf+", "cr+", "mixed+", "identity", "long:prefix", "crlf+long"))])
        s = f(s); label.append(n)
    return "rand:" + ",".join(label), s


# ------------------------------------------------------------------------------------------------

def run(ctx):
    br = vlib.standard_proof_obligations(ctx, ["PrqlModel.Props.C15"], ["Serde"],
        required_theorems=["span_json_roundtrip", "ident_json_roundtrip", "expr_json_roundtrip_partial",
                           "expr_json_roundtrip_counterexample", "staged_eq", "json_text_roundtrip",
                           "extracted_flatten_keys_disjoint", "extracted_skip_has_default"])
    ctx.rule = ("systematic corpus (one source per AST node kind / optional field / literal kind / statement kind / RQ transform kind, "
                "plus error programs and non-finite floats) and seeded random programs, each x (no target + 12 dialects) x format on/off "
                "[x signature comment in thorough]; a case = (source, option set) or (document, JSON round trip); non-trivial = the "
                "source reached the JSON stage (parsed) resp. the document was accepted; source-text layer: bases x structural rewrites x "
                "text perturbations (rotating share, seed-independent) + randomly perturbed generated programs, x 4 option sets")
    ctx.assumptions += ["serde / serde_json behave as modelled in Model/SerdeModel.lean (derive semantics of flatten, skip_serializing_if, "
                        "default, externally tagged enums); in particular every FINITE f64 is read back exactly from the text serde_json "
                        "writes (ryu shortest round-trip) - exercised by the float corpus, not proved",
                        "usize is 64 bits (Span.wf)"]
    if not br.cargo_ok:
        return
    import gen_serde
    try:
        walker = Walker(gen_serde.extract())
    except Exception as e:     # (also reported as a broken translator obligation) go on: the differential suites look for a failing input
        ctx.obligation("extracted serde shapes available to the walker", False, str(e)[:500])
        walker = Walker({"types": {}})
        walker.walk = lambda *a, **k: None

    n_rand = 400 if ctx.tier == "quick" else 4000
    sources = list(SYSTEMATIC) + [rand_program(ctx.rng) for _ in range(n_rand)]
    sigs = [False, True] if ctx.tier == "thorough" else [False]
    option_sets = [{"format": f, "signature": s, **({"target": "sql." + d} if d else {})}
                   for d in [None] + DIALECTS for f in (False, True) for s in sigs]
    ans = vh_batch([{"op": "staged_full", "prql": p, "options": option_sets, "want_json": True, "want_display": True} for p in sources], shards=vlib.NCPU,
                   timeout=3600)      # (a batch cut by the clock on a loaded machine would be reported as a harness failure)

    # ---- source-text layer: the same comparison on rewritten / perturbed text (built here, judged below) ---------------------------------------
    import corpus
    quick = ctx.tier == "quick"
    book = book_blocks()
    bases = [("directed", "directed:%d" % i, b, True) for i, b in enumerate(TEXT_BASES)]
    bases += [("corpus", "corpus:%d" % i, b, False) for i, b in enumerate(SYSTEMATIC)]
    bases += [("itest", "itest:" + n, b, False) for n, b in corpus.integration_queries()]
    bases += [("book", n, b, False) for n, b in book]
    layer, seen = [], set()                                     # (tag, text)
    nP = len(TEXT_PERTURBATIONS)
    for i, (kind, name, src, full) in enumerate(bases):
        for v, (vl, vt) in enumerate(text_variants(i, name, src, full)):
            for j, (pn, pf) in enumerate(TEXT_PERTURBATIONS):
                # a rotating share of the perturbations per (base, rewrite): every perturbation still meets every tail, every head and
                # every directed base several times on every run.  quick: 1/4 directed, 1/15 corpora; thorough: all directed, 1/3 corpora
                # (moduli coprime to the number of tails, so that a perturbation is not tied to one tail)
                if (i + v + j) % ((4 if full else 15) if quick else (1 if full else 3)):
                    continue
                t = pf(vt)
                if (t != vt or pn == "identity") and t not in seen:
                    seen.add(t)
                    layer.append(({"base": name, "rewrite": vl, "perturbation": pn}, t))
    n_det = len(layer)
    for n in range(300 if quick else 3000):                     # random second
        lab, t = rand_text(ctx.rng, rand_program(ctx.rng) if n % 4 else ctx.rng.choice(bases)[2])
        layer.append(({"base": "generated" if n % 4 else "corpus", "rewrite": lab, "perturbation": "random"}, t))
    import time
    t0 = time.time()
    lans = vh_batch([{"op": "staged_full", "prql": t, "options": TEXT_OPTION_SETS, "want_json": True, "want_display": True} for _, t in layer], shards=vlib.NCPU,
                    timeout=3600)
    t_layer_vh = time.time() - t0

    # which float literals of the corpus does serde_json not read back exactly?  (asked of serde_json itself)
    toks = sorted({m for a in ans + lans if isinstance(a.get("pl_json"), str) for m in FLOAT_TOKEN.findall(a["pl_json"])})
    frt = vh_batch([{"op": "f64_rt", "texts": toks}])[0].get("results", []) if toks else []
    inexact = {r["text"] for r in frt if r.get("finite") and not r.get("exact")}
    ctx.count("float literals: read back exactly by serde_json", sum(1 for r in frt if r.get("exact")))
    ctx.count("float literals: finite but NOT read back exactly by serde_json", len(inexact))
    ctx.coverage_extra["floats_not_exact_through_serde_json"] = [{k: r.get(k) for k in ("written", "reread")} for r in frt if r.get("finite") and not r.get("exact")][:20]

    def ulp(a):
        """the document holds a finite float that serde_json does not read back exactly"""
        return isinstance(a.get("pl_json"), str) and any(m in inexact for m in FLOAT_TOKEN.findall(a["pl_json"]))

    docs = []          # (kind, text) real serde_json output
    bad = dict(pl_rt=0, rq_rt=0, staged=0, direct=0)      # all failures of the implementation against the property
    unk = dict(pl_rt=0, rq_rt=0, staged=0, direct=0)      # ... those not classified as an open known finding

    def fail(bucket, fid, what, replay_obj):
        bad[bucket] += 1
        if not (fid and fid in ctx.known):
            unk[bucket] += 1
        ctx.oracle_failure(fid, what, replay_obj)
    stage_counts = {}

    def judge(p, a, option_sets, main=True, tag=None):
        """one source through both routes: every stage outcome, SQL text, error (kind, code, reason, hints, span) and - for a
        rejected source - the display / location a caller gets by composing the staged error against the text it submitted"""
        extra = {"text_layer": tag} if tag else {}
        if "panic" in a or "crash" in a or "garbled" in a:
            ctx.case(("src", p), False)
            ctx.oracle_failure(None, f"harness failure on {p!r}: {str(a)[:200]}", {"op": "staged_full", **extra, "prql": p, "observed": a})
            return
        if a.get("stage") == "prql_to_pl":
            # no PL: one-shot must report the same error (or die the same way) under every option set
            ctx.count("source: parse error")
            for o, one in zip(option_sets, a["oneshot"]):
                ctx.case((p, json.dumps(o, sort_keys=True)), False)
                if "panic_in_prql_to_pl" in a:
                    same = one.get("panic") == a["panic_in_prql_to_pl"]      # the same crash on both routes (C12's subject)
                    ctx.count("source: prql_to_pl and compile panic alike (see C12/C13)")
                else:
                    same = canon(one).get("errors") == canon(a)["errors"]
                if not same:
                    fail("staged", None, "prql_to_pl and compile report different parse errors",
                                       {"op": "staged_full", **extra, "prql": p, "options": o, "staged": a.get("errors", {"panic": a.get("panic_in_prql_to_pl")}), "oneshot": one})
            # the same error value composed against the same text must show the same display and location
            comp = a.get("composed") or {}
            for o, one, od in zip(option_sets, a["oneshot"], a.get("oneshot_disp") or []):
                if od is not None and comp.get("core") == one.get("errors") and comp.get("disp") != od:
                    fail("staged", None, "a prql_to_pl error composed against the source shows a different display / location than compile",
                         {"op": "staged_full", **extra, "prql": p, "options": o, "staged": comp.get("disp"), "oneshot": od})
                elif od is not None and "panic" in comp and "errors" in one:
                    fail("staged", None, "composing the prql_to_pl error against the source panics, compile reports an error",
                         {"op": "staged_full", **extra, "prql": p, "options": o, "oneshot": od})
            return
        plj_text = a.get("pl_json")
        plj = json.loads(plj_text) if plj_text else None
        if plj_text and main:
            docs.append(("pl", plj_text))
            walker.walk(("ref", "pr.ModuleDef"), plj, "pl")
        if a.get("rq_json") and main:
            docs.append(("rq", a["rq_json"]))
            walker.walk(("ref", "rq.RelationalQuery"), json.loads(a["rq_json"]), "rq")
        # to_pl(from_pl x) == x
        ctx.case(("pl_rt", p))
        if "to_pl_error" in a:
            reason = a["to_pl_error"][0]["reason"] if a["to_pl_error"] else ""
            fail("pl_rt", classify(p, plj, "to_pl", reason), f"to_pl(from_pl(parse {p!r})) fails: {reason}",
                 {"op": "staged_full", **extra, "prql": p, "stage": "to_pl", "reason": reason})
        elif not (a.get("pl_eq") and a.get("pl_json_eq")):
            fid = FINDING_FLOAT_ULP if ulp(a) and only_floats_differ(plj_text, a.get("pl_json2")) else None
            fail("pl_rt", fid, f"PL changes through JSON for {p!r}", {"op": "staged_full", **extra, "prql": p, "observed": {k: a.get(k) for k in ("pl_eq", "pl_json_eq", "pl_text_eq")}})
        # to_rq(from_rq y) == y, and the RQ of the re-read PL is the RQ of the PL
        if "rq_eq" in a or "to_rq_error" in a or "rq_outcome_differs" in a or "rq_errors" in a:
            ctx.case(("rq_rt", p))
            ok = a.get("rq_eq") and a.get("rq_json_eq") and a.get("rq_of_reread_pl_eq") and "to_rq_error" not in a and "rq_outcome_differs" not in a
            if "rq_errors" in a:
                ok = canon(a["rq_errors"]) == canon(a.get("rq_errors_staged"))
            if not ok:
                fid = None
                if ulp(a) and "to_rq_error" not in a and "rq_outcome_differs" not in a and \
                        (a.get("rq_of_reread_pl_eq") or only_floats_differ(a.get("rq_json_direct"), a.get("rq_json"))) and \
                        (a.get("rq_eq") or only_floats_differ(a.get("rq_json"), a.get("rq_json2"))):
                    fid = FINDING_FLOAT_ULP
                rr = a.get("rq_repeat") or {}
                if fid is None and a.get("rq_eq") and a.get("rq_json_eq") and rr.get("reread_result_reached") and rr.get("distinct_from_original_pl", 1) > 1:
                    fid = FINDING_NONDET
                fail("rq_rt", fid, f"RQ changes through JSON for {p!r}",
                     {"op": "staged_full", **extra, "prql": p, "observed": {k: a.get(k) for k in a if k.startswith("rq") or k.startswith("to_rq")}})
        # staged SQL == one-shot SQL (or same error), per option set
        for o, r in zip(option_sets, a.get("per_option", [])):
            key = (p, json.dumps(o, sort_keys=True))
            one, st, di = canon(r.get("oneshot")), canon(r.get("staged")), canon(r.get("direct"))
            ctx.case(key, nontrivial=True)
            outcome = "sql" if "sql" in one else ("panic on every route alike (C12's subject)" if "panic" in one and one == di else "error")
            stage_counts[outcome] = stage_counts.get(outcome, 0) + 1
            rep = r.get("repeat") or {}
            nondet = bool(rep.get("common")) and (rep.get("oneshot_variants", 1) > 1 or rep.get("staged_variants", 1) > 1)
            if di != one:
                fid = FINDING_NONDET if nondet else FINDING_PANIC if ("panic" in one and "is out of bounds of the source" in one["panic"] and not p.isascii() and "errors" in di) else None
                fail("direct", fid, "prql_to_pl;pl_to_rq;rq_to_sql (no JSON) differs from compile",
                                   {"op": "staged_full", **extra, "prql": p, "options": o, "direct": di, "oneshot": one})
            st_cmp = {k: v for k, v in st.items() if k != "stage"}
            if st_cmp != one:
                reason = (st.get("errors") or [{}])[0].get("reason", "") if isinstance(st.get("errors"), list) else ""
                fid = classify(p, plj, st.get("stage"), reason)
                if fid is None and ulp(a) and sql_only_floats_differ(st_cmp, one):
                    fid = FINDING_FLOAT_ULP
                if fid is None and "panic" in one and "is out of bounds of the source" in one["panic"] and not p.isascii() and "errors" in st_cmp:
                    fid = FINDING_PANIC
                if fid is None and nondet:
                    fid = FINDING_NONDET
                fail("staged", fid,
                     f"staged chain through JSON differs from compile ({st.get('stage', 'sql')}): {reason[:80]}",
                     {"op": "staged_full", **extra, "prql": p, "options": o, "staged": st, "oneshot": one})
            dsp = r.get("display")
            if dsp and isinstance(dsp.get("staged"), dict) and dsp["staged"].get("core") == dsp["oneshot"]["core"] \
                    and dsp["staged"].get("disp") != dsp["oneshot"]["disp"]:
                fail("staged", None, "the staged error composed against the source shows a different display / location than compile",
                     {"op": "staged_full", **extra, "prql": p, "options": o, "staged": dsp["staged"].get("disp"), "oneshot": dsp["oneshot"]["disp"]})
            if dsp:
                stage_counts["rejected source: display / location compared"] = stage_counts.get("rejected source: display / location compared", 0) + 1
        if main and len(ctx.samples) < 3 and a.get("per_option") and "sql" in a["per_option"][0]["oneshot"]:
            ctx.sample({"prql": p, "pl_json": plj_text[:300], "rq_json": (a.get("rq_json") or "")[:300],
                        "options": option_sets[3], "oneshot": a["per_option"][3]["oneshot"], "staged": a["per_option"][3]["staged"]})

    for p, a in zip(sources, ans):
        judge(p, a, option_sets)

    # ---- source-text layer: judged like the sources above
    tl = {}
    before, bad_main = dict(unk), dict(bad)
    t0 = time.time()
    for (tag, t), a in zip(layer, lans):
        judge(t, a, TEXT_OPTION_SETS, main=False, tag=tag)
        if a.get("stage") == "prql_to_pl":
            oc = "rejected by the parser"
        elif a.get("per_option"):
            ks = {("sql" if "sql" in r.get("oneshot", {}) else "panic" if "panic" in r.get("oneshot", {}) else "rejected") for r in a["per_option"]}
            oc = "accepted" if ks == {"sql"} else "rejected for some target" if "sql" in ks else "rejected after parsing" if ks == {"rejected"} else "panic"
        else:
            oc = "other"
        d = tl.setdefault(tag["perturbation"], {})
        d[oc] = d.get(oc, 0) + 1
        fam = tag["base"].split(":")[0]
        ctx.count(f"text layer: {fam} bases: {oc}")
    ctx.coverage_extra["text_layer_seconds"] = {"harness": round(t_layer_vh, 1), "judging": round(time.time() - t0, 1)}
    ctx.coverage_extra["text_layer"] = {"deterministic_texts": n_det, "random_texts": len(layer) - n_det, "bases": len(bases),
                                        "book_blocks": len(book), "outcome_by_perturbation": tl}
    short = [pn for pn, _ in TEXT_PERTURBATIONS
             if not (sum(v for k, v in tl.get(pn, {}).items() if k.startswith("rejected")) > 0 and
                     (pn in TEXT_OUTSIDE_ALPHABET or sum(v for k, v in tl.get(pn, {}).items() if k.startswith("accepted")) > 0))]
    ctx.obligation("generator coverage: every text perturbation reaches accepted and rejected programs", not short,
                   "; ".join(f"{pn}: {tl.get(pn)}" for pn in short)[:300])
    ctx.obligation("oracle: prql_to_pl .. rq_to_sql and compile agree on rewritten / perturbed source text (SQL, error kind, code, reason, "
                   "hints, span, composed display and location)", unk == before,
                   f"{len(layer)} texts ({n_det} deterministic) x {len(TEXT_OPTION_SETS)} option sets; {len(TEXT_PERTURBATIONS)} perturbations; "
                   f"new unexplained differences: { {k: unk[k] - before[k] for k in unk if unk[k] != before[k]} }")
    for k, v in stage_counts.items():
        ctx.count("one-shot outcome: " + k, v)
    known_note = lambda b: f"; {bad_main[b] - before[b]} failing case(s) are the open known finding(s) {sorted(ctx.known_hits)}" if bad_main[b] - before[b] else ""
    ctx.obligation("oracle: to_pl(from_pl x) == x on every parsed source (outside known findings)", before["pl_rt"] == 0,
                   f"{len(sources)} sources, {before['pl_rt']} unexplained failures" + known_note("pl_rt"))
    ctx.obligation("oracle: to_rq(from_rq y) == y and RQ(reread PL) == RQ(PL)", before["rq_rt"] == 0, f"{sum(1 for k, _ in docs if k == 'rq')} RQ documents")
    ctx.obligation("oracle: staged chain through JSON == compile for every option set (outside known findings)", before["staged"] == 0,
                   f"{len(option_sets)} option sets, {before['staged']} unexplained differences" + known_note("staged"))
    ctx.obligation("oracle: staged functions without JSON == compile", before["direct"] == 0, "")

    # ---- edited documents: optional fields absent / explicitly null -------------------------------------------------
    pl_docs = [json.loads(t) for k, t in docs if k == "pl"]
    edits, meta = [], []
    def norm(v):
        """optional fields written as null and optional fields left out are the same value"""
        if isinstance(v, dict):
            return {k: norm(x) for k, x in v.items() if not (x is None and k in ("span", "alias", "doc_comment"))}
        if isinstance(v, list):
            return [norm(x) for x in v]
        return v

    for d, dt in zip(pl_docs, [t for k, t in docs if k == "pl"]):
        if has_null_float(d) or any(m in inexact for m in FLOAT_TOKEN.findall(dt)):
            continue
        nospan = strip_keys(d, {"span"})
        edits.append({"op": "pl_json_rt", "json": json.dumps(nospan)}); meta.append(("no-span", nospan, nospan))
        bare = strip_keys(d, {"span", "doc_comment"})
        edits.append({"op": "pl_json_rt", "json": json.dumps(add_nulls(bare))}); meta.append(("explicit-null", add_nulls(bare), bare))
    eans = vh_batch(edits, shards=vlib.NCPU)
    nbad = 0
    for (kind, sent, expect), a in zip(meta, eans):
        ctx.case(("edit", kind, json.dumps(sent, sort_keys=True)), nontrivial="json" in a)
        ctx.count("edited PL document: " + kind)
        if "json" not in a:
            nbad += 1
            ctx.oracle_failure(None, f"to_pl rejects a PL document with optional fields {kind}: {str(a)[:200]}", {"op": "pl_json_rt", "json": json.dumps(sent), "observed": a})
            continue
        got = json.loads(a["json"])
        walker.walk(("ref", "pr.ModuleDef"), got, "pl-edit")
        if norm(got) != norm(expect) or not a.get("reread_eq"):
            nbad += 1
            ctx.oracle_failure(None, f"from_pl(to_pl(d)) != canonical d for a document with optional fields {kind}",
                               {"op": "pl_json_rt", "json": json.dumps(sent), "observed": a["json"][:2000]})
    ctx.obligation("oracle: absent / null optional fields decode to None and re-serialise canonically", nbad == 0, f"{len(edits)} edited PL documents")

    # ---- tie for Gen/Serde: every real document is explained by the extracted shapes; coverage ----------------------
    ctx.obligation("correspondence: every key of every real PL/RQ JSON document is a field/variant of the extracted serde shapes",
                   not walker.problems, "; ".join(walker.problems[:5]))
    for pr in walker.problems[:3]:
        ctx.disagreement("serde-shape", pr, {"problem": pr})
    uni = walker.universe()
    pr_keys = {k for k in uni if k.startswith(("pr.", "lr.", "generic.Range<Box<pr", "generic.InterpolateItem<pr", "generic.SwitchCase<Box<pr"))}
    missing = sorted(k for k in pr_keys if k not in walker.cov and not expected_uncovered(k))
    ctx.coverage_extra["json_coverage"] = {"keys_possible": len(uni), "keys_hit": len([k for k in uni if k in walker.cov]),
                                           "pr_keys_possible": len(pr_keys), "pr_keys_hit": len([k for k in pr_keys if k in walker.cov]),
                                           "pr_uncovered_expected": sorted(k for k in pr_keys if k not in walker.cov and expected_uncovered(k)),
                                           "rq_uncovered": sorted(k for k in uni - pr_keys if k not in walker.cov),
                                           "counts (type[variant].field:state / enum::variant)": dict(sorted(walker.cov.items()))}
    ctx.obligation("generator coverage: every PR node kind and every optional field present and absent (except the documented unreachable ones)",
                   not missing, "uncovered: " + ", ".join(missing[:20]))

    # ---- tie for Model/Json.lean: real serde_json texts through the Lean parser/printer ------------------------------
    if not br.drv_ok:
        return
    texts = [t for _, t in docs]
    if ctx.tier == "quick":
        texts = texts[:len(SYSTEMATIC) * 2] + texts[len(SYSTEMATIC) * 2::4]
    pretty = [json.dumps(json.loads(t, parse_float=lambda s: FloatKeep(s)), indent=ctx.rng.choice([1, 2, None]), ensure_ascii=ctx.rng.random() < 0.5,
                         default=lambda o: o, cls=KeepFloatEncoder) for t in texts[::5]]
    lines = [f"json_print\t{enc(t)}" for t in texts] + [f"json_stat\t{enc(t)}" for t in texts + pretty] + [f"json_rt\t{enc(t)}" for t in pretty]
    out = drv_batch(lines, shards=vlib.NCPU)
    n = len(texts)
    jbad = 0
    for t, o in zip(texts, out[:n]):
        ctx.case(("json_print", t), True)
        if not o.startswith("ok ") or dec(o[3:]) != t:
            jbad += 1
            ctx.disagreement("json-lean", "Json.print (Json.parse t) != t for serde_json output", {"text": t[:3000], "model": o[:200]})
    for t, o in zip(texts + pretty, out[n:2 * n + len(pretty)]):
        ctx.case(("json_stat", t), True)
        if o != py_stat(t):
            jbad += 1
            ctx.disagreement("json-lean", "Lean's parse of the document differs from Python's (node counts)", {"text": t[:3000], "model": o, "python": py_stat(t)})
    for t, o in zip(pretty, out[2 * n + len(pretty):]):
        if o != "ok 1":
            jbad += 1
            ctx.disagreement("json-lean", "parse (print j) != j", {"text": t[:3000], "model": o})
    # malformed stream: accept/reject must agree with Python's parser
    muts = []
    alphabet = '{}[],:"\\ 019.eE+-tn' + "\n"
    for t in texts[:40 if ctx.tier == "quick" else 400]:
        t = t[:400]
        for _ in range(5):
            i = ctx.rng.randrange(len(t))
            k = ctx.rng.random()
            muts.append(t[:i] if k < 0.2 else (t[:i] + t[i + 1:] if k < 0.5 else (t[:i] + ctx.rng.choice(alphabet) + t[i:] if k < 0.8 else t[:i] + ctx.rng.choice(alphabet) + t[i + 1:])))
    muts += ["01", "-", "1.", ".5", "1e", "1e+", "[1,]", "{\"a\":1,}", "[", "\"\\x\"", "\"\\u12\"", "\"\t\"", "nul", "truee", "1 2", "", " ", "-0", "-0.0", "1E5", "1e-5",
             "\"\\ud83d\\ude00\"", "\"\\u00e9\\/\"", "[[[[[[[[]]]]]]]]", "{\"a\":{\"a\":{\"a\":[]}}}", " [ 1 , 2 ] ", "12345678901234567890123", "\"\\b\\f\""]
    mout = drv_batch([f"json_print\t{enc(t)}" for t in muts], shards=vlib.NCPU)
    acc = rej = 0
    for t, o in zip(muts, mout):
        ctx.case(("json_mut", t), True)
        want = py_accepts(t)
        if want is None:
            continue
        got = o.startswith("ok ")
        acc += got; rej += not got
        if got != want:
            jbad += 1
            ctx.disagreement("json-lean", f"Lean {'accepts' if got else 'rejects'} a text Python's json {'accepts' if want else 'rejects'}", {"text": t[:3000], "model": o[:100]})
        elif got and json.loads(dec(o[3:])) != json.loads(t):
            jbad += 1
            ctx.disagreement("json-lean", "value differs after Lean parse/print", {"text": t[:3000]})
    ctx.count("json texts through Lean: serde_json documents", n)
    ctx.count("json texts through Lean: re-indented", len(pretty))
    ctx.count("json texts through Lean: malformed stream accepted", acc)
    ctx.count("json texts through Lean: malformed stream rejected", rej)
    ctx.obligation("correspondence: Model.Json.parse/print agree with serde_json's text and Python's json on real and malformed documents", jbad == 0,
                   f"{n} documents exact, {len(pretty)} re-indented, {len(muts)} mutated")


class FloatKeep(float):
    """keeps the original token of a float so that re-indenting does not change number text"""
    def __new__(cls, s):
        o = super().__new__(cls, s)
        o.tok = s
        return o

    def __repr__(self):
        return self.tok


class KeepFloatEncoder(json.JSONEncoder):
    def iterencode(self, o, _one_shot=False):
        # the pure-python encoder calls float.__repr__ through `floatstr`; force it to use our repr
        self.c_make_encoder = None
        markers = {} if self.check_circular else None
        _encoder = json.encoder.encode_basestring_ascii if self.ensure_ascii else json.encoder.encode_basestring

        def floatstr(x, _repr=float.__repr__):
            return x.tok if isinstance(x, FloatKeep) else _repr(x)
        it = json.encoder._make_iterencode(markers, self.default, _encoder, self.indent, floatstr, self.key_separator,
                                           self.item_separator, self.sort_keys, self.skipkeys, _one_shot)
        return it(o, 0)


def replay(obj):
    if obj.get("kind") in ("no-failing-input-found", "correspondence") or obj.get("correspondence"):
        return vlib.replay_correspondence(obj)
    print(json.dumps(obj, indent=1)[:6000])
    r = obj.get("replay", obj)
    if r.get("op") == "staged_full":
        print(json.dumps(vh_batch([{"op": "staged_full", "prql": r["prql"], "options": [r.get("options", {})]}])[0], indent=1)[:6000])
    elif r.get("op") == "pl_json_rt":
        print(vh_batch([{"op": "pl_json_rt", "json": r["json"]}])[0])
    elif "text" in r:
        print(drv_batch([f"json_print\t{enc(r['text'])}"])[0][:2000])
    return 0
