"""C16 every emitted relational query (RQ) is closed and consistently identified."""
import copy, glob, json, os, random, re
import vlib, relgen
from vlib import vh_batch, drv_batch, enc
from props.c01 import SAFE, FULL, UNDECL

MANIFEST = dict(
    text="wfRq (Lean, executable, Model/Rq.lean) is the property as a predicate on the real RQ JSON: table ids distinct and declared "
         "before use; every column id defined exactly once (table-instance column or Compute); every cid used by a transform, window, "
         "partition, sort, range or join filter visible at that point of its pipeline; pipelines start with From, end with a Select of "
         "the declared arity. Lean theorems: lower_wf (every state reachable by the operations of a state-machine model of the Lowerer's "
         "id discipline satisfies the invariant and emits only relations that pass wfRq), wf_enables_backend (wfRq implies the "
         "preconditions of AnchorContext::of / QueryLoader: every cid looked up in column_decls was registered exactly once, every table "
         "ref finds its declaration, load_names' arity assertion holds), plus structural lemmas and rejected hand-made RQs per clause. "
         "Tie: the RQ the real resolver emits for every accepted program of the generators and corpora goes through wfRq in drv (monitor) "
         "and through an independent Python re-implementation; mutated RQ documents must be rejected with the clause that was broken.",
    note="the visibility clause of lower_wf rests on the operations' guard that looked-up cids are in the current frame (that is the "
         "resolver's contract, C10); the id discipline proper (freshness, single definition, declaration order, shape) is proved "
         "unconditionally. The model of the Lowerer is a model: it is tied to lowering.rs only through the monitor on real RQ. "
         "The tree violates the scope clause in listed ways caused by the Flattener's persistent `sort` "
         "(stale-sort-after-select, stale-sort-after-aggregate; theorem emitted_rq_wf_counterexample holds the witnesses; a third one, "
         "sort-leaks-into-subpipeline, was repaired by fix 147decc - leaked_sort_document_rejected keeps the old document as a "
         "regression witness and the check requires the compiler not to emit it any more); every other emitted RQ must pass wfRq, and "
         "the two stale-sort classes must pass the relaxed wfRqLax.",
    technique="Lean 4 invariant proof over a state machine + executable predicate as monitor on real RQ JSON + mutation testing", ref="4/C16")

DECL = ("module default_db {\n let t <[{a = int, b = int, c = text}]>\n let u <[{a = int, d = int, e = text}]>\n"
        " let v <[{a = int, b = int, c = text}]>\n}\n")

# hand-written corpus; `D:` prefix = with declared schemas for t, u, v
CORPUS = [
    # same-named declarations in different modules, referenced together (table identity must follow the full path)
    "module staging {\n  let orders = (from raw_orders | filter status == 'new' | select {id, amount})\n}\nmodule archive {\n  let orders = (from old_orders | filter status == 'done' | select {id, amount})\n}\nfrom s = staging.orders\njoin a = archive.orders (==id)\nselect {s.id, new_amount = s.amount, old_amount = a.amount}",
    "module m1 {\n  let x = (from t1 | select {a})\n}\nmodule m2 {\n  let x = (from t2 | select {a})\n  module m3 {\n    let x = (from t3 | select {a})\n  }\n}\nfrom m1.x | append m2.x | append m2.m3.x",
    "module m1 {\n  let x = (from t1 | select {a, b})\n}\nlet x = (from t0 | select {a, b})\nfrom x | join side:left y = m1.x (==a) | select {x.b, yb = y.b}",
    # append whose top has unnamed / computed columns over a named bottom (and the other way round)
    "from invoices | select {customer_id, total + tax} | append (from orders | select {customer_id, amount = total}) | filter customer_id > 0",
    "from invoices | select {customer_id, amount = total} | append (from orders | select {customer_id, total + tax})",
    "from invoices | select {total + tax, customer_id + 1} | append (from orders | select {a = total, b = customer_id}) | sort a | take 3",
    "D:from t | select {a, b + 1} | append (from u | select {a, d}) | group a (aggregate {n = count this})",
    # nested group / window pipelines
    "D:from t | group a (sort b | derive {r = row_number this} | take 2)",
    "D:from t | group {a, c} (aggregate {s = sum b, n = count this}) | sort s | take 1..3",
    "D:from t | group a (window rows:-1..1 (sort b | derive {m = sum b}))",
    "D:from t | window expanding:true (sort a | derive {cs = sum b}) | filter cs > 3",
    "D:from t | sort a | window rolling:3 (derive {m = average b}) | group c (take 1)",
    "D:from t | group a (derive {rk = rank b, l = lag 1 b}) | filter rk == 1 | select {a, l}",
    "D:from t | derive {x = b + 1} | group a (sort x | take 1) | derive {y = x * 2} | group y (aggregate {n = count this})",
    "D:from t | group {a, b} (aggregate {n = count this}) | group a (aggregate {m = max n})",
    "from employees | group dept (sort {-salary} | take 3) | select {dept, name, salary}",
    "from employees | group {dept, title} (aggregate {avg_s = average salary, ct = count this}) | filter ct > 2 | sort {-avg_s}",
    "from employees | derive {gross = salary + benefits} | window range:-5..5 (sort gross | derive {near = count this})",
    # joins of sub-pipelines
    "D:from t | join (from u | filter d > 1 | select {a, d}) (==a) | select {t.b, d}",
    "D:from t | join side:left (from u | group a (aggregate {sd = sum d})) (==a) | derive {z = sd ?? 0}",
    "D:from t | join x = (from u | derive {f = d * 2} | take 5) (t.a == x.a && x.f > t.b) | select {t.a, x.f}",
    "D:from t | join (from u | join (from v | select {a, vb = b}) (==a) | select {u.a, u.d, vb}) (==a)",
    "D:from (from t | select {a, b} | take 10) | join side:full (from u | select {a, e}) (==a)",
    "from a | join b (a.id == b.id) | join c (a.id == c.id) | select {a.x, b.y, c.z}",
    "from a | join side:right b (a.id == b.aid) | group b.kind (aggregate {n = count this})",
    # loop
    "from [{n = 1}] | loop (filter n < 4 | select n = n + 1)",
    "from [{n = 1, m = 10}] | loop (filter n < 5 | select {n = n + 1, m = m - 1}) | sort n | take 3",
    "D:from t | select {a, b} | loop (filter a < 10 | derive {a2 = a + 1} | select {a = a2, b})",
    "from [{n = 1}] | loop (filter n < 3 | derive {k = n * 2} | select {n = k}) | aggregate {s = sum n}",
    # append
    "D:from t | append v",
    "D:from t | select {a, b} | append (from v | select {a, b}) | append (from u | select {a, d})",
    "D:from t | append (from v | filter b > 1) | group a (aggregate {n = count this})",
    "from a | append b | append c | sort x | take 5",
    "D:from t | select {a} | append (from u | select {a}) | join v (==a)",
    # several references to one let-table
    "D:let x = (from t | select {a, b})\nfrom x | join y = x (x.a == y.b) | select {x.a, yb = y.b}",
    "D:let x = (from t | filter b > 0 | derive {w = a + b})\nfrom x | append x | join x2 = x (==a) | select {x.a, x2.w}",
    "D:let x = (from t | group a (aggregate {s = sum b}))\nlet y = (from x | filter s > 1)\nfrom y | join x (==a) | join y2 = y (y2.a == x.a) | select {y.a, x.s, s2 = y2.s}",
    "let top = (from employees | sort salary | take 10)\nfrom top | join t2 = top (top.id == t2.boss) | select {top.name, t2.name}",
    "D:let x = (from t | select {a, b})\nlet z = (from x | join u (==a))\nfrom z | append z",
    # relation literals, from_text
    "from [{a = 1, b = 'x'}, {a = 2, b = 'y'}] | filter a > 1",
    "from [{a = 1}] | join [{a = 1, c = null}] (==a)",
    "from t | join [{a = 1, w = true}] (t.a == that.a) | select {t.a, w}",
    "from_text format:json '[{\"a\": 1, \"b\": \"x\"}, {\"a\": 2, \"b\": \"y\"}]' | derive {c = a + 1}",
    "from_text format:csv \"a,b\\n1,2\\n3,4\" | aggregate {s = sum a}",
    "let ltab = [{k = 1, v = 'one'}, {k = 2, v = 'two'}]\nfrom l1 = ltab | join l2 = ltab (l1.k == l2.k) | select {l1.v, v2 = l2.v}",
    # s-string tables and s-string / f-string / case / in / ranges in expressions
    "from s\"SELECT a, b FROM tab\" | filter a > 1 | select {a, b}",
    "from s\"SELECT * FROM tab\" | derive {x = s\"coalesce({a}, 0)\"} | sort x",
    "from t | join s\"SELECT id, w FROM other\" (t.id == that.id)",
    "let q = s\"SELECT a, b FROM tab\"\nfrom q1 = q | join q2 = q (q1.a == q2.a) | select {q1.a, q2.a}",
    "D:from t | select {k = case [a > 1 => b, a < 0 => 0 - b, true => 0], f = f\"{c}-{a}\", i = (a | in 1..5), s = s\"abs({b})\"}",
    "D:from t | derive {p = a ** 2, q = a // 2, r = (a | as text), n = a ?? b} | filter (c ~= 'x') | take 2..4",
    "D:from t | filter (a | in [1, 2, 3]) | select {a}",
    # wildcard / undeclared tables, select !{}, this/that
    "from tracks | select !{milliseconds, bytes} | take 5",
    "from tracks | derive {x = 1} | select !{x}",
    "from a | join b (this.id == that.id) | select {a.*, b.y}",
    "from a | select {x, y} | derive {z = x + y} | select {z, this.x}",
    "from employees | select {e = this} | select {e.name}",
    "from tracks | group album_id (aggregate {n = count this, t = sum milliseconds}) | join albums (==album_id) | select {albums.title, n, t}",
    # misc: sort/take interplay, distinct, aggregate without group, functions, let + into
    "D:from t | sort {-a, b} | take 3 | select {a} | sort a",
    "D:from t | group {a, b, c} (take 1)",
    "D:from t | select {a} | group a (take 1) | aggregate {n = count this}",
    "D:let f = x y:1 -> x + y\nfrom t | derive {g = f a, h = (f y:2 b)} | filter g > h",
    "D:from t | select {a, b}\ninto firstq\n\nfrom firstq | join u (firstq.a == u.a)",
    "D:from t | aggregate {mx = max a, mn = min b} | derive {d = mx - mn}",
    "D:from t | derive {s = sum b} | filter s > a",
    "D:from t | filter a > 1 | filter b > 1 | derive {a = a + 1} | derive {a = a + 1} | select {a}",
    "D:from t | select {a, b} | derive {b = b + 1} | select {b, a} | sort b",
    "D:from t | take 5 | take 2..3 | filter a > 1 | take 1",
    "D:from t | sort a | group c (take 1) | sort b | take 3",
    "D:from t | group a (sort b | take 1) | group b (sort a | take 1)",
    # group keys WITH AN ALIAS (the Flattener copies the `by` tuple into the partition of every transform of the group's pipeline; lowering
    # must lower such a key once): several transforms inside the group, aggregate followed by more, join / append of an inline sub-pipeline
    "D:from t | group {k = b % 2} (aggregate {s = sum a} | derive {w = s + 1})",
    "D:from t | group {k = b % 2} (aggregate {s = sum a, n = count this} | filter n > 0 | select {s})",
    "D:from t | group {k = b % 2, j = c} (sort a | take 2 | derive {w = a + 1})",
    "D:from t | group {k = b % 2} (derive {w = a + 1} | sort w | take 1)",
    "D:from t | group {k = b % 2} (join side:left (from u | select {x = a, y = d}) (a == x))",
    "D:from t | group {k = b % 2} (join (from u | select {x = a}) (a == x) | derive {w = a + x})",
    "D:from t | group {k = b % 2} (append (from t | select {a, b, c}))",
    "D:from t | group {k = b % 2} (take 1) | derive {z = k + 1} | join (from u | select {x = a}) (a == x)",
    "D:from t | group {k = a + b, b} (aggregate {n = count this} | derive {m = n * 2}) | sort k",
    "D:from t | derive {q = a * 2} | group {k = q % 3} (window rows:-1..0 (derive {s = sum b}) | take 2)",
    "D:from t | join u (==a) | group t.a (aggregate {n = count this}) | join side:left v (==a) | sort {-n}",
    "D:from t | derive {k = a % 2} | group k (derive {r = row_number this, s = sum b}) | filter r <= 2 | aggregate {m = max s}",
    "D:from t | join u (==a) | derive {r = row_number this} | filter r < 3 | select {t.a, u.d, r}",
    "D:from t | sort b | derive {r = row_number this, l = lag 1 a} | join u (==a) | window rows:..0 (sort d | derive {cs = sum d})",
    # the two listed findings (a sort carried past select / aggregate): witnesses, transcribed in Props/C16.lean
    "D:from t | sort b | select {a} | take 2",
    "D:from t | sort b | aggregate {s = sum a} | derive {r = row_number this}",
    "D:from t | sort b | aggregate {s = sum a} | take 1",
    "D:from t | sort b | select {a} | derive {r = row_number this}",
    "D:from t | sort b | group a (take 1) | select {a} | take 2",
    # third finding: the outer sort leaks into the pipeline of a join/append argument
    "D:from t | sort {b} | append (from v | take 2..3)",
    "D:from t | sort {(a + 1)} | append (from v | select {a, b, c}) | group a (take 1)",
    "D:from t | sort {b} | join (from u | select {d} | take 2..3) (a == d)",
]


def strip_spans(v):
    if isinstance(v, dict):
        return {k: strip_spans(x) for k, x in v.items() if k != "span"}
    if isinstance(v, list):
        return [strip_spans(x) for x in v]
    return v


# ------------------------------------------------------------------------------------------------
# independent re-implementation of the predicate on the JSON document
# ------------------------------------------------------------------------------------------------

class Bad(Exception):
    pass


def expr_cids(e):
    k = e["kind"]
    (tag, v), = k.items()
    if tag == "ColumnRef":
        return [v]
    if tag in ("Literal", "Param"):
        return []
    if tag == "SString":
        return [c for it in v if "Expr" in it for c in expr_cids(it["Expr"]["expr"])]
    if tag == "Case":
        return [c for br in v for c in expr_cids(br["condition"]) + expr_cids(br["value"])]
    if tag == "Operator":
        return [c for a in v["args"] for c in expr_cids(a)]
    if tag == "Array":
        return [c for a in v for c in expr_cids(a)]
    raise KeyError(tag)


def range_cids(r):
    return (expr_cids(r["start"]) if r["start"] is not None else []) + (expr_cids(r["end"]) if r["end"] is not None else [])


def tr_parts(t):
    """(tag, defs, uses, tids, after) for one transform; uses are checked against `visible` (after the join instance is added)"""
    (tag, v), = t.items()
    return tag, v


def walk_defs_tids(ts, defs, tids):
    for t in ts:
        tag, v = tr_parts(t)
        if tag in ("From", "Append"):
            defs += [c for _, c in v["columns"]]; tids.append(v["source"])
        elif tag == "Join":
            defs += [c for _, c in v["with"]["columns"]]; tids.append(v["with"]["source"])
        elif tag == "Compute":
            defs.append(v["id"])
        elif tag == "Loop":
            walk_defs_tids(v, defs, tids)


def need(vis, cs, cut=None, site=None):
    for c in cs:
        if c not in vis:
            b = Bad(f"not-visible {c}")
            b.cut_by = (cut or {}).get(c)
            b.site = site
            b.cid = c
            raise b


def scope(vis, ts, lax=False, seen=None, cut=None):
    """strict: every use must be in `vis`; lax: the sort of a Take / of a window may name any column defined earlier in the pipeline"""
    seen = list(vis) if seen is None else seen
    cut = {} if cut is None else cut
    for t in ts:
        tag, v = tr_parts(t)
        if tag == "From":
            raise Bad("misplaced-from")
        elif tag == "Compute":
            u = expr_cids(v["expr"])
            w = v.get("window")
            srt, wu = [], []
            if w is not None:
                wu = range_cids(w["frame"]["range"]) + w["partition"]
                srt = [s["column"] for s in w["sort"]]
            need(vis, u, cut, ("Compute.expr", v["id"]))
            need(vis, wu, cut, ("Compute.window", v["id"]))
            need(seen if lax else vis, srt, cut, ("Compute.window.sort", v["id"]))
            vis = vis + [v["id"]]; seen = seen + [v["id"]]
        elif tag == "Select":
            need(vis, v, cut, ("Select", None))
            for c in vis:
                if c not in v:
                    cut[c] = "Select"
            vis = list(v)
        elif tag == "Filter":
            need(vis, expr_cids(v), cut, ("Filter", None))
        elif tag == "Aggregate":
            keep = v["partition"] + v["compute"]
            need(vis, keep, cut, ("Aggregate", None))
            for c in vis:
                if c not in keep:
                    cut[c] = "Aggregate"
            vis = keep
        elif tag == "Sort":
            need(vis, [s["column"] for s in v], cut, ("Sort", None))
        elif tag == "Take":
            need(vis, range_cids(v["range"]) + v["partition"], cut, ("Take", None))
            need(seen if lax else vis, [s["column"] for s in v["sort"]], cut, ("Take.sort", None))
        elif tag == "Join":
            cs = [c for _, c in v["with"]["columns"]]
            vis = vis + cs; seen = seen + cs
            need(vis, expr_cids(v["filter"]), cut, ("Join.filter", None))
        elif tag == "Append":
            pass
        elif tag == "Loop":
            scope(vis, v, lax, seen, dict(cut))
        else:
            raise KeyError(tag)
    return vis


def py_wf(rq, lax=False, info_out=None):
    """same answer format as the drv handler (strict verdict, or the relaxed one with lax=True)"""
    try:
        rels = [t["relation"] for t in rq["tables"]] + [rq["relation"]]
        info = []
        for r in rels:
            (kind, v), = r["kind"].items()
            defs, tids = [], []
            if kind == "Pipeline":
                walk_defs_tids(v, defs, tids)
            info.append((kind, v, defs, tids, len(r["columns"])))
        # tids
        declared = []
        for t, (kind, v, defs, tids, ar) in zip(rq["tables"], info):
            for x in tids:
                if x not in declared:
                    raise Bad(f"undeclared-tid {x}")
            if t["id"] in declared:
                raise Bad(f"duplicate-tid {t['id']}")
            declared.append(t["id"])
        for x in info[-1][3]:
            if x not in declared:
                raise Bad(f"undeclared-tid {x}")
        # defs
        alld = [c for i in info for c in i[2]]
        for i, c in enumerate(alld):
            if c in alld[i + 1:]:
                raise Bad(f"duplicate-cid {c}")
        # scope + shape
        nuses = 0
        for kind, v, defs, tids, ar in info:
            if kind == "Pipeline":
                if not v:
                    raise Bad("empty-pipeline")
                if "From" not in v[0]:
                    raise Bad("missing-from")
                scope([c for _, c in v[0]["From"]["columns"]], v[1:], lax)
                if len(v) < 2 or "Select" not in v[-1]:
                    raise Bad("missing-select")
                if len(v[-1]["Select"]) != ar:
                    raise Bad(f"select-arity {len(v[-1]['Select'])} {ar}")
            elif kind == "SString":
                need([], [c for it in v if "Expr" in it for c in expr_cids(it["Expr"]["expr"])])
            elif kind == "BuiltInFunction":
                need([], [c for a in v["args"] for c in expr_cids(a)])
            elif kind not in ("ExternRef", "Literal"):
                raise KeyError(kind)
        return f"ok {len(rq['tables'])} {len(alld)} {count_uses(rq)}"
    except Bad as b:
        if info_out is not None:
            info_out["cut_by"] = getattr(b, "cut_by", None)
            info_out["site"] = getattr(b, "site", None)
            info_out["cid"] = getattr(b, "cid", None)
        return "bad " + str(b)
    except (KeyError, TypeError, ValueError, AttributeError, IndexError):
        return "undecodable"


def tr_uses(t):
    """the cids one transform uses (loops included)"""
    tag, v = tr_parts(t)
    if tag == "Compute":
        u = expr_cids(v["expr"])
        w = v.get("window")
        if w is not None:
            u = u + range_cids(w["frame"]["range"]) + w["partition"] + [s["column"] for s in w["sort"]]
        return u
    if tag == "Select":
        return list(v)
    if tag == "Filter":
        return expr_cids(v)
    if tag == "Aggregate":
        return v["partition"] + v["compute"]
    if tag == "Sort":
        return [s["column"] for s in v]
    if tag == "Take":
        return range_cids(v["range"]) + v["partition"] + [s["column"] for s in v["sort"]]
    if tag == "Join":
        return expr_cids(v["filter"])
    if tag == "Loop":
        return [c for x in v for c in tr_uses(x)]
    return []


def count_uses(rq):
    n = 0
    for r in [t["relation"] for t in rq["tables"]] + [rq["relation"]]:
        (kind, v), = r["kind"].items()
        if kind == "Pipeline":
            n += sum(len(tr_uses(t)) for t in v)
        elif kind == "SString":
            n += len([c for it in v if "Expr" in it for c in expr_cids(it["Expr"]["expr"])])
        elif kind == "BuiltInFunction":
            n += len([c for a in v["args"] for c in expr_cids(a)])
    return n


# ------------------------------------------------------------------------------------------------
# mutations: one clause broken each
# ------------------------------------------------------------------------------------------------

def pipelines(rq):
    """all (relation, transforms) with a Pipeline kind, main last"""
    out = []
    for r in [t["relation"] for t in rq["tables"]] + [rq["relation"]]:
        if "Pipeline" in r["kind"]:
            out.append((r, r["kind"]["Pipeline"]))
    return out


def all_cids(rq):
    s = json.dumps(rq)
    defs, tids = [], []
    for _, ts in pipelines(rq):
        walk_defs_tids(ts, defs, tids)
    return defs


def mutations(rq, rng):
    """yield (kind, expected reason prefix(es), mutated document)"""
    out = []
    fresh = max(all_cids(rq) + [0]) + 1000
    pls = pipelines(rq)
    if not pls:
        return out

    def mut():
        m = copy.deepcopy(rq)
        return m, pipelines(m)

    # dangling cid in the final select of some pipeline
    m, p = mut(); i = rng.randrange(len(p)); sel = p[i][1][-1]["Select"]
    if sel:
        sel[rng.randrange(len(sel))] = fresh
        out.append(("dangling-cid-in-select", ["not-visible %d" % fresh], m))
    # dangling cid inside an expression (first ColumnRef found in a pipeline)
    m, p = mut()
    refs = []

    def find_refs(v):
        if isinstance(v, dict):
            if "ColumnRef" in v and isinstance(v["ColumnRef"], int):
                refs.append(v)
            for x in v.values():
                find_refs(x)
        elif isinstance(v, list):
            for x in v:
                find_refs(x)
    for _, ts in p:
        find_refs(ts)
    if refs:
        rng.choice(refs)["ColumnRef"] = fresh
        out.append(("dangling-cid-in-expr", ["not-visible %d" % fresh], m))
    # duplicate definition: a compute re-uses the cid of an instance column / another compute
    m, p = mut()
    comps = [t["Compute"] for _, ts in p for t in ts if "Compute" in t]
    defs = all_cids(m)
    if comps and len(defs) >= 2:
        c = rng.choice(comps)
        other = rng.choice([d for d in defs if d != c["id"]])
        c["id"] = other
        out.append(("duplicate-definition-compute", ["duplicate-cid %d" % other, "not-visible"], m))
    # duplicate definition: two instance columns share a cid
    m, p = mut()
    i = rng.randrange(len(p)); cols = p[i][1][0]["From"]["columns"]
    if len(cols) >= 2:
        cols[1][1] = cols[0][1]
        out.append(("duplicate-definition-instance", ["duplicate-cid %d" % cols[0][1], "not-visible"], m))
    # missing From
    m, p = mut(); i = rng.randrange(len(p)); del p[i][1][0]
    out.append(("missing-from", ["missing-from", "empty-pipeline"], m))
    # a second From in the middle
    m, p = mut(); i = rng.randrange(len(p)); ts = p[i][1]
    fr = copy.deepcopy(ts[0]); fr["From"]["columns"] = [[c, fresh + k] for k, (c, _) in enumerate(fr["From"]["columns"])]
    ts.insert(rng.randrange(1, len(ts)), fr)
    out.append(("second-from", ["misplaced-from"], m))
    # wrong select arity (declared columns one short / select one long)
    m, p = mut(); i = rng.randrange(len(p)); r, ts = p[i]
    if rng.random() < 0.5 and r["columns"]:
        r["columns"].pop()
    else:
        r["columns"].append({"Single": "extra"})
    out.append(("select-arity", ["select-arity"], m))
    # last select dropped
    m, p = mut(); i = rng.randrange(len(p))
    if len(p[i][1]) >= 2 and "Select" not in p[i][1][-2]:
        p[i][1].pop()
        out.append(("missing-select", ["missing-select"], m))
    # undeclared tid
    m, p = mut(); i = rng.randrange(len(p)); p[i][1][0]["From"]["source"] = 9999
    out.append(("undeclared-tid", ["undeclared-tid 9999"], m))
    # table declared after its use
    if len(rq["tables"]) >= 2:
        m, p = mut()
        users = [k for k, t in enumerate(m["tables"]) if "Pipeline" in t["relation"]["kind"]]
        if users:
            k = users[0]
            src = m["tables"][k]["relation"]["kind"]["Pipeline"][0]["From"]["source"]
            j = [x for x, t in enumerate(m["tables"]) if t["id"] == src][0]
            t = m["tables"].pop(j); m["tables"].insert(k, t)     # now after its user
            out.append(("tid-declared-late", ["undeclared-tid %d" % src], m))
    # duplicate tid
    if len(rq["tables"]) >= 2:
        m, p = mut(); m["tables"][-1]["id"] = m["tables"][0]["id"]
        out.append(("duplicate-tid", ["duplicate-tid %d" % m["tables"][0]["id"], "undeclared-tid"], m))
    # use before definition: move a compute to the end of its pipeline (before the final select)
    m, p = mut()
    cands = [(ts, k) for _, ts in p for k, t in enumerate(ts) if "Compute" in t and k < len(ts) - 2]
    if cands:
        ts, k = rng.choice(cands)
        cid = ts[k]["Compute"]["id"]
        used_later = any(cid in tr_uses(x) for x in ts[k + 1:-1])
        t = ts.pop(k); ts.insert(len(ts) - 1, t)
        if used_later:
            out.append(("use-before-definition", ["not-visible"], m))
    return out


# ------------------------------------------------------------------------------------------------

def book_programs():
    out = []
    for path in sorted(glob.glob(os.path.join(vlib.REPO, "web/book/src/**/*.md"), recursive=True)):
        text = open(path, encoding="utf-8").read()
        for m in re.finditer(r"^```prql([^\n]*)\n(.*?)^```", text, re.M | re.S):
            out.append((os.path.relpath(path, vlib.REPO), m.group(2)))
    return out


def query_files():
    out = []
    for pat in ("prqlc/prqlc/tests/integration/queries/*.prql", "prqlc/prqlc/examples/compile-files/queries/*.prql"):
        for path in sorted(glob.glob(os.path.join(vlib.REPO, pat))):
            out.append((os.path.relpath(path, vlib.REPO), open(path, encoding="utf-8").read()))
    return out


def py_both(rq):
    """strict verdict, with the relaxed verdict appended when the strict one is bad (the drv answer format); plus where it failed"""
    info = {}
    st = py_wf(rq, False, info)
    if st.startswith("bad"):
        lx = py_wf(rq, True)
        # is the offending cid defined in another relation of the query?  is the offending Compute dead in its own pipeline?
        if info.get("cid") is not None:
            rels = [t["relation"] for t in rq["tables"]] + [rq["relation"]]
            owners, users = [], []
            for i, r in enumerate(rels):
                if "Pipeline" in r["kind"]:
                    d, _t = [], []
                    walk_defs_tids(r["kind"]["Pipeline"], d, _t)
                    if info["cid"] in d:
                        owners.append(i)
                    site = info.get("site") or (None, None)
                    if site[1] is not None and site[1] in d:
                        info["compute_dead"] = not any(site[1] in tr_uses(t) for t in r["kind"]["Pipeline"])
                        users.append(i)
            info["foreign"] = bool(owners) and (not users or owners != users) if (info.get("site") or (None, None))[1] is not None else bool(owners)
        return st + "; lax " + ("ok" if lx.startswith("ok") else lx), info
    return st, info


def partition_hidden_by_inner_select(doc, cid):
    """is `cid` a partition column of a Take / window whose group pipeline ended in a Select that does not list it, while a
    later Select (the one the group itself appends) lists it again?"""
    for _, ts in pipelines(doc):
        parts, cut = set(), False
        for t in ts:
            k = next(iter(t))
            if k == "Take":
                parts |= set(t["Take"].get("partition") or [])
            elif k == "Aggregate":
                parts |= set(t["Aggregate"].get("partition") or [])
            elif k == "Compute" and (t["Compute"].get("window") or {}).get("partition"):
                parts |= set(t["Compute"]["window"]["partition"])
            elif k == "Select":
                if cid in parts and cid not in t["Select"]:
                    return True         # whatever uses it afterwards (the group's own Select, a later compute / sort / filter)
    return False


def classify(answer, info, doc=None):
    """known-finding predicates for a real RQ that fails wfRq.
    stale-sort-*: the relaxed predicate holds (the only defect is a stale sort column in a Take / window) and the column was cut
    off by an Aggregate resp. a Select.
    sort-leaks-into-subpipeline: the offending cid is defined in *another* relation of the query and is used by the sort of a
    Take / window, or by a Compute that nothing in its pipeline uses (the sort key's Compute pushed into the wrong buffer)."""
    site = (info.get("site") or (None, None))[0]
    if re.fullmatch(r"bad not-visible \d+; lax ok", answer):
        if info.get("cut_by") == "Aggregate":
            return "stale-sort-after-aggregate"
        if info.get("cut_by") == "Select":
            return "stale-sort-after-select"
    m2 = re.fullmatch(r"bad not-visible (\d+); lax bad not-visible (\d+)", answer)
    if doc is not None and m2 and any(partition_hidden_by_inner_select(doc, int(x)) for x in m2.groups()):
        return "group-pipeline-select-hides-partition-column"
    if doc is not None and re.fullmatch(r"bad not-visible (\d+); lax bad not-visible \1", answer) and info.get("foreign") and \
            (site in ("Join.filter", "Select", "Take", "Aggregate", "Sort", "Filter") or str(site).startswith(("Take.", "Aggregate.", "Compute."))):
        # the offending id is a Compute of ANOTHER relation (the inline pipeline that is the join's right-hand side)
        other = [t for tab in doc["tables"] for t in (tab["relation"]["kind"].get("Pipeline") or []) if "Compute" in t and t["Compute"]["id"] == info.get("cid")]
        if other:
            return "inline-side-compute-id-not-redirected"
    if re.fullmatch(r"bad not-visible (\d+); lax bad not-visible \1", answer) and info.get("foreign"):
        if site in ("Take.sort", "Compute.window.sort") or (site == "Compute.expr" and info.get("compute_dead")):
            return "sort-leaks-into-subpipeline"
    return None


def same_definition_corpus():
    """the SAME column definition (alias + expression) declared independently in several relations of one query: a let-table and the
    main pipeline, the main pipeline and an inline join / append side, two lets, a let and a loop body ... - every relation has to
    define its own column ids (seed independent)"""
    exprs = ['"staff"', "1", "true", "null", "@2020-01-01", "1.5", "a", "a + 1", "f\"x{a}\"", "case [a > 1 => 1, true => 0]", "s\"1\"", "-a", "(a ?? 0)"]
    out = []
    for e in exprs:
        d = f"derive {{kind = {e}}}"
        dd = f"derive {{kind = {e}, other = {e}}}"
        out += [
            f"let emp = (from t | {d} | select {{a, kind}})\nfrom u | {d} | select {{a, kind}} | append emp",
            f"let emp = (from t | {d} | select {{a, kind}})\nfrom u | {d} | join emp (==a) | select {{u.a, u.kind, k2 = emp.kind}}",
            f"from t | {d} | join side:left s = (from u | {d} | select {{a, k = kind}}) (==a) | select {{t.a, kind, s.k}}",
            f"from t | {d} | select {{a, kind}} | append (from u | {d} | select {{a, kind}})",
            f"let x = (from t | {d} | select {{a, kind}})\nlet y = (from u | {d} | select {{a, kind}})\nfrom x | append y",
            f"let x = (from t | {d} | select {{a, kind}})\nlet y = (from x | {d} | select {{a, kind}})\nfrom y | join x (==a)",
            f"from t | {dd} | select {{a, kind, other}} | append (from u | {dd} | select {{a, kind, other}})",
            f"from t | {d} | group {{a}} (aggregate {{n = count this}}) | join side:left s = (from t | {d} | select {{a, kind}}) (==a)",
        ]
    return [DECL + p_ for p_ in out]


def monitor(ctx, label, progs, rng, mutate_p):
    """progs: list of (origin, prql). Returns number of oracle failures."""
    ans = vh_batch([{"op": "rq", "prql": p} for _, p in progs])
    docs, meta = [], []
    for (origin, p), a in zip(progs, ans):
        if "rq" not in a:
            ctx.count(f"{label}:" + ("panic" if "panic" in a else "crash" if "crash" in a else "rejected"))
            ctx.case((p,), nontrivial=False)
            continue
        docs.append(a["rq"]); meta.append((origin, p))
    lines = [f"wfrq\t{enc(json.dumps(d, ensure_ascii=True))}" for d in docs]
    model = drv_batch(lines, shards=vlib.NCPU if len(lines) >= 32 else 1)
    nbad = 0
    muts = []
    for (origin, p), d, m in zip(meta, docs, model):
        py, info = py_both(d)
        ntr = sum(len(ts) for _, ts in pipelines(d))
        ctx.case((p,), nontrivial=m.startswith("ok") and ntr >= 3)
        ctx.count(f"{label}:" + m.split(" ")[0])
        for _, ts in pipelines(d):
            for t in ts:
                ctx.count("rq-transform:" + next(iter(t)))
        for t in d["tables"]:
            ctx.count("rq-table-kind:" + next(iter(t["relation"]["kind"])))
        if len(d["tables"]) > len({json.dumps(t["relation"], sort_keys=True) for t in d["tables"]}) or \
                len([1 for _, ts in pipelines(d) for t in ts if next(iter(t)) in ("From", "Join", "Append")]) > len(d["tables"]):
            ctx.count("rq-feature:table-instantiated-more-than-once")
        if m != py:
            ctx.disagreement("wfRq-vs-python", f"Lean wfRq says {m!r}, the Python re-implementation says {py!r}", {"prql": p, "origin": origin, "model": m, "python": py})
        if not m.startswith("ok"):
            nbad += 1
            fid = classify(m, info, d)
            ctx.count(f"{label}:bad:" + (fid or "UNCLASSIFIED"))
            ctx.oracle_failure(fid, f"the resolver emitted an RQ that is not well-formed: {m} ({origin})",
                               {"prql": p, "origin": origin, "wfRq": m, "python": py, "where": info, "class": fid})
        else:
            if len(ctx.samples) < 5 and ntr >= 6:
                ctx.sample({"prql": p[-300:], "wfRq": m, "rq_transforms": ntr, "rq_tables": len(d["tables"])})
            if rng.random() < mutate_p:
                for kind, expect, md in mutations(d, rng):
                    muts.append((kind, expect, md, p))
    # mutated documents: each must be rejected, by the clause that was broken (model and python alike)
    if muts:
        mm = drv_batch([f"wfrq\t{enc(json.dumps(md, ensure_ascii=True))}" for _, _, md, _ in muts], shards=vlib.NCPU if len(muts) >= 32 else 1)
        for (kind, expect, md, p), m in zip(muts, mm):
            py, _ = py_both(md)
            ctx.case(("mut", kind, p), nontrivial=True)
            if m != py:
                ctx.disagreement("wfRq-vs-python", f"mutation {kind}: Lean says {m!r}, Python says {py!r}", {"prql": p, "mutation": kind, "model": m, "python": py})
            if m.startswith("ok"):
                ctx.count(f"mutation:{kind}:ACCEPTED")
                ctx.disagreement("wfRq-rejects-mutations", f"mutation {kind} of a real RQ was accepted by wfRq", {"prql": p, "mutation": kind, "model": m})
            elif any(m.startswith("bad " + e) for e in expect):
                ctx.count(f"mutation:{kind}:rejected-by-expected-clause")
            else:
                ctx.count(f"mutation:{kind}:rejected-by-other-clause")
                ctx.disagreement("wfRq-rejects-mutations", f"mutation {kind}: rejected as {m!r}, expected one of {expect}", {"prql": p, "mutation": kind, "model": m})
    return nbad


def run(ctx):
    br = vlib.standard_proof_obligations(ctx, ["PrqlModel.Props.C16"], [],
        required_theorems=["lower_wf", "lower_inv", "lower_cid_above", "lower_mapping_defined", "wf_enables_backend", "wfRq_iff",
                           "wf_append_transform", "scope_visible_subset_defs", "wf_defined_before_use", "wf_rejects_invisible",
                           "emitted_rq_wf_counterexample", "leaked_sort_document_rejected"])
    ctx.rule = ("the RQ JSON the real resolver emits (harness op rq) for every accepted program of: the relational generator in the profiles "
                "safe / full / undeclared (fixed-seed corpus + VERIF_SEED tail), a hand-written corpus (nested group/window, joins of "
                "sub-pipelines, loop, append, several references to one let-table, relation literals, from_text, s-string tables, wildcards), "
                "all tests/integration/queries/*.prql and every ```prql block of the book; each document goes through Lean wfRq (drv) and a "
                "Python re-implementation; a sample of accepted documents is mutated (one clause broken per mutant) and must be rejected; "
                "a case is one program or one mutant; non-trivial = accepted by the resolver with >= 3 transforms, or a mutant")
    ctx.assumptions += ["the harness op `rq` returns serde_json::to_value of the RelationalQuery that pl_to_rq returns (no post-processing)"]
    if not (br.cargo_ok and br.drv_ok):
        return
    quick = ctx.tier == "quick"
    fixed = random.Random(160916)
    nbad = 0
    # tie of theorem emitted_rq_wf_counterexample: the two transcribed documents are what the compiler emits today
    wit = [(DECL + "from t | sort b | select {a} | take 2", "bad not-visible 1; lax ok"),
           (DECL + "from t | sort b | aggregate {s = sum a} | derive {r = row_number this}", "bad not-visible 1; lax ok"),
           (DECL + "from t | group {b} (sort {a} | take 2 | select {a, c})", "bad not-visible 1; lax bad not-visible 1"),
           # repaired by 147decc (leaked_sort_document_rejected): must be well-formed now
           (DECL + "from t | sort {b} | append (from t | take 2..3)", "ok")]
    wa = vh_batch([{"op": "rq", "prql": p} for p, _ in wit])
    wm = drv_batch([f"wfrq\t{enc(json.dumps(a.get('rq'), ensure_ascii=True))}" for a in wa])
    each = all(m == e or m.startswith("ok") for m, (_, e) in zip(wm, wit))
    ctx.obligation("tie: each witness of emitted_rq_wf_counterexample reproduces on the real compiler or is repaired; the repaired witness stays repaired",
                   each, str(wm))
    corpus = [("corpus", (DECL + p[2:]) if p.startswith("D:") else p) for p in CORPUS]
    nbad += monitor(ctx, "corpus", corpus, fixed, 1.0)
    nbad += monitor(ctx, "repo-queries", query_files(), fixed, 1.0)
    nbad += monitor(ctx, "book", book_programs(), fixed, 0.5)
    # directed shapes (seed independent): inline sub-pipelines as join sides (select not last), group pipelines ending in select /
    # derive as the LAST transform, one let-table read several times, joins over all columns
    directed = relgen.systematic_cases(2 if quick else 3, dict(SAFE, force_shape=["join_inline", "group_inner", "append_let"]), seed=161,
                                       sample=(random.Random(161), 1200), kinds=["select", "derive", "filter", "sort", "take", "aggregate", "group_take", "join", "append"], variants=2)
    dia = relgen.diamond_cases(SAFE, seed=162)
    directed += random.Random(163).sample(dia, 250) if quick else dia
    directed += relgen.setop_cases(SAFE)
    nbad += monitor(ctx, "directed-shapes", [("relgen:directed", c.prql) for c in directed], fixed, 1.0)
    nbad += monitor(ctx, "same-definition", [("same-definition", p_) for p_ in same_definition_corpus()], fixed, 0.3)
    for label, rng, n, prof in [("safe", fixed, 1000 if quick else 8000, SAFE), ("full", fixed, 1000 if quick else 8000, FULL),
                                ("undeclared", fixed, 800 if quick else 6000, UNDECL),
                                ("seed-tail-full", ctx.rng, 800 if quick else 8000, FULL),
                                ("seed-tail-undeclared", ctx.rng, 400 if quick else 4000, UNDECL)]:
        cases = [relgen.make_case(rng, **prof) for _ in range(n)]
        nbad += monitor(ctx, label, [("relgen:" + label, c.prql) for c in cases], rng, 0.15 if quick else 0.1)
    ctx.obligation("monitor: every RQ the resolver emitted passes wfRq (all unlisted cases)", not [v for v in ctx.violations if v["kind"] == "failing-input"],
                   f"{nbad} failing documents")
    dis = [v for v in ctx.violations if v["kind"] == "correspondence"]
    ctx.obligation("correspondence: Lean wfRq = Python re-implementation on real and mutated RQ JSON; every mutant rejected by its clause",
                   not dis, f"{len(dis)} disagreements")


def replay(obj):
    if obj.get("kind") in ("no-failing-input-found", "correspondence") or obj.get("correspondence"):
        return vlib.replay_correspondence(obj)
    r = obj.get("replay", obj)
    print(json.dumps({k: r.get(k) for k in ("prql", "origin", "wfRq", "python", "mutation", "model")}, indent=1))
    if "prql" in r:
        a = vh_batch([{"op": "rq", "prql": r["prql"]}])[0]
        if "rq" in a:
            print("now: wfRq =", drv_batch([f"wfrq\t{enc(json.dumps(a['rq'], ensure_ascii=True))}"])[0], " python =", py_both(a["rq"]))
        else:
            print("now:", str(a)[:500])
    return 0
