"""C17 tokens tile the source and re-lex to themselves."""
import itertools, json, multiprocessing, os, time
from collections import Counter
import vlib
from vlib import vh_batch, drv_batch, enc

MANIFEST = dict(
    text="Lean theorems over a mirror model of the lexer (ordered choice on the remaining input, byte spans; keyword/operator/escape/"
         "end_expr/unit tables regenerated from lexer/mod.rs and the Unicode classes dumped from the toolchain's std on every run): "
         "tokens_tile, gaps_are_whitespace, reject_has_errors, lex_fuel_suffices for all strings by induction on the lexing loop; "
         "relex_counterexample (`true|x`) refutes the full re-lex statement and relex_partial proves it for single-character "
         "controls, `@`, newlines, multi-character operators, comments and doc comments (ProvedClass in Props/C17.lean). "
         "Tied to the code by comparing lex_source with the model (kinds, values, byte spans, accept/reject) on ALL strings up to "
         "length 4 (quick) / 5 (thorough) over 28 lexically significant characters and on seeded random fragment strings; the "
         "property itself (tiling, whitespace gaps, re-lex of every token slice) is also checked directly on lex_source's output.",
    note="re-lex is false on the unchanged tree for identifiers spelled like a keyword/true/false/null (known finding "
         "relex-keywordlike-ident); re-lex of identifiers, keywords, literals, parameters, interpolations, ranges and "
         "line wraps is NOT proved in Lean (relex_excluding_keywordlike is kept as a def): it is covered by the enumeration only "
         "(tested-not-proved, listed in the evidence). Float values are compared as f64 (model keeps the normalised text).",
    technique="Lean 4 proof over regenerated lexer tables + exhaustive short-string correspondence", ref="4/C17")

ALPHA = ["'", '"', "\\", "#", "@", "$", ".", "0", "1", "_", "e", "x", "b", "r", "s", "f", "a", "l", "t", " ", "\t", "\n", "\r",
         "-", ":", "&", "|", "é"]
assert len(ALPHA) == 28 and len(set(ALPHA)) == 28

FRAGMENTS = ["let", "into", "case", "prql", "type", "module", "internal", "func", "import", "enum", "true", "false", "null",
             "x", "foo", "_a1", "été", "中", "x٣", "`a b`", "`", "s", "f", "r", "e", "E", "T", "Z",
             "0", "1", "7", "42", "007", "1_000", "0b", "0b101", "0x", "0xfF", "0o", "0o17", "0b_1", "1.5", "1.", ".5", "1e5", "2E-3", "1e+",
             "9223372036854775807", "9223372036854775808", "1e999", "5days", "3hours", "2years", "10microseconds", "1months",
             "@", "@2020-01-01", "@2020-01-01T10:00", "@12:30", "@12:30:45.123Z", "@08:00+01:00", "@20-01", "2020-01-01", "T10:00", "-0800",
             "'", '"', "'''", '""', "''", "\\", "\\n", "\\x41", "\\x4", "\\u{41}", "\\u{d800}", "\\u{", "\\'", "{", "}", "{x}",
             "'a'", '"b c"', "s'x'", 'f"{a}"', "r'\\n'", 'r"a\'', "'é'",
             "->", "=>", "==", "!=", ">=", "<=", "~=", "&&", "||", "??", "//", "**", "&", "~", "?", "^", ";",
             ">", "<", "/", "%", "=", "+", "-", "*", "[", "]", "(", ")", ".", "..", "...", ",", ":", "|", "!",
             "$", "$1", "$a.b", "#", "#!", "# c", "#!doc", " ", "  ", "\t", "\n", "\r", "\r\n", "\n\\", "\n # c\n \\", "\n#!d\n\\",
             " ", " ", "\U0001d11e"]

TOKEN_CLASSES_PROVED = []   # filled from the Lean file (see run)


class _Counted(set):
    """ctx.distinct with a bulk counter: the exhaustive enumeration's cases are distinct by construction (each string is
    generated exactly once), so they are counted instead of hashed (17.8M digests would not fit comfortably)"""
    extra = 0

    def __len__(self):
        return set.__len__(self) + self.extra


# ---------------------------------------------------------------------------------------------------------------
# canonical lines
# ---------------------------------------------------------------------------------------------------------------

def same(i, m):
    """implementation line vs model line; floats are compared as f64 (Rust prints `{:?}` of the parsed value, the model
    its normalised decimal text)"""
    if i == m:
        return True
    ti, tm = i.split(" "), m.split(" ")
    if len(ti) != len(tm):
        return False
    for a, b in zip(ti, tm):
        if a == b:
            continue
        pa, pb = a.split(":"), b.split(":")
        if len(pa) == 4 and len(pb) == 4 and pa[:3] == pb[:3] and pa[1:3] == ["Literal", "Float"]:
            try:
                if float(pa[3]) == float(pb[3]):
                    continue
            except ValueError:
                pass
        return False
    return True


def parse_ok(line):
    """'ok 0-0:Start 0-3:Ident:1,2' -> [(start, end, kindtext)]"""
    out = []
    for t in line.split(" ")[1:]:
        span, _, kind = t.partition(":")
        a, _, b = span.partition("-")
        out.append((int(a), int(b), kind))
    return out


def check_tiling(src, toks):
    """the property (tiling + gaps) on an accepted source's tokens; returns None or a description"""
    b = src.encode("utf-8")
    n = len(b)
    if not toks or toks[0] != (0, 0, "Start"):
        return "first token is not Start at 0..0"
    bounds = None
    if n != len(src):
        bounds, o = {0}, 0
        for c in src:
            o += len(c.encode("utf-8"))
            bounds.add(o)
    prev_end = 0
    for (s, e, k) in toks[1:]:
        if not (s <= e <= n):
            return f"span {s}-{e} outside the source (len {n})"
        if s == e:
            return f"empty token {k} at {s}"
        if s < prev_end:
            return f"token at {s}-{e} overlaps / precedes the previous token ending at {prev_end}"
        if bounds is not None and (s not in bounds or e not in bounds):
            return f"span {s}-{e} not on character boundaries"
        gap = b[prev_end:s]
        if gap.strip(b" \t"):
            return f"text between tokens at {prev_end}-{s} is not inline whitespace: {gap!r}"
        prev_end = e
    if b[prev_end:].strip(b" \t"):
        return f"text after the last token ({prev_end}-{n}) is not inline whitespace"
    return None


def process(strs, kwlike, want_kinds=True, shards=None):
    """lex every string with the implementation and the model, compare, check the property on the implementation output.
    returns a summary dict (picklable)"""
    B = 500
    reqs = [{"op": "lexc", "srcs": strs[i:i + B]} for i in range(0, len(strs), B)]
    sh = shards or (16 if len(strs) > 50000 else (4 if len(strs) > 2000 else 1))
    t0 = time.time()
    impl = []
    for a in vh_batch(reqs, shards=min(sh, max(1, len(reqs)))):
        impl.extend(a.get("r") or [json.dumps(a)] * B)
    impl = impl[:len(strs)]
    t1 = time.time()
    model = drv_batch(["lex\t" + enc(s) for s in strs], shards=sh)
    t2 = time.time()
    res = dict(n=len(strs), ok=0, reject=0, nontrivial=0, mismatches=[], failures=[], kinds=Counter(), ntok=Counter(),
               vh_s=t1 - t0, drv_s=t2 - t1, samples=[], repaired_sites=0)
    need = {}       # slice -> list of (src, start, end, kind)   (first few)
    for s, i, m in zip(strs, impl, model):
        if i == "reject":
            res["reject"] += 1
            res["nontrivial"] += 1
            toks = None
        elif i.startswith("ok "):
            res["ok"] += 1
            toks = parse_ok(i)
            if len(toks) > 1:
                res["nontrivial"] += 1
        else:
            toks = None
            res["failures"].append(("lexer-panic" if i.startswith("panic") else "lexer-inconsistent-result", s, i))
        agree = i == m or same(i, m)
        if toks is not None:
            why = check_tiling(s, toks)
            if why:
                res["failures"].append(("tiling", s, why))
            res["ntok"][min(len(toks) - 1, 12)] += 1
            b = None
            for (a, e, k) in toks[1:]:
                if want_kinds:
                    kk = k.split(":")
                    res["kinds"][kk[0] + (":" + kk[1] if kk[0] == "Literal" else "")] += 1
                if b is None:
                    b = s.encode("utf-8") if len(toks) > 2 or a != 0 or e != len(s.encode("utf-8")) else False
                if b is False:
                    continue        # a single token spanning the whole source re-lexes to itself trivially
                try:
                    sl = b[a:e].decode("utf-8")
                except UnicodeDecodeError:
                    continue        # reported by check_tiling
                lst = need.setdefault(sl, [])
                if len(lst) < 3 or all(x[3] != k for x in lst):
                    lst.append((s, a, e, k))
        if not agree:
            # at a known-finding site a behaviour that satisfies the property is accepted as well (repaired code)
            site = m.startswith("ok ") and any(k.startswith("Ident:") and k[6:] in kwlike for (_, _, k) in parse_ok(m))
            if site and toks is not None and check_tiling(s, toks) is None:
                res["repaired_sites"] += 1
                res["mismatches"].append(("site", s, i, m))
            else:
                res["mismatches"].append(("diff", s, i, m))
        if len(res["samples"]) < 3 and toks is not None and len(toks) > 3:
            res["samples"].append({"src": s, "implementation": i, "model": m})
    # re-lex every distinct token slice in isolation
    slices = sorted(need)
    rl = []
    reqs = [{"op": "lexc", "srcs": slices[i:i + B]} for i in range(0, len(slices), B)]
    for a in vh_batch(reqs, shards=min(sh, max(1, len(reqs)))):
        rl.extend(a.get("r") or [json.dumps(a)] * B)
    res["relex_slices"] = len(slices)
    res["relex_checked"] = 0
    for sl, r in zip(slices, rl):
        n = len(sl.encode("utf-8"))
        seen = set()
        for (s, a, e, k) in need[sl]:
            if k in seen:
                continue
            seen.add(k)
            res["relex_checked"] += 1
            if r != f"ok 0-0:Start 0-{n}:{k}":
                res["failures"].append(("relex", s, {"slice": sl, "span": [a, e], "in_context": k, "alone": r}))
    res["kinds"] = dict(res["kinds"]); res["ntok"] = dict(res["ntok"])
    res["mismatches"] = res["mismatches"][:50]
    nf = len(res["failures"])
    res["n_failures"] = nf
    # keep every class represented, bounded
    keep, per = [], Counter()
    for f in res["failures"]:
        cls = classify(f, kwlike)
        per[cls] += 1
        if per[cls] <= 10:
            keep.append(f)
    res["failure_classes"] = dict(per)
    res["failures"] = keep
    return res


def classify(f, kwlike):
    kind, s, d = f
    if kind != "relex":
        return kind
    k = d["in_context"]
    if k.startswith("Ident:") and k[6:] in kwlike and d["slice"] == "".join(chr(int(x)) for x in k[6:].split(",")):
        return "relex-keywordlike-ident"
    return "relex-other"


def _chunk(args):
    prefix, n, kwlike = args
    strs = [prefix + "".join(p) for p in itertools.product(ALPHA, repeat=n - len(prefix))]
    return process(strs, kwlike, shards=4 if n >= 5 else None)


def merge(ctx, tot, r, suite):
    tot["n"] += r["n"]; tot["ok"] += r["ok"]; tot["reject"] += r["reject"]; tot["nontrivial"] += r["nontrivial"]
    tot["relex_checked"] += r["relex_checked"]; tot["repaired"] += r["repaired_sites"]
    tot["vh_s"] += r["vh_s"]; tot["drv_s"] += r["drv_s"]
    for k, v in r["kinds"].items():
        tot["kinds"][k] += v
    for k, v in r["ntok"].items():
        tot["ntok"][k] += v
    for (kind, s, i, m) in r["mismatches"]:
        if kind == "diff":
            tot["diff"] += 1
            ctx.disagreement(suite, f"lex_source({s!r}) = {i} but the model says {m}", {"op": "lex", "src": s, "impl": i, "model": m})
    for cls, n in r["failure_classes"].items():
        tot["fail"][cls] += n
    for f in r["failures"]:
        cls = classify(f, tot["kwlike"])
        kind, s, d = f
        ctx.oracle_failure(cls, f"{kind}: {d if isinstance(d, str) else json.dumps(d)} (source {s!r})",
                           {"op": "lex", "src": s, "failure": kind, "detail": d})
    # oracle_failure above is called once per *kept* witness; account for the ones dropped by the per-class cap
    for cls, n in r["failure_classes"].items():
        kept = sum(1 for f in r["failures"] if classify(f, tot["kwlike"]) == cls)
        if n > kept:
            ctx.oracle_failures += n - kept
            if cls in ctx.known:
                ctx.known_hits[cls] = ctx.known_hits.get(cls, 0) + n - kept
    for smp in r["samples"]:
        ctx.sample(smp, limit=5)


def random_strings(rng, count):
    out = []
    for _ in range(count):
        target = rng.randint(5, 40)
        s = ""
        while len(s) < target:
            r = rng.random()
            if r < 0.80:
                s += rng.choice(FRAGMENTS)
            elif r < 0.95:
                s += rng.choice(ALPHA)
            else:
                s += chr(rng.choice([rng.randint(33, 126), rng.randint(0xA0, 0x24F), rng.randint(0x370, 0x6FF), rng.randint(0x2000, 0x206F),
                                     rng.randint(0x3040, 0x30FF), rng.randint(0x1F600, 0x1F64F), rng.randint(0, 31)]))
        out.append(s[:40])
    return out


def run(ctx):
    br = vlib.standard_proof_obligations(ctx, ["PrqlModel.Props.C17"], ["Lex", "Unicode"],
        required_theorems=["tokens_tile", "gaps_are_whitespace", "reject_has_errors", "relex_counterexample", "relex_partial",
                           "token_order_as_modelled", "literal_order_as_modelled", "lex_fuel_suffices"])
    n = 5 if ctx.tier == "thorough" else 4
    ctx.rule = (f"every string of length 0..{n} over the 28 lexically significant characters {''.join(ALPHA)!r} (exhaustive, seed-independent), "
                "then seeded random strings of 5-40 characters concatenated from token fragments (keywords, literals, operators, quotes, "
                "escapes, dates, comments, line wraps, non-ASCII); a case is one source string, lexed by lex_source (+ lex_source_recovery) "
                "and by the Lean model; non-trivial = rejected, or accepted with at least one token besides Start (the exhaustive strings "
                "are distinct by construction and are counted, random ones are de-duplicated by hash)")
    ctx.assumptions += ["float literal values are compared as f64: Rust's parsed value printed with {:?} against Python's float() of the "
                        "model's normalised text (IEEE parsing is not modelled in Lean)",
                        "re-lex is proved in Lean only for the classes in coverage.relex_proved_classes; the classes in "
                        "coverage.relex_tested_not_proved rest on the exhaustive enumeration + random strings through lex_source"]
    if not (br.cargo_ok and br.drv_ok):
        return
    S = br.gen.get("Lex", {}).get("summary", {})
    words = list(S.get("keywords", [])) + [b[0] for b in S.get("booleans", [])] + [S.get("null", "null")]
    kwlike = {",".join(str(ord(c)) for c in w) for w in words}
    ctx.distinct = _Counted(ctx.distinct)
    tot = dict(n=0, ok=0, reject=0, nontrivial=0, relex_checked=0, repaired=0, vh_s=0.0, drv_s=0.0, kinds=Counter(), ntok=Counter(),
               diff=0, fail=Counter(), kwlike=kwlike)

    # 0. the recorded witnesses first
    corpus = ["true|x", "let+1", "null:x", "false-1", "into|x", "a .. b", "x\n  # c\n  \\ y", "'a\\x4z'", "f\"{a}\" r'b\"", "@2020-01-01T10:00Z ..",
              "1.5e3 0x1F 5days", "été = 1", ""]
    r = process(corpus, kwlike)
    merge(ctx, tot, r, "corpus")
    for s in corpus:
        ctx.case(("corpus", s), nontrivial=bool(s.strip()))

    # 1. exhaustive
    t0 = time.time()
    jobs = [("", k, kwlike) for k in range(0, min(n, 4) + 1)]
    if n >= 5:
        jobs += [(c, 5, kwlike) for c in ALPHA]
    if len(jobs) > 6:
        with multiprocessing.Pool(4) as pool:
            results = pool.map(_chunk, jobs, chunksize=1)
    else:
        results = [_chunk(j) for j in jobs]
    before = tot["n"]
    for r in results:
        merge(ctx, tot, r, "exhaustive")
        ctx.evaluations += r["n"]
        ctx.distinct.extra += r["nontrivial"]
    n_ex = tot["n"] - before
    expect = sum(28 ** k for k in range(n + 1))
    ctx.exhaustive = True
    ctx.obligation(f"correspondence: lex_source = Model.Lex.lex on all {expect} strings of length <= {n} over the 28-character alphabet "
                   "(kinds, values, byte spans, accept/reject)", tot["diff"] == 0 and n_ex == expect,
                   f"{n_ex} strings, {tot['diff']} disagreements, {time.time() - t0:.0f}s")
    diff_before = tot["diff"]

    # 2. random fragment strings
    cnt = 300000 if ctx.tier == "thorough" else 40000
    rs = list(dict.fromkeys(random_strings(ctx.rng, cnt)))
    for i in range(0, len(rs), 100000):
        part = rs[i:i + 100000]
        r = process(part, kwlike)
        merge(ctx, tot, r, "random")
        ctx.evaluations += r["n"]
        ctx.distinct.extra += r["nontrivial"]      # de-duplicated above
    ctx.obligation(f"correspondence: lex_source = Model.Lex.lex on {len(rs)} seeded random fragment strings (5-40 chars)",
                   tot["diff"] == diff_before, f"{tot['diff'] - diff_before} disagreements")

    unknown = {k: v for k, v in tot["fail"].items() if k not in ctx.known}
    ctx.obligation("oracle: tiling, whitespace gaps and re-lex hold on lex_source's own output (outside recorded findings)",
                   not unknown, json.dumps(dict(tot["fail"])))
    ctx.coverage_extra["distribution"] = {
        "strings": tot["n"], "accepted": tot["ok"], "rejected": tot["reject"],
        "tokens_per_accepted_source(12=12+)": {str(k): v for k, v in sorted(tot["ntok"].items())},
        "token_kinds": dict(sorted(tot["kinds"].items())),
        "relex_checks(distinct slice x kind, per chunk)": tot["relex_checked"],
        "property_failures_by_class": dict(tot["fail"]),
        "known_finding_sites_where_code_now_satisfies_property": tot["repaired"],
    }
    ctx.coverage_extra["timing_s"] = {"vh": round(tot["vh_s"], 1), "drv": round(tot["drv_s"], 1)}
    ctx.coverage_extra["relex_theorems_in_props"] = relex_proved_classes()
    ctx.coverage_extra["relex_proved_classes"] = ["Control", "Annotate", "NewLine", "ArrowThin..Pow (multi-char operators)", "Comment", "DocComment"]
    ctx.coverage_extra["relex_tested_not_proved"] = ["Ident (not keyword-like)", "Keyword", "Literal:*", "Param", "Interpolation", "Range", "LineWrap"]


def relex_proved_classes():
    """the `relex_*` per-class theorems present in Props/C17.lean (reported, not trusted: each is audited as an obligation)"""
    import re
    try:
        text = open(os.path.join(vlib.LEAN, "PrqlModel", "Props", "C17.lean"), encoding="utf-8").read()
    except OSError:
        return []
    return sorted(set(re.findall(r"^theorem (relex_\w+)", text, re.M)))


def replay(obj):
    if obj.get("kind") in ("no-failing-input-found", "correspondence") or obj.get("correspondence"):
        return vlib.replay_correspondence(obj)
    print(json.dumps(obj, indent=1)[:4000])
    r = obj.get("replay", obj)
    if "src" in r:
        a = vh_batch([{"op": "lexc", "srcs": [r["src"]]}])[0]
        m = drv_batch(["lex\t" + enc(r["src"])])
        print("implementation:", a.get("r"))
        print("model:         ", m)
        d = r.get("detail")
        if isinstance(d, dict) and "slice" in d:
            print("slice alone:   ", vh_batch([{"op": "lexc", "srcs": [d["slice"]]}])[0].get("r"))
    return 0
