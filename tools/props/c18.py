"""C18 dialect choice: option, then header, then generic."""
import json
import vlib
from vlib import vh_batch, drv_batch, enc

MANIFEST = dict(
    text="Lean theorems (option_overrides, header_decides, neither_is_generic, unknown_header_is_error, targetFromStr_ok_iff, "
         "option_eq_header) over a model of Target::from_str and the dialect decision of compile_query, with the dialect enumeration "
         "regenerated from dialect.rs on every run; tied to the code by running the full option x header matrix and name mutations "
         "through the real compiler and the model, over a corpus of dialect dependent programs (tools/c18corpus.py: every construct "
         "with a per-dialect translation, s-strings used as relations over a grid of dialect specific SQL syntax x pipeline position, "
         "random compositions): output under (option A, header B) = output under option A alone, output under header A = output "
         "under option A, RQ identical under every header, signature comment and header-line spelling do not matter.",
    note="the theorem option_eq_header speaks about any SQL generator that is a function of (RQ, chosen dialect); that the real "
         "generator reads the header only through this decision is validated by the exhaustive matrix run, not proved.",
    technique="Lean 4 proof over regenerated dialect table + exhaustive option x header correspondence", ref="4/C18")

DIALECT_PROGRAMS = [
    "from t | select {a, b} | take 3",
    "from t | take 2..5 | sort a",
    "from t | derive {c = f\"{a}x{b}\"} | filter c != 'q'",
    "from t | group a (take 1)",
    "from t | select {`select`, `Mixed Case`, x = a // b, y = a ** 2}",
    "from t | filter (a ~= 'x') | select a",
    "from a | append b | select {x}",
    "let x = (from t | take 5)\nfrom x | join y (==id) | select {x.a, y.b}",
    "from t | derive {d = @2020-01-01, s = (a | as text)} | select {d, s, z = a / b}",
    "from t | select {x = math.round 2 a, y = text.length b, w = (a | in 1..5)}",
    "from t | sort {-a} | derive {r = row_number this, s = sum b}",
    "from t | remove u",
    "from t | select !{a}",
    "from t | fiter a",               # an error program: acceptance must not depend on the choice
    "from t | select {a} | filter zz > 1",
]


def strip_spans(v):
    if isinstance(v, dict):
        return {k: strip_spans(x) for k, x in v.items() if k != "span"}
    if isinstance(v, list):
        return [strip_spans(x) for x in v]
    return v


def run(ctx):
    br = vlib.standard_proof_obligations(ctx, ["PrqlModel.Props.C18"], ["Dialects"],
        required_theorems=["option_overrides", "header_decides", "neither_is_generic", "unknown_header_is_error",
                           "option_eq_header", "targetFromStr_ok_iff", "names_injective"])
    ctx.rule = ("full (option x header) matrix over the dialect names extracted from dialect.rs plus absent / sql.any / unknown "
                "spellings, for each of a fixed list of dialect-sensitive programs; a case is the triple (program, option, header); "
                "non-trivial = the compiler produced SQL for the chosen dialect (or the model predicts an error)")
    ctx.assumptions += ["SQL generation reads the header only through the dialect decision (theorem option_eq_header is about "
                        "any generator that is a function of (RQ, dialect)); this is what the matrix run validates"]
    if not br.cargo_ok:
        return
    dialects = br.gen["Dialects"]["summary"]["variants"] if "Dialects" in br.gen else \
        ["ansi", "bigquery", "clickhouse", "duckdb", "generic", "glaredb", "mssql", "mysql", "postgres", "redshift", "sqlite", "snowflake"]
    names = [r for r in vh_batch([{"op": "target_names"}])][0].get("names", [])
    # the implementation's own list of names must be what the translator extracted
    ctx.obligation("Target::names() = sql.any + extracted variants", names == ["sql.any"] + ["sql." + d for d in dialects], str(names))
    headers = [None, "sql.any"] + ["sql." + d for d in dialects] + ["sql.oracle", "sqlite", "sql.SQLite", "sql.", "sql.any ", "generic"]
    options = [None] + ["sql." + d for d in dialects]
    progs = DIALECT_PROGRAMS if ctx.tier == "thorough" else DIALECT_PROGRAMS[:6] + DIALECT_PROGRAMS[-2:]
    if ctx.tier == "thorough":
        # string-level round trip of from_str on mutated names
        muts = set()
        for n in ["sql.any"] + ["sql." + d for d in dialects]:
            for i in range(len(n) + 1):
                muts.add(n[:i] + n[i + 1:]); muts.add(n[:i] + "x" + n[i:]); muts.add(n[:i] + n[i:i + 1].upper() + n[i + 1:])
        extra = sorted(muts)
    else:
        extra = ["sql", "SQL.any", "sql.Any", "sql.duck", "sql.duckdbx", " sql.duckdb", "sql..mysql", "", "any", "x.any", "sql.x.any"]
        for d in dialects:   # a valid last segment under a wrong family / extra segment / no family
            extra += [d, "x." + d, "nosql." + d, "sql.x." + d, "sql." + d + ".", "sql." + d.upper()]
    ctx.exhaustive = True

    # 1. model's decision for every (option, header)
    def hdr_ok(h):  # can it be written as a header ident?  (`prql target:sql.x`)
        import re
        return h is None or re.fullmatch(r"[a-z]+(\.[A-Za-z]+)?", h) is not None

    cells = [(o, h) for o in options for h in headers]
    lines = [f"choose\t{(o[4:] if o else '-')}\t{0 if h is None else 1}\t{enc(h or '')}" for (o, h) in cells]
    model = dict(zip(cells, drv_batch(lines))) if br.drv_ok else {}

    # 2. Target::from_str vs targetFromStr on names + mutations (string level, includes text a header cannot spell)
    strs = sorted(set(h for h in headers if h is not None) | set(extra))
    impl = vh_batch([{"op": "target_from_str", "name": s} for s in strs])
    mod = drv_batch([f"target_from_str\t{enc(s)}" for s in strs]) if br.drv_ok else []
    nbad = 0
    for s, i, m in zip(strs, impl, mod):
        ctx.case(("from_str", s))
        iv = ("ok " + (i["ok"] or "-")) if "ok" in i else "err"
        if iv != m:
            nbad += 1
            ctx.disagreement("targetFromStr", f"Target::from_str({s!r}) = {iv} but model says {m}", {"name": s, "impl": i, "model": m})
        # the property itself: only sql.any / sql.<dialect> are accepted
        should = s == "sql.any" or (s.startswith("sql.") and s[4:] in dialects)
        if ("ok" in i) != should:
            ctx.oracle_failure(None, f"Target::from_str({s!r}) {'accepted' if 'ok' in i else 'rejected'}", {"op": "target_from_str", "name": s, "observed": i})
    ctx.obligation("correspondence: Target::from_str = Model.targetFromStr on names and mutations", nbad == 0, f"{len(strs)} strings")

    # 3. matrix on programs.  The fixed list and the construct corpus get the full matrix; the s-string-relation grid and the random
    #    compositions get (quick tier) every header without option, every header through the resolver, and for every option a window
    #    of 4 headers that rotates with the program index (all (option, header) pairs every 4 programs); thorough: full matrix.
    import c18corpus, os
    dump = open(os.environ["C18_DUMP"], "w") if os.environ.get("C18_DUMP") else None
    orig_fail = ctx.oracle_failure

    def fail(fid, what, rep, **kw):
        if dump:
            dump.write(json.dumps({"id": fid, "what": what, "replay": rep}) + "\n")
        return orig_fail(fid, what, rep, **kw)
    H = [h for h in headers if h is not None and hdr_ok(h)]
    feats, missing = c18corpus.features(vlib.REPO, dialects)
    ctx.obligation("corpus: a call shape for every std function that a dialect module of std.sql.prql overrides", not missing, str(missing))
    srel = c18corpus.sstring_relations(ctx.tier)
    rnd = c18corpus.random_programs(ctx.rng, 200 if ctx.tier == "thorough" else 60)
    plan = [("fixed", "fixed%d" % i, p, True) for i, p in enumerate(progs)] + [("construct", t, p, True) for t, p in feats] + \
           [("sstring-relation", t, p, ctx.tier == "thorough") for t, p in srel] + [("random", t, p, ctx.tier == "thorough") for t, p in rnd]
    ctx.rule += ("; programs = the fixed list + one program per dialect dependent construct (c18corpus.FEATURES, every std function overridden "
                 "in a dialect module) + s-strings used as relations (grid of dialect specific SQL syntax x position in the pipeline) + random "
                 "compositions; every program is also lowered to RQ under every header (must be identical)")
    nbad = 0
    nprog = {}
    CH = 48
    for c0 in range(0, len(plan), CH):
        chunk = plan[c0:c0 + CH]
        reqs, meta = [], []
        for k, (fam, tag, p, full) in enumerate(chunk, c0):
            for o in options:
                reqs.append({"op": "compile", "prql": p, **({"target": o} if o else {})}); meta.append((p, o, None, "base"))
            if full:
                mine = [(o, h) for o in options for h in H]
            else:
                mine = [(None, h) for h in H]
                for i, o in enumerate(options[1:]):
                    mine += [(o, H[(3 * i + 4 * k + j) % len(H)]) for j in range(4)]
            for (o, h) in mine:
                reqs.append({"op": "compile", "prql": f"prql target:{h}\n{p}", **({"target": o} if o else {})}); meta.append((p, o, h, "cell"))
            for h in [None] + H:
                reqs.append({"op": "rq", "prql": (f"prql target:{h}\n" if h else "") + p}); meta.append((p, None, h, "rq"))
            nprog[fam] = nprog.get(fam, 0) + 1
        ans = vh_batch(reqs)
        base, rqs = {}, {}
        for (p, o, h, kind), a in zip(meta, ans):
            if kind == "base":
                base[(p, o)] = a
        for (p, o, h, kind), a in zip(meta, ans):
            if kind == "rq":
                # T3: acceptance by the resolver - and the RQ it produces - does not depend on the header
                r = a.get("rq")
                if r is not None:
                    r = strip_spans(json.loads(json.dumps(r))); r.get("def", {}).pop("other", None)
                    key = json.dumps(r, sort_keys=True)
                else:
                    key = "ERR:" + json.dumps([e.get("reason") for e in a.get("errors", [])]) + str(a.get("panic", ""))
                first = rqs.setdefault(p, (h, key))
                ctx.case(("rq", p, h), nontrivial="rq" in a)
                if first[1] != key:
                    nbad += 1
                    fail(None, f"resolver result differs between header {first[0]!r} and {h!r}",
                                       {"prql": p, "headers": [first[0], h], "op": "rq"})
                continue
            if kind != "cell":
                continue
            m = model.get((o, h))
            ctx.case((p, o, h), nontrivial=("sql" in a) or (m or "").startswith("err"))
            ctx.count(f"opt={'some' if o else 'none'},hdr={'any' if h == 'sql.any' else ('known' if h and h[4:] in dialects else 'unknown')}")
            if len(ctx.samples) < 4 and "sql" in a and o is None:
                ctx.sample({"prql": f"prql target:{h}\n{p}", "option": o, "model_choice": m, "sql": a["sql"][:120]})
            if m is None:
                continue
            if m.startswith("ok "):
                d = m[3:]
                expect = base[(p, "sql." + d)]
                same = (a.get("sql") == expect.get("sql")) and (("sql" in a) == ("sql" in expect))
                if "sql" not in a and "sql" not in expect:
                    same = [e.get("reason") for e in a.get("errors", [])] == [e.get("reason") for e in expect.get("errors", [])] and a.get("panic") == expect.get("panic")
                if not same:
                    nbad += 1
                    fail(None, f"option={o} header={h}: output differs from compiling under option sql.{d} alone",
                                       {"prql": p, "option": o, "header": h, "expected_as": "sql." + d, "observed": a, "expected": expect})
            else:
                # the model says: error (unknown header consulted)
                if "sql" in a:
                    nbad += 1
                    fail(None, f"unknown target {h!r} was consulted but compilation succeeded",
                                       {"prql": p, "option": o, "header": h, "observed": a})
        # with neither option nor header-known: generic
        for (fam, tag, p, full) in chunk:
            a, g = base[(p, None)], base[(p, "sql.generic")]
            ctx.case((p, None, None))
            if a != g:
                nbad += 1
                fail(None, "no option, no header: output differs from generic", {"prql": p, "observed": a, "expected": g})
            # how dialect dependent is the program: number of distinct outputs over the options
            nd = len(set(json.dumps(base[(p, o)], sort_keys=True) for o in options))
            ctx.count(f"{fam}: distinct outputs over the options = {'1' if nd == 1 else '2-3' if nd <= 3 else '4+'}")
    for fam, n in nprog.items():
        ctx.count(f"programs: {fam}", n)
    ctx.obligation("correspondence+oracle: (option x header) matrix agrees with Model.chooseDialect", nbad == 0,
                   f"{len(cells)} cells; programs: {nprog}")

    # 4. the signature comment is the only thing that may tell option from header: the text before it is the unsigned output
    sreqs, smeta = [], []
    for p in DIALECT_PROGRAMS[:6] + [p for t, p in srel[:6]]:
        for o in options:
            for h in [None, "sql.any", "sql.mssql", "sql.postgres", "sql.oracle"]:
                if o is None and h == "sql.oracle":
                    continue
                q = {"op": "compile", "prql": (f"prql target:{h}\n" if h else "") + p, **({"target": o} if o else {})}
                sreqs += [q, {**q, "signature": True}]; smeta.append((p, o, h))
    sans = vh_batch(sreqs)
    nbad = 0
    for i, (p, o, h) in enumerate(smeta):
        plain, signed = sans[2 * i], sans[2 * i + 1]
        ctx.case(("sig", p, o, h), nontrivial="sql" in signed)
        if "sql" in plain and "sql" in signed:
            body, sep, comment = signed["sql"].partition("-- Generated by PRQL compiler")
            ok = sep != "" and body.rstrip() == plain["sql"].rstrip() and ("target:" in comment) == (o is not None) and (o is None or f"target:{o} " in comment)
        else:
            ok = ("sql" in plain) == ("sql" in signed)
        if not ok:
            nbad += 1
            fail(None, f"option={o} header={h}: signed output is not the unsigned output plus a comment naming the option",
                               {"prql": p, "option": o, "header": h, "observed": signed, "expected": plain})
    ctx.obligation("oracle: signature comment is the only difference between signed and unsigned output", nbad == 0, f"{len(smeta)} cases")

    # 5. spellings of the header line that say the same thing (other definitions next to target, comments, blank lines, spacing)
    import re
    ver = next((m.group(1) for a in sans if "sql" in a for m in [re.search(r"version:(\d+\.\d+)", a["sql"])] if m), None)
    spell = [lambda t: f"prql   target:{t}\n\n\n", lambda t: f"# c\n\nprql target:{t} # c\n", lambda t: f"prql target : {t}\n"]
    if ver:
        spell += [lambda t: f'prql target:{t} version:"{ver}"\n', lambda t: f'prql version:"^{ver}" target:{t}\n']
    sp_progs = DIALECT_PROGRAMS[:6] + [p for t, p in srel if t.endswith("pos0")][:10] + [p for t, p in feats][::12]
    qreqs, qmeta = [], []
    for p in sp_progs:
        for i, d in enumerate(dialects):
            o2 = "sql." + dialects[(i + 5) % len(dialects)]
            for o in (None, o2):
                qreqs.append({"op": "compile", "prql": p, "target": o or "sql." + d}); qmeta.append(None)
                for k, f in enumerate(spell):
                    qreqs.append({"op": "compile", "prql": f("sql." + d) + p, **({"target": o} if o else {})}); qmeta.append((p, o, d, k))
    qans = vh_batch(qreqs)
    nbad = 0
    for i, mt in enumerate(qmeta):
        if mt is None:
            expect = qans[i]; continue
        p, o, d, k = mt
        a = qans[i]
        ctx.case(("spelling", p, o, d, k), nontrivial="sql" in a)
        same = a.get("sql") == expect.get("sql") and [e.get("reason") for e in a.get("errors", [])] == [e.get("reason") for e in expect.get("errors", [])]
        if not same:
            nbad += 1
            fail(None, f"option={o}, header line {spell[k]('sql.' + d)!r}: output differs from compiling under option {o or 'sql.' + d} alone",
                 {"prql": spell[k]("sql." + d) + p, "option": o, "expected_as": o or "sql." + d, "observed": a, "expected": expect})
    ctx.obligation("oracle: equivalent spellings of the header line choose the same dialect", nbad == 0, f"{len(qmeta)} requests, version {ver}")


    # 6. sensitivity of the s-string grid: a stage that parsed s-string relations with the parser of "the" dialect instead of the
    #    generic one is only visible on texts that the two parsers treat differently; there must be such texts for every dialect
    texts = [(t, q.replace("{{", "{").replace("}}", "}")) for t, q in c18corpus.select_texts(ctx.tier) if not t.startswith("interp")]
    pans = vh_batch([{"op": "sqlparse", "dialect": d, "sql": q} for t, q in texts for d in dialects])
    if pans and "bad_op" not in pans[0]:
        pk = lambda a: ("ok", tuple(a["printed"])) if "printed" in a else ("err",)
        gi = dialects.index("generic") if "generic" in dialects else 0
        differ = {d: 0 for d in dialects}
        for i in range(len(texts)):
            row = pans[i * len(dialects):(i + 1) * len(dialects)]
            for d, a in zip(dialects, row):
                differ[d] += pk(a) != pk(row[gi])
        for d, n in differ.items():
            ctx.count(f"s-string grid texts parsed differently by sqlparser's {d} dialect than by its generic dialect", n)
        weak = [d for d, n in differ.items() if d != "generic" and n < 5]
        ctx.obligation("corpus: for every dialect the s-string grid has texts that its sqlparser dialect and the generic one parse differently",
                       not weak, f"{len(texts)} texts; {differ}")


def replay(obj):
    if obj.get("kind") in ("no-failing-input-found", "correspondence") or obj.get("correspondence"):
        return vlib.replay_correspondence(obj)
    print(json.dumps(obj, indent=1)[:4000])
    r = obj.get("replay", obj)
    if "prql" in r:
        req = {"op": r.get("op", "compile"), "prql": (f"prql target:{r['header']}\n" if r.get("header") else "") + r["prql"]}
        if r.get("option"):
            req["target"] = r["option"]
        print(vh_batch([req])[0])
    return 0
