"""C18 dialect choice: option, then header, then generic."""
import json
import vlib
from vlib import vh_batch, drv_batch, enc

MANIFEST = dict(
    text="Lean theorems (option_overrides, header_decides, neither_is_generic, unknown_header_is_error, targetFromStr_ok_iff, "
         "option_eq_header) over a model of Target::from_str and the dialect decision of compile_query, with the dialect enumeration "
         "regenerated from dialect.rs on every run; tied to the code by running the full option x header matrix and name mutations "
         "through the real compiler and the model.",
    note="the theorem option_eq_header speaks about any SQL generator that is a function of (RQ, chosen dialect); that the real "
         "generator reads the header only through this decision is validated by the exhaustive matrix run, not proved.",
    technique="Lean 4 proof over regenerated dialect table + exhaustive option x header correspondence", ref="4/C18")

DIALECT_PROGRAMS = [
    "from t | select {a, b} | take 3",
    "from t | take 2..5 | sort a",
    "from t | derive {c = f\"{a}x{b}\"} | filter c != 'q'",
    "from t | group a (take 1)",
    "from t | select {`select`, `Mixed Case`, x = a // b, y = a ** 2}",
    "from t | filter (a ~= 'x') | select a",
    "from a | append b | select {x}",
    "let x = (from t | take 5)\nfrom x | join y (==id) | select {x.a, y.b}",
    "from t | derive {d = @2020-01-01, s = (a | as text)} | select {d, s, z = a / b}",
    "from t | select {x = math.round 2 a, y = text.length b, w = (a | in 1..5)}",
    "from t | sort {-a} | derive {r = row_number this, s = sum b}",
    "from t | remove u",
    "from t | select !{a}",
    "from t | fiter a",               # an error program: acceptance must not depend on the choice
    "from t | select {a} | filter zz > 1",
]


def strip_spans(v):
    if isinstance(v, dict):
        return {k: strip_spans(x) for k, x in v.items() if k != "span"}
    if isinstance(v, list):
        return [strip_spans(x) for x in v]
    return v


def run(ctx):
    br = vlib.standard_proof_obligations(ctx, ["PrqlModel.Props.C18"], ["Dialects"],
        required_theorems=["option_overrides", "header_decides", "neither_is_generic", "unknown_header_is_error",
                           "option_eq_header", "targetFromStr_ok_iff", "names_injective"])
    ctx.rule = ("full (option x header) matrix over the dialect names extracted from dialect.rs plus absent / sql.any / unknown "
                "spellings, for each of a fixed list of dialect-sensitive programs; a case is the triple (program, option, header); "
                "non-trivial = the compiler produced SQL for the chosen dialect (or the model predicts an error)")
    ctx.assumptions += ["SQL generation reads the header only through the dialect decision (theorem option_eq_header is about "
                        "any generator that is a function of (RQ, dialect)); this is what the matrix run validates"]
    if not br.cargo_ok:
        return
    dialects = br.gen["Dialects"]["summary"]["variants"] if "Dialects" in br.gen else \
        ["ansi", "bigquery", "clickhouse", "duckdb", "generic", "glaredb", "mssql", "mysql", "postgres", "redshift", "sqlite", "snowflake"]
    names = [r for r in vh_batch([{"op": "target_names"}])][0].get("names", [])
    # the implementation's own list of names must be what the translator extracted
    ctx.obligation("Target::names() = sql.any + extracted variants", names == ["sql.any"] + ["sql." + d for d in dialects], str(names))
    headers = [None, "sql.any"] + ["sql." + d for d in dialects] + ["sql.oracle", "sqlite", "sql.SQLite", "sql.", "sql.any ", "generic"]
    options = [None] + ["sql." + d for d in dialects]
    progs = DIALECT_PROGRAMS if ctx.tier == "thorough" else DIALECT_PROGRAMS[:6] + DIALECT_PROGRAMS[-2:]
    if ctx.tier == "thorough":
        # string-level round trip of from_str on mutated names
        muts = set()
        for n in ["sql.any"] + ["sql." + d for d in dialects]:
            for i in range(len(n) + 1):
                muts.add(n[:i] + n[i + 1:]); muts.add(n[:i] + "x" + n[i:]); muts.add(n[:i] + n[i:i + 1].upper() + n[i + 1:])
        extra = sorted(muts)
    else:
        extra = ["sql", "SQL.any", "sql.Any", "sql.duck", "sql.duckdbx", " sql.duckdb", "sql..mysql", "", "any", "x.any", "sql.x.any"]
        for d in dialects:   # a valid last segment under a wrong family / extra segment / no family
            extra += [d, "x." + d, "nosql." + d, "sql.x." + d, "sql." + d + ".", "sql." + d.upper()]
    ctx.exhaustive = True

    # 1. model's decision for every (option, header)
    def hdr_ok(h):  # can it be written as a header ident?  (`prql target:sql.x`)
        import re
        return h is None or re.fullmatch(r"[a-z]+(\.[A-Za-z]+)?", h) is not None

    cells = [(o, h) for o in options for h in headers]
    lines = [f"choose\t{(o[4:] if o else '-')}\t{0 if h is None else 1}\t{enc(h or '')}" for (o, h) in cells]
    model = dict(zip(cells, drv_batch(lines))) if br.drv_ok else {}

    # 2. Target::from_str vs targetFromStr on names + mutations (string level, includes text a header cannot spell)
    strs = sorted(set(h for h in headers if h is not None) | set(extra))
    impl = vh_batch([{"op": "target_from_str", "name": s} for s in strs])
    mod = drv_batch([f"target_from_str\t{enc(s)}" for s in strs]) if br.drv_ok else []
    nbad = 0
    for s, i, m in zip(strs, impl, mod):
        ctx.case(("from_str", s))
        iv = ("ok " + (i["ok"] or "-")) if "ok" in i else "err"
        if iv != m:
            nbad += 1
            ctx.disagreement("targetFromStr", f"Target::from_str({s!r}) = {iv} but model says {m}", {"name": s, "impl": i, "model": m})
        # the property itself: only sql.any / sql.<dialect> are accepted
        should = s == "sql.any" or (s.startswith("sql.") and s[4:] in dialects)
        if ("ok" in i) != should:
            ctx.oracle_failure(None, f"Target::from_str({s!r}) {'accepted' if 'ok' in i else 'rejected'}", {"op": "target_from_str", "name": s, "observed": i})
    ctx.obligation("correspondence: Target::from_str = Model.targetFromStr on names and mutations", nbad == 0, f"{len(strs)} strings")

    # 3. matrix on programs
    reqs, meta = [], []
    for p in progs:
        for o in options:
            reqs.append({"op": "compile", "prql": p, **({"target": o} if o else {})}); meta.append((p, o, None, "base"))
        for (o, h) in cells:
            if not hdr_ok(h) or h is None:
                continue
            reqs.append({"op": "compile", "prql": f"prql target:{h}\n{p}", **({"target": o} if o else {})}); meta.append((p, o, h, "cell"))
        for h in headers:
            if hdr_ok(h):
                reqs.append({"op": "rq", "prql": (f"prql target:{h}\n" if h else "") + p}); meta.append((p, None, h, "rq"))
    ans = vh_batch(reqs)
    base, rqs = {}, {}
    for (p, o, h, kind), a in zip(meta, ans):
        if kind == "base":
            base[(p, o)] = a
    nbad = 0
    for (p, o, h, kind), a in zip(meta, ans):
        if kind == "rq":
            # T3: acceptance by the resolver does not depend on the header
            r = a.get("rq")
            if r is not None:
                r = strip_spans(json.loads(json.dumps(r))); r.get("def", {}).pop("other", None)
                key = json.dumps(r, sort_keys=True)
            else:
                key = "ERR:" + json.dumps([e.get("reason") for e in a.get("errors", [])]) + str(a.get("panic", ""))
            first = rqs.setdefault(p, (h, key))
            ctx.case(("rq", p, h), nontrivial="rq" in a)
            if first[1] != key:
                ctx.oracle_failure(None, f"resolver result differs between header {first[0]!r} and {h!r}",
                                   {"prql": p, "headers": [first[0], h], "op": "rq"})
            continue
        if kind != "cell":
            continue
        m = model.get((o, h))
        ctx.case((p, o, h), nontrivial=("sql" in a) or (m or "").startswith("err"))
        ctx.count(f"opt={'some' if o else 'none'},hdr={'any' if h == 'sql.any' else ('known' if h and h[4:] in dialects else 'unknown')}")
        if len(ctx.samples) < 4 and "sql" in a and o is None:
            ctx.sample({"prql": f"prql target:{h}\n{p}", "option": o, "model_choice": m, "sql": a["sql"][:120]})
        if m is None:
            continue
        if m.startswith("ok "):
            d = m[3:]
            expect = base[(p, "sql." + d)]
            same = (a.get("sql") == expect.get("sql")) and (("sql" in a) == ("sql" in expect))
            if "sql" not in a and "sql" not in expect:
                same = [e.get("reason") for e in a.get("errors", [])] == [e.get("reason") for e in expect.get("errors", [])] and a.get("panic") == expect.get("panic")
            if not same:
                nbad += 1
                ctx.oracle_failure(None, f"option={o} header={h}: output differs from compiling under option sql.{d} alone",
                                   {"prql": p, "option": o, "header": h, "expected_as": "sql." + d, "observed": a, "expected": expect})
        else:
            # the model says: error (unknown header consulted)
            if "sql" in a:
                nbad += 1
                ctx.oracle_failure(None, f"unknown target {h!r} was consulted but compilation succeeded",
                                   {"prql": p, "option": o, "header": h, "observed": a})
        # with neither option nor header-known: generic
    for p in progs:
        a, g = base[(p, None)], base[(p, "sql.generic")]
        ctx.case((p, None, None))
        if a != g:
            ctx.oracle_failure(None, "no option, no header: output differs from generic", {"prql": p, "observed": a, "expected": g})
    ctx.obligation("correspondence+oracle: (option x header) matrix agrees with Model.chooseDialect", nbad == 0, f"{len(cells)} cells x {len(progs)} programs")


def replay(obj):
    print(json.dumps(obj, indent=1)[:4000])
    r = obj.get("replay", obj)
    if "prql" in r:
        req = {"op": r.get("op", "compile"), "prql": (f"prql target:{r['header']}\n" if r.get("header") else "") + r["prql"]}
        if r.get("option"):
            req["target"] = r["option"]
        print(vh_batch([req])[0])
    return 0
