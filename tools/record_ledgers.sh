#!/bin/bash
# DEVELOPMENT ONLY (never part of a registered check): re-record the ledgers of deterministic failing inputs on the CURRENT /repo tree.
# Run after any change to the generators (tools/relgen.py, corpora) - only when /repo is the unchanged (or deliberately fixed) tree.
cd "$(dirname "$0")/.."
PROPS=${*:-C01 C03 C04 C05 C06 C07 C09}
for p in $PROPS; do rm -f known_cases/$p.json; for i in 1 2; do for t in quick thorough; do VERIF_RECORD_LEDGER=1 ./check $p --tier $t >/dev/null 2>&1; done; done; echo "$p: $(python3 -c "import json;print(len(json.load(open('known_cases/$p.json'))['cases']))") cases"; done
