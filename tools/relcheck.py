"""Run relational cases through the real compiler + SQLite and through the Lean reference semantics; classify; shrink."""
import json, re
import relgen
from vlib import vh_batch, drv_batch


def run_cases(cases, target="sql.sqlite"):
    """-> list of result dicts: {status, detail, sql, rows, model_rows, flags, names}"""
    ans = vh_batch([{"op": "compile", "prql": c.prql, "target": target} for c in cases])
    mod = drv_batch([f"eval\t{c.db_sexp}\t{c.sexp}" for c in cases])
    out = []
    for c, a, m in zip(cases, ans, mod):
        out.append(judge(c, a, m))
    return out


def judge(c, a, m):
    r = {"sql": a.get("sql"), "compile": a}
    pm = relgen.parse_model_rows(m) if m else None
    if pm is None:
        r.update(status="model-error", detail=str(m)[:200])
        return r
    flags, mrows = pm
    r.update(flags=flags, model_rows=mrows)
    if "panic" in a or "crash" in a:
        r.update(status="panic", detail=a.get("panic", a.get("crash")))
        return r
    if "sql" not in a:
        reason = (a.get("errors") or [{}])[0].get("reason", str(a)[:200])
        r.update(status="compile-error", detail=reason)
        return r
    sql_run = re.sub(r"\b(INTERSECT|EXCEPT|UNION) DISTINCT\b", r"\1", a["sql"])     # SQLite spells the DISTINCT form without the keyword
    stripped = False
    if re.search(r"\b(?:INTERSECT|EXCEPT) ALL\b", sql_run):
        # SQLite has no INTERSECT ALL / EXCEPT ALL: run the DISTINCT form; the answer is comparable only as a SET, and only when the
        # program's result is a set anyway (`set_compare`, e.g. it ends in a DISTINCT); otherwise nothing is compared
        sql_run = re.sub(r"\b(INTERSECT|EXCEPT) ALL\b", r"\1", sql_run)
        stripped = True
    names, rows, err = relgen.run_sqlite(c.schema_list, c.db, sql_run)
    if err:
        r.update(status="sqlite-error", detail=err)
        return r
    r.update(rows=rows, names=names)
    r["setop_all_stripped"] = stripped
    if len(names) != len(c.columns):
        r.update(status="column-count", detail=f"result has {len(names)} columns {names}, frame has {len(c.columns)} {c.columns}")
        return r
    # C01 is about rows; the order of columns is C05's business: align the model's columns to the result by name
    r["column_order_differs"] = False
    if names != c.columns and sorted(names) == sorted(c.columns):
        # same-named columns are matched in order of appearance (the k-th `k` of the result is the k-th `k` of the frame)
        used, perm = set(), []
        for n in names:
            i = next(j for j, e in enumerate(c.columns) if e == n and j not in used)
            used.add(i)
            perm.append(i)
        mrows = [[row[i] for i in perm] for row in mrows]
        r["column_order_differs"] = True
    if flags["ambig"] or (stripped and not getattr(c, "set_compare", False)):
        ok = True          # the row set legitimately depends on an unspecified choice: nothing to compare
        mode = "ambiguous"
    elif stripped:
        ok = relgen.canon_rows([list(x) for x in {tuple(y) for y in rows}]) == relgen.canon_rows([list(x) for x in {tuple(y) for y in mrows}])
        mode = "set"
    elif flags["sorted"] and not flags["ties"]:
        ok = rows == mrows
        mode = "seq"
    else:
        ok = relgen.canon_rows(rows) == relgen.canon_rows(mrows)
        mode = "bag"
    r["mode"] = mode
    if not ok and "WITH " in a["sql"]:
        # SQLite 3.40's query flattener has known wrong-result bugs (e.g. LEFT JOIN ... ON false-constant over an aggregated
        # CTE); re-run with every CTE materialised and trust that answer when the two differ
        sql2 = re.sub(r"\b(\w+) AS \(SELECT", r"\1 AS MATERIALIZED (SELECT", a["sql"])
        n2, rows2, err2 = relgen.run_sqlite(c.schema_list, c.db, sql2)
        if not err2 and rows2 != rows:
            rows_m = rows2
            ok2 = (rows_m == mrows) if mode == "seq" else (relgen.canon_rows(rows_m) == relgen.canon_rows(mrows))
            if ok2:
                r["engine_discrepancy"] = True
                ok = True
    if not ok:
        r.update(status="rows-differ", detail=f"compared as {mode}")
        return r
    if names != c.columns and not r["column_order_differs"]:
        r.update(status="names-differ", detail=f"{names} vs {c.columns}")
        return r
    r.update(status="ok", detail="")
    return r


def same_failure(r0, r1):
    if r0["status"] != r1["status"]:
        return False
    if r0["status"] in ("panic", "sqlite-error", "compile-error"):
        norm = lambda s: re.sub(r"[0-9]+|`[^`]*`|\"[^\"]*\"", "#", str(s))[:60]
        return norm(r0["detail"]) == norm(r1["detail"])
    return True


def shrink(c, r0, target="sql.sqlite", budget=60):
    """greedy: truncate the main pipeline, then drop rows; keeps the same failure class"""
    best, rbest = c, r0
    n = len(c.sx)
    # 1. shortest failing prefix
    cands = [c.truncated(k) for k in range(0, n)]
    res = run_cases(cands, target)
    for cand, r in zip(cands, res):
        if same_failure(r0, r):
            best, rbest = cand, r
            break
    # 2. drop rows one at a time (a few passes)
    for _ in range(3):
        changed = False
        cands = []
        for ti, rows in enumerate(best.db):
            for ri in range(len(rows)):
                db = [list(t) for t in best.db]
                db[ti] = rows[:ri] + rows[ri + 1:]
                cands.append(best.with_db(db))
        if not cands or budget <= 0:
            break
        budget -= len(cands)
        res = run_cases(cands, target)
        for cand, r in zip(cands, res):
            if same_failure(r0, r):
                best, rbest, changed = cand, r, True
                break
        if not changed:
            break
    return best, rbest


# ---------------------------------------------------------------------------------------
# classification of failures of the unchanged tree (known findings): signature predicates on the
# emitted SQL + symptom, so that a different failure is still reported
# ---------------------------------------------------------------------------------------

def _select_lists_of_unions(sql):
    """[(top_items, bottom_items)] for every `SELECT .. FROM .. UNION ALL SELECT .. FROM`"""
    out = []
    for m in re.finditer(r"SELECT ((?:(?!SELECT|FROM).)*?) FROM (?:(?!SELECT|UNION ALL).)*?UNION ALL SELECT ((?:(?!SELECT|FROM).)*?) FROM", sql):
        out.append(([x.strip() for x in m.group(1).split(",")], [x.strip() for x in m.group(2).split(",")]))
    return out


def union_misaligned(sql):
    """a UNION ALL whose branches are not positionally consistent: `*` against an explicit list, different
    lengths, or two explicit lists over the same table that name the same columns in different order"""
    for top, bot in _select_lists_of_unions(sql):
        if (top == ["*"]) != (bot == ["*"]):
            return True
        bare = lambda l: [x.split(" AS ")[-1].split(".")[-1] for x in l]
        if sorted(bare(top)) == sorted(bare(bot)) and bare(top) != bare(bot):
            return True
        if len(top) != len(bot):
            return True
        # explicit lists of base columns (u<i>, a<i>, b<i>, k<i>, c<i> in the generator's schema): same role per position
        def role(x):
            x = x.split(" AS ")[0].split(".")[-1].strip()
            return x[0] if re.fullmatch(r"[uabkc][0-9]", x) else None
        if any(role(a) and role(b) and role(a) != role(b) for a, b in zip(top, bot)):
            return True
    return False


def window_defect_variant(c, r):
    sub_sum = lambda s: re.sub(r"(?<=[-)] )sum(?= \()", "sum_null", s)
    sub_fl = lambda s: re.sub(r"(?<=[-)] )last(?= \()", "last_implicit", re.sub(r"(?<=[-)] )first(?= \()", "first_implicit", s))
    variants = [("window-sum-null-instead-of-zero", sub_sum(c.sexp)), ("window-first-last-ignore-frame", sub_fl(c.sexp)),
                ("window-first-last-ignore-frame", sub_fl(sub_sum(c.sexp)))]
    variants = [(n, s) for n, s in variants if s != c.sexp]
    if not variants:
        return None
    outs = drv_batch([f"eval\t{c.db_sexp}\t{s}" for _, s in variants])
    for (name, _), m in zip(variants, outs):
        pm = relgen.parse_model_rows(m)
        if not pm:
            continue
        vflags, mrows = pm
        if vflags.get("ambig") and name == "window-first-last-ignore-frame" and len(r.get("rows") or []) == len(mrows):
            # under the recorded defect semantics the program's result depends on an unspecified choice (a take over rows
            # that only the defect made distinct): nothing can be compared beyond the row count
            return name
        names = r.get("names") or []
        if names != c.columns and sorted(names) == sorted(c.columns):
            used, perm = set(), []
            for n in names:
                i = next(j for j, e in enumerate(c.columns) if e == n and j not in used)
                used.add(i)
                perm.append(i)
            mrows = [[row[i] for i in perm] for row in mrows]
        ok = (r["rows"] == mrows) if r.get("mode") == "seq" else (relgen.canon_rows(r["rows"]) == relgen.canon_rows(mrows))
        if ok:
            return name
    return None


def group_by_has_integer_term(sql):
    """is some top-level term of a GROUP BY list an integer literal (which SQL reads as the ordinal of a select item)?"""
    for m in re.finditer(r"GROUP BY ", sql):
        depth, term, i = 0, "", m.end()
        while i <= len(sql):
            ch = sql[i] if i < len(sql) else ")"
            if depth == 0 and (ch in ",)" or re.match(r" (?:HAVING|ORDER BY|LIMIT|UNION|INTERSECT|EXCEPT|WINDOW)\b", sql[i:])):
                if re.fullmatch(r"\s*-?[0-9]+\s*", term):
                    return True
                term = ""
                if ch != ",":
                    break
            else:
                depth += (ch == "(") - (ch == ")")
                term += ch
            i += 1
    return False


def _rq_frame_len(prql):
    try:
        return len(vh_batch([{"op": "rq", "prql": prql}])[0]["rq"]["relation"]["columns"])
    except Exception:
        return None


def _cids_used(x, acc):
    if isinstance(x, dict):
        for k, v in x.items():
            if k == "ColumnRef" and isinstance(v, int):
                acc.add(v)
            elif k in ("Select", "partition", "compute") and isinstance(v, list) and all(isinstance(i_, int) for i_ in v):
                acc.update(v)
            elif k == "column" and isinstance(v, int):
                acc.add(v)
            elif k in ("From", "with"):
                continue              # the instance's own column list is a definition, not a use
            else:
                _cids_used(v, acc)
    elif isinstance(x, list):
        for v in x:
            _cids_used(v, acc)


def _join_instance_is_pruned(prql):
    """does a relation of the program's RQ join instances of which some column is used nowhere in that relation's pipeline?
    (`prune_inputs` then removes it from the instance before the set-operation rewrites test for a 'join over all columns')"""
    try:
        rq = vh_batch([{"op": "rq", "prql": prql}])[0]["rq"]
        for rel in [t["relation"] for t in rq["tables"]] + [rq["relation"]]:
            pl = rel["kind"].get("Pipeline") if isinstance(rel["kind"], dict) else None
            if not pl or not any(isinstance(t, dict) and "Join" in t for t in pl):
                continue
            used = set()
            _cids_used(pl, used)
            for t in pl:
                if "Join" in t:
                    _cids_used(t["Join"].get("filter"), used)
            for t in pl:
                ref = t.get("From") if "From" in t else (t["Join"]["with"] if "Join" in t else None)
                if ref is not None and any(cid not in used for _, cid in ref["columns"]):
                    return True
    except Exception:
        pass
    return False


def classify(c, r, target="sql.sqlite"):
    """-> finding id (string) or None"""
    sql = r.get("sql") or ""
    st, det = r["status"], str(r.get("detail", ""))
    prql = c.prql
    if st == "panic":
        if "name of this column has not been to be set" in det:
            return "panic-column-name-not-set"
        if "not yet implemented" in det and "append" in prql:
            return "panic-todo-type-intersection-append"
        if "cannot find cid by id" in det:
            return "panic-cannot-find-cid"
        if "Option::unwrap()" in det and "date.to_text" in prql:
            return "panic-date-to-text-unwrap"
        return None
    if "append" in prql and st in ("sqlite-error", "rows-differ", "column-count"):
        if union_misaligned(sql) or (st == "sqlite-error" and re.search(r"UNION(?: ALL)? do not have the same number", det)):
            return "append-branches-misaligned"
        # same number of explicit columns, but one branch was reordered / pruned differently (group keys first, carried sort keys,
        # a later select): recognisable only by the program shape - an append followed by a pruning or reordering transform
        if st == "rows-differ" and "UNION ALL" in sql and re.search(r"\bappend\b.*\n(?:.*\n)*?(?:select|aggregate|group|sort)\b", prql):
            return "append-branches-misaligned"
        # the bottom branch lists its own columns (aliases q0, q1, ...) out of order: it was permuted like the top's frame
        for top, bot in _select_lists_of_unions(sql):
            qs = [int(m.group(1)) for m in (re.search(r" AS q([0-9]+)$", x) for x in bot) if m]
            if st == "rows-differ" and len(qs) >= 2 and qs != sorted(qs):
                return "append-branches-misaligned"
    if group_by_has_integer_term(sql) and (st == "rows-differ" or (st == "sqlite-error" and "GROUP BY" in det)):
        return "group-by-constant-read-as-ordinal"
    if st == "rows-differ" and re.search(r"SELECT DISTINCT (?:ON \([^)]*\) )?[^()]* LIMIT [0-9]+", sql) and \
            re.search(r"\btake\b.*\n.*group \{[^}]*\} \((?:sort \{[^}]*\} \| )?take 1\)", prql, re.S):
        return "take-then-distinct-in-one-select"
    setop = re.search(r"\b(INTERSECT|EXCEPT)\b", sql) and re.search(r"\bjoin\b", prql) and not re.search(r"\b(intersect|remove)\b", prql)
    if setop and st in ("sqlite-error", "rows-differ") and _join_instance_is_pruned(prql):
        # the "join over ALL columns" test of the rewrite was made on an instance that lists only the columns the query uses
        return "setop-rewrite-judged-on-used-columns"
    if setop and st == "sqlite-error" and "do not have the same number of result columns" in det:
        return "setop-rewrite-partial-projection"          # repaired (9b23839): listed as fixed, so this is reported
    if setop and st == "sqlite-error" and re.match(r"OperationalError: no such column: ", det):
        return "setop-rewrite-bottom-columns-used-later"
    if setop and st == "rows-differ":
        return "setop-rewrite-null-equality"
    if st == "sqlite-error":
        m = re.match(r"OperationalError: ambiguous column name: (\S+)", det)
        if m and " JOIN " in sql and re.search(r"ORDER BY (?:[^()]*, )?" + re.escape(m.group(1)) + r"\b", sql):
            return "orderby-alias-ambiguous-after-join"
        if "OFFSET" in re.sub(r"LIMIT [0-9]+ OFFSET [0-9]+", "", sql) and "syntax error" in det:
            return "offset-without-limit"
        if "--" in sql and ("incomplete input" in det or "syntax error" in det):
            return "double-minus-is-a-comment"
        m = re.match(r"OperationalError: no such column: (\S+)", det)
        if m and re.search(r"\b" + re.escape(m.group(1).split(".")[-1]) + r" AS _expr_[0-9]+\b", sql) and re.search(r"\.\*|SELECT \*", sql):
            return "column-next-to-star-renamed-then-referenced-by-name"
        if m and "." in m.group(1) and re.search(r"=\(from " + re.escape(m.group(1).split(".")[0]) + r"\b[^\n]*\bderive\b", prql):
            # a computed column of an inline join side is spelled out in the outer query with the names of the side's own table
            return "inline-side-compute-id-not-redirected"
        if m:
            col = m.group(1).split(".")[-1]
            if re.search(r"ORDER BY [^)]*\b" + re.escape(col) + r"\b", sql) or re.search(r"\bsort\b", prql):
                return "orderby-column-out-of-scope"
            if col.startswith("_expr_"):
                return "helper-column-out-of-scope"
    if st == "rows-differ" and " OVER (" in sql and r.get("rows") is not None and "( window" in getattr(c, "sexp", ""):
        # does the observed result match the reference semantics under the RECORDED defect semantics of windowed sum / first / last?
        v = window_defect_variant(c, r)
        if v:
            return v
    if st in ("rows-differ", "sqlite-error"):
        defs = re.findall(r"((?:COALESCE\()?(?:COUNT|SUM|MIN|MAX|AVG)\([^()]*(?:\([^()]*\)[^()]*)*\)(?:, 0\))?) AS (g[0-9]+)\b", sql)
        seen = {}
        for expr, alias in defs:
            seen[alias] = seen.get(alias, 0) + 1
        if any(v >= 2 for v in seen.values()) and re.search(r"\bsort\b", prql):
            return "sort-key-aggregate-rematerialised"
    if st == "rows-differ" and re.search(r"\btake\b[^\n]*\n(?:.*\n)*?sort\b[^\n]*\n(?:.*\n)*?take\b[^\n]*\n(?:.*\n)*?group \{[^}]*\} \(aggregate", prql) and \
            len(re.findall(r"\bLIMIT\b", sql)) < len(re.findall(r"(?m)^take\b", prql)):
        return "take-sort-take-before-group-aggregate-merged"
    if st in ("rows-differ", "sqlite-error") and "SELECT NULL FROM" in sql and re.search(r"\baggregate\b", prql):
        return "unused-aggregate-elided"
    if st in ("column-count", "names-differ"):
        # a requested column is missing from the result and sits in an EXCLUDE / EXCEPT list of a star
        excl = set()
        for m_ in re.finditer(r"\*\s+(?:EXCLUDE|EXCEPT)\s*\(([^)]*)\)", sql):
            excl |= {x.strip().strip('"`') for x in m_.group(1).split(",")}
        if (set(c.columns) - set(r.get("names") or [])) & excl and "=(from" in prql:
            return "inline-side-computed-columns-excluded-from-star"
    if st == "column-count":
        exp = c.columns
        names = r.get("names") or []
        if len(set(exp)) < len(exp) and len(names) < len(exp) and re.search(r"select !\{", prql) and _rq_frame_len(prql) == len(names):
            # the resolver's own frame (RQ relation.columns) already lacks the column: lost by the exclusion, not by the SQL back end
            return "exclude-drops-same-named-column"
        if len(names) < len(exp) and re.search(r"select !\{", prql) and _rq_frame_len(prql) == len(names):
            # the same defect when the SURVIVING column shares its bare name with an excluded one (`select !{t0.k}` also drops t2.k)
            bare = {x.strip().strip("`").split(".")[-1] for grp in re.findall(r"select !\{([^}]*)\}", prql) for x in grp.split(",")}
            rest = list(names)
            missing = []
            for e in exp:
                if e in rest:
                    rest.remove(e)
                else:
                    missing.append(e)
            if missing and set(missing) <= bare:
                return "exclude-drops-same-named-column"
        if len(set(exp)) < len(exp) and len(names) < len(exp) and set(names) <= set(exp) | {n for n in names if n.startswith("_expr_")}:
            return "same-name-column-dropped"
        if len(names) > len(exp) and re.search(r"SELECT (?:[^()]*, )?(?:\w+\.)?\*", sql):
            return "star-projection-extra-columns"
    if st in ("names-differ", "rows-differ"):
        names = r.get("names") or []
        if (len(set(c.columns)) < len(c.columns) or "?" in c.columns) and any(n.startswith("_expr_") for n in names):
            return "same-name-column-renamed"          # ("?" = a column the RQ frame leaves unnamed because its name is taken twice)
    return None
