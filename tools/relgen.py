"""Generator of relational-core PRQL programs + database instances.
Each generated case carries
  * the PRQL source text (declared-schema tables by default, so the compiler emits explicit columns),
  * the *resolved* program as an s-expression for the Lean reference semantics (columns are positions),
  * the database instance,
  * the names of the final frame (for C05).
All randomness comes from the rng handed in."""
import random, re

INT, TXT, BOOL = "int", "text", "bool"


def sx_str(s):
    return "s:" + ".".join(str(ord(c)) for c in s)


def sx_val(v):
    if v is None:
        return "N"
    if v is True:
        return "T"
    if v is False:
        return "F"
    if isinstance(v, int):
        return str(v)
    return sx_str(v)


def prql_lit(v):
    if v is None:
        return "null"
    if v is True:
        return "true"
    if v is False:
        return "false"
    if isinstance(v, int):
        return str(v) if v >= 0 else f"({v})"
    return "'" + v + "'"


class Col:
    def __init__(self, name, ty, ref=None, key=False):
        self.name, self.ty, self.ref = name, ty, ref or name
        self.key = key      # values are unique & non-null in the base table (still so if rows were only filtered/sorted)

    def copy(self, **kw):
        c = Col(self.name, self.ty, self.ref, self.key)
        for k, v in kw.items():
            setattr(c, k, v)
        return c


class Schema:
    """base tables: t<i> with a unique key column u<i>, int columns a<i>, c<i>, text column b<i>, shared-name column k"""

    def __init__(self, rng, ntables=3, shared_k=True, literal=False):
        self.tables = []
        for i in range(ntables):
            cols = [Col(f"u{i}", INT, key=True), Col(f"a{i}", INT), Col(f"b{i}", TXT), Col("k" if shared_k else f"k{i}", INT)]
            if rng.random() < 0.5:
                cols.append(Col(f"c{i}", INT))
            self.tables.append((f"t{i}", cols))
        self.literals = set()
        if literal:
            self.tables.append(("r9", [Col("u9", INT, key=True), Col("a9", INT), Col("b9", TXT), Col("k9" if not shared_k else "k", INT)]))
            self.literals.add("r9")

    def literal_decl(self, db):
        """`let r<i> = [{..}, ..]` for the literal relations (their rows are part of the program text)"""
        out = []
        for (name, cols), rows in zip(self.tables, db):
            if name in self.literals:
                out.append(f"let {name} = [" + ", ".join("{" + ", ".join(f"{c.name} = {prql_lit(v)}" for c, v in zip(cols, row)) + "}" for row in rows) + "]")
        return "\n".join(out) + ("\n" if out else "")

    def decl(self):
        L = ["module default_db {"]
        for name, cols in self.tables:
            if name in self.literals:
                continue
            L.append(f"  let {name} <[{{" + ", ".join(f"{c.name} = {c.ty}" for c in cols) + "}]>")
        L.append("}")
        return "\n".join(L)


def gen_db(rng, schema, maxrows=6, empty_p=0.12):
    db = []
    for name, cols in schema.tables:
        n = 0 if (rng.random() < empty_p and name not in schema.literals) else rng.randint(1, maxrows)
        us = rng.sample(range(1, 10), n)
        rows = []
        for r in range(n):
            row = []
            for c in cols:
                if c.key:
                    row.append(us[r])
                elif c.ty == INT:
                    row.append(None if rng.random() < 0.15 else rng.choice([-2, 0, 1, 1, 2, 2, 3, 5]))
                else:
                    row.append(None if rng.random() < 0.15 else rng.choice(["a", "b", "b", "ab", "", "B"]))
            rows.append(row)
        if rows and rng.random() < 0.3:   # duplicate a row except for its key
            d = list(rng.choice(rows))
            free = [x for x in range(1, 12) if x not in us]
            d[0] = free[0]
            rows.append(d)
        db.append(rows)
    return db


def with_duplicates(db, rng, copies=3):
    """every non-empty table gets `copies` more rows that repeat existing rows except for the key (first column)"""
    out = []
    for rows in db:
        rows = [list(r) for r in rows]
        if rows:
            used = {r[0] for r in rows}
            free = [x for x in range(1, 40) if x not in used]
            for j in range(copies):
                d = list(rng.choice(rows))
                d[0] = free[j]
                rows.append(d)
        out.append(rows)
    return out


def sx_db(db):
    return "( " + " ".join("( " + " ".join("( " + " ".join(sx_val(v) for v in row) + " )" for row in rows) + " )" for rows in db) + " )"


# ---------------------------------------------------------------------------------------
# expressions: (prql_text, sexp_text, type)
# ---------------------------------------------------------------------------------------

FUNCTION_DEFS = ("let fadd = p1 p2 -> (p1 + (p2 * 2))\nlet fpick = pc px py -> case [pc => px, true => py]\n"
                 "let finc = px by:1 -> px + by\nlet ftop = rel -> (rel | take 2)\n")


class ExprGen:
    functions = False

    def __init__(self, rng, frame, depth=2, allow_null_lit=True):
        self.rng, self.frame, self.depth = rng, frame, depth
        self.allow_null = allow_null_lit

    def cols(self, ty):
        return [(i, c) for i, c in enumerate(self.frame) if c.ty == ty]

    def col(self, ty):
        cs = self.cols(ty)
        if not cs:
            return None
        i, c = self.rng.choice(cs)
        return (c.ref, f"( col {i} )", ty)

    def lit(self, ty):
        if ty == INT:
            v = self.rng.choice([0, 1, 2, 3, -1, 5])
        elif ty == TXT:
            v = self.rng.choice(["a", "b", "ab", ""])
        else:
            v = self.rng.choice([True, False])
        return (prql_lit(v), f"( lit {sx_val(v)} )", ty)

    def gen(self, ty, d=None):
        d = self.depth if d is None else d
        r = self.rng
        if d <= 0 or r.random() < 0.3:
            c = self.col(ty)
            if c and r.random() < 0.8:
                return c
            if ty == BOOL:
                return self.cmp(0)
            return self.lit(ty)
        if ty == INT and ExprGen.functions and r.random() < 0.25:
            k = r.random()
            a, b = self.gen(INT, d - 1), self.gen(INT, d - 1)
            if k < 0.3:
                return (f"(fadd {a[0]} {b[0]})", f"( add {a[1]} ( mul {b[1]} ( lit 2 ) ) )", INT)
            if k < 0.5:
                c = self.gen(BOOL, d - 1)
                return (f"(fpick {c[0]} {a[0]} {b[0]})", f"( ite {c[1]} {a[1]} {b[1]} )", INT)
            if k < 0.65:
                return (f"(finc {a[0]})", f"( add {a[1]} ( lit 1 ) )", INT)
            if k < 0.85:
                return (f"(finc by:{b[0]} {a[0]})", f"( add {a[1]} {b[1]} )", INT)
            return (f"({a[0]} | finc by:{b[0]})", f"( add {a[1]} {b[1]} )", INT)
        if ty == INT:
            k = r.random()
            if k < 0.55:
                op = r.choice(["add", "sub", "mul"])
                a, b = self.gen(INT, d - 1), self.gen(INT, d - 1)
                sym = {"add": "+", "sub": "-", "mul": "*"}[op]
                return (f"({a[0]} {sym} {b[0]})", f"( {op} {a[1]} {b[1]} )", INT)
            if k < 0.65:
                a = self.gen(INT, d - 1)
                return (f"(-{a[0]})", f"( neg {a[1]} )", INT)
            if k < 0.8:
                a, b = self.gen(INT, d - 1), self.gen(INT, d - 1)
                return (f"({a[0]} ?? {b[0]})", f"( coalesce {a[1]} {b[1]} )", INT)
            c, a, b = self.gen(BOOL, d - 1), self.gen(INT, d - 1), self.gen(INT, d - 1)
            if r.random() < 0.5:
                return (f"(case [{c[0]} => {a[0]}, true => {b[0]}])", f"( ite {c[1]} {a[1]} {b[1]} )", INT)
            return (f"(case [{c[0]} => {a[0]}])", f"( ite {c[1]} {a[1]} ( lit N ) )", INT)
        if ty == TXT:
            a, b = self.gen(TXT, d - 1), self.gen(TXT, d - 1)
            if r.random() < 0.5:
                return (f"({a[0]} ?? {b[0]})", f"( coalesce {a[1]} {b[1]} )", TXT)
            c = self.gen(BOOL, d - 1)
            return (f"(case [{c[0]} => {a[0]}, true => {b[0]}])", f"( ite {c[1]} {a[1]} {b[1]} )", TXT)
        # BOOL
        k = r.random()
        if k < 0.5:
            return self.cmp(d - 1)
        if k < 0.75:
            op = r.choice(["and", "or"])
            a, b = self.gen(BOOL, d - 1), self.gen(BOOL, d - 1)
            return (f"({a[0]} {'&&' if op == 'and' else '||'} {b[0]})", f"( {op} {a[1]} {b[1]} )", BOOL)
        if k < 0.85:
            a = self.gen(BOOL, d - 1)
            return (f"(!{a[0]})", f"( not {a[1]} )", BOOL)
        ty2 = r.choice([INT, TXT])
        a = self.col(ty2) or self.gen(ty2, d - 1)
        if r.random() < 0.5:
            return (f"({a[0]} == null)", f"( isnull {a[1]} )", BOOL)
        return (f"({a[0]} != null)", f"( notnull {a[1]} )", BOOL)

    def cmp(self, d):
        r = self.rng
        ty = INT if (r.random() < 0.75 or not self.cols(TXT)) else TXT
        a, b = self.gen(ty, d), self.gen(ty, d)
        if "col" not in a[1] and "col" not in b[1]:      # no constant conditions (constant folding is C02's subject)
            a = self.col(ty) or self.col(INT) or a
            if a[2] != ty:
                b = self.lit(a[2])
        op = r.choice(["eq", "ne", "lt", "le", "gt", "ge"])
        sym = {"eq": "==", "ne": "!=", "lt": "<", "le": "<=", "gt": ">", "ge": ">="}[op]
        return (f"({a[0]} {sym} {b[0]})", f"( {op} {a[1]} {b[1]} )", BOOL)


# ---------------------------------------------------------------------------------------
# pipelines
# ---------------------------------------------------------------------------------------

class NotApplicable(Exception):
    pass


class Gen:
    def __init__(self, rng, ntables=3, max_tr=6, nlets=None, kinds=None, declared=True, shared_k=True,
                 append_inline=False, open_take=True, dup_names=True, forced=None, literal=False, functions=False, simple_sort=False,
                 shapes=False, force_shape=None, key_join=False, side_kinds=None, disj_filters=False):
        self.rng = rng
        # disj_filters: every filter is a conjunction whose LAST conjunct is a disjunction, `(A && (B || C))`: splitting it into
        # `filter A | filter (B || C)` leaves a filter with a top-level `||` that shares its clause with other filters
        self.disj_filters = disj_filters
        # key_join: joins equate the unique key columns of both sides (inner / left), so that every left row has at most one
        # partner and the order of the left input stays determinate through the join
        self.key_join = key_join
        # side_kinds: transform kinds of inline join sides (default select / derive / filter)
        self.side_kinds = side_kinds
        self.forced = forced
        self.simple_sort = simple_sort
        self.functions = functions
        # shapes: also generate inline sub-pipelines as join sides, joins that equate every column, group pipelines that end in a
        # select / derive, and `append <let-table>`; force_shape: set of shape names that are always chosen when applicable
        self.shapes, self.force_shape = shapes, set(force_shape or ())
        self.shared_k, self.append_inline, self.open_take, self.dup_names = shared_k, append_inline, open_take, dup_names
        self.schema = Schema(rng, ntables, shared_k, literal)
        self.max_tr = max_tr
        self.declared = declared
        self.fresh = 0
        self.lets = []        # (name, frame, prql_text, sexp)
        self.nlets = rng.choice([0, 0, 1, 2]) if nlets is None else nlets
        self.kinds = kinds or ["select", "derive", "filter", "sort", "take", "aggregate", "group_agg",
                               "group_take", "join", "append", "derive", "filter", "sort", "take"]
        self.trace = []       # transform kinds used (for the distribution in the evidence)

    def name(self, p="x"):
        self.fresh += 1
        return f"{p}{self.fresh}"

    # -- sources
    def sources(self):
        q = not self.declared      # undeclared tables: every column reference must be qualified
        s = [("base", i, name, [c.copy(ref=f"{name}.{c.name}" if (q or c.name == "k") else c.name) for c in cols])
             for i, (name, cols) in enumerate(self.schema.tables)]
        s += [("ref", i, name, [c.copy(ref=f"{name}.{c.name}" if q else c.name) for c in frame])
              for i, (name, frame, _, _) in enumerate(self.lets) if not name.startswith("_h")]
        return s

    def pipeline(self, first_choice=None, forced=None):
        rng = self.rng
        kind, idx, sname, frame = first_choice or rng.choice(self.sources())
        text = [f"from {sname}"]
        sx = []
        frames = [frame]
        n = len(forced) if forced else rng.randint(1, self.max_tr)
        self.cur_sort = None          # [(column name, desc)] of the sort in effect, when it is known and total
        for j in range(n):
            k = forced[j] if forced else rng.choice(self.kinds)
            res = None
            self._sort_after = "keep"
            for _attempt in range(6 if forced else 1):
                res = getattr(self, "tr_" + k)(frame, sname)
                if res is not None:
                    break
            if res is None:
                if forced:
                    raise NotApplicable(k)
                continue
            t, s, frame = res
            if k == "sort":
                self.cur_sort = self._sort_after if isinstance(self._sort_after, list) else None
            elif k in ("filter", "derive", "take"):
                pass
            elif k in ("select", "exclude"):
                names = [c.name for c in frame]
                if self.cur_sort and not all(n_ in names and names.count(n_) == 1 for n_, _ in self.cur_sort):
                    self.cur_sort = None
            elif k == "window" and self._sort_after == "keep-window":
                pass
            else:
                self.cur_sort = None
            text.append(t)
            sx.append(s)
            frames.append(frame)
            self.trace.append(k)
        return (kind, idx), frame, text, sx, frames

    def unique_names(self, frame):
        names = [c.name for c in frame]
        return len(set(names)) == len(names)

    def want(self, shape, p):
        """is the optional shape chosen here?"""
        if not self.shapes:
            return False
        if shape in self.force_shape:
            return True
        return self.rng.random() < p

    def sub_pipeline(self, exclude_name, kinds=("select", "derive", "filter"), maxlen=3, forced=None):
        """an inline pipeline over some other source (no take / sort / nested relations): (src kind, idx, text, sx, frame) or None"""
        srcs = [s for s in self.sources() if s[2] != exclude_name]
        if not srcs:
            return None
        save = (getattr(self, "cur_sort", None), getattr(self, "_sort_after", "keep"))
        try:
            ch = self.rng.choice(srcs)
            seq = forced or [self.rng.choice(kinds) for _ in range(self.rng.randint(1, maxlen))]
            try:
                (kind, idx), frame, text, sx, _ = self.pipeline(first_choice=ch, forced=list(seq))
            except NotApplicable:
                return None
        finally:
            self.cur_sort, self._sort_after = save
        if not self.unique_names(frame):
            return None
        return kind, idx, text, sx, frame

    def fitted_pipeline(self, exclude_name, tys):
        """an inline pipeline `from u | select {q0 = .., q1 = ..}` whose columns have exactly the types `tys`"""
        srcs = [s for s in self.sources() if s[2] != exclude_name]
        same = getattr(self, "force_same", False)
        if same:
            # the same base table on both sides, column by column (identical rows, NULLs and duplicates included)
            srcs = [s for s in self.sources() if s[0] == "base" and [c.ty for c in s[3]] == list(tys)]
        if not srcs or not all(t in (INT, TXT) for t in tys):
            return None
        kind, idx, rname, rframe = self.rng.choice(srcs)
        eg = ExprGen(self.rng, rframe, depth=1)
        items, sx, nf = [], [], []
        for j, t in enumerate(tys):
            e = eg.col(t) if self.rng.random() < 0.8 else None
            e = e or eg.gen(t, 1)
            if same:
                e = (rframe[j].ref, f"( col {j} )", t)
            items.append(f"q{j} = {e[0]}")
            sx.append(e[1])
            nf.append(Col(f"q{j}", t))
        return kind, idx, [f"from {rname}", "select {" + ", ".join(items) + "}"], ["( select ( " + " ".join(sx) + " ) )"], nf

    # -- transforms: return (prql, sexp, new frame) or None
    def tr_select(self, frame, sname):
        rng = self.rng
        eg = ExprGen(rng, frame)
        n = rng.randint(1, 4)
        items, sx, nf = [], [], []
        used = set()
        if getattr(self, "cur_sort", None) and (rng.random() < 0.7 or self.simple_sort):
            # keep the columns the sort in effect is keyed on, so that later transforms can still rely on that order
            names = [c.name for c in frame]
            for n_, _ in self.cur_sort:
                if n_ in names and n_ not in used:
                    i = names.index(n_)
                    used.add(n_)
                    items.append(frame[i].ref)
                    sx.append(f"( col {i} )")
                    nf.append(frame[i].copy(ref=frame[i].name))
        for _ in range(n):
            if rng.random() < 0.55:
                i = rng.randrange(len(frame))
                c = frame[i]
                if c.name in used:
                    continue
                used.add(c.name)
                items.append(c.ref)
                sx.append(f"( col {i} )")
                nf.append(c.copy(ref=c.name))
            else:
                ty = rng.choice([INT, INT, TXT, BOOL])
                e = eg.gen(ty)
                nm = self.name()
                items.append(f"{nm} = {e[0]}")
                sx.append(e[1])
                nf.append(Col(nm, e[2]))
        if not items:
            return None
        return ("select {" + ", ".join(items) + "}", "( select ( " + " ".join(sx) + " ) )", nf)

    def tr_exclude(self, frame, sname):
        """select !{..}: everything but the listed columns"""
        rng = self.rng
        if len(frame) < 2:
            return None
        drop = set(rng.sample(range(len(frame)), rng.randint(1, min(2, len(frame) - 1))))
        if len({frame[i].name for i in drop}) != len(drop):
            return None
        nf = [c.copy() for i, c in enumerate(frame) if i not in drop]
        return ("select !{" + ", ".join(frame[i].ref for i in sorted(drop)) + "}",
                "( select ( " + " ".join(f"( col {i} )" for i in range(len(frame)) if i not in drop) + " ) )", nf)

    def tr_derive(self, frame, sname):
        rng = self.rng
        nf = list(frame)
        items, sx = [], []
        for _ in range(rng.randint(1, 2)):
            eg = ExprGen(rng, nf)
            e = eg.gen(rng.choice([INT, INT, TXT, BOOL]))
            nm = self.name()
            items.append(f"{nm} = {e[0]}")
            sx.append(e[1])
            nf = nf + [Col(nm, e[2])]
        return ("derive {" + ", ".join(items) + "}", "( derive ( " + " ".join(sx) + " ) )", nf)

    def tr_filter(self, frame, sname):
        g = ExprGen(self.rng, frame)
        if self.disj_filters:
            a, b, c = g.cmp(1), g.cmp(1), g.cmp(1)
            e = (f"({a[0]} && ({b[0]} || {c[0]}))", f"( and {a[1]} ( or {b[1]} {c[1]} ) )", BOOL)
        else:
            e = g.gen(BOOL)
        return (f"filter {e[0]}", f"( filter {e[1]} )", frame)

    def sort_keys(self, frame, total_p=0.7):
        rng = self.rng
        ks, sx = [], []
        cand = list(range(len(frame)))
        rng.shuffle(cand)
        for i in cand[:rng.randint(1, 2)]:
            c = frame[i]
            if c.ty not in (INT, TXT):
                continue
            desc = rng.random() < 0.4
            if rng.random() < 0.25 and c.ty == INT and not self.simple_sort:
                e = ExprGen(rng, frame, depth=1).gen(INT)
                if e[0].startswith("(-"):      # `sort {-x}` means descending in PRQL: keep negation out of key expressions
                    continue
                ks.append(("-" if desc else "") + e[0])
                sx.append(f"( {'desc' if desc else 'asc'} {e[1]} )")
            else:
                ks.append(("-" if desc else "") + c.ref)
                sx.append(f"( {'desc' if desc else 'asc'} ( col {i} ) )")
        keys = [i for i, c in enumerate(frame) if c.key]
        if keys and (rng.random() < total_p or self.simple_sort):
            i = rng.choice(keys)
            if frame[i].ref not in ks and "-" + frame[i].ref not in ks:
                desc = rng.random() < 0.3
                ks.append(("-" if desc else "") + frame[i].ref)
                sx.append(f"( {'desc' if desc else 'asc'} ( col {i} ) )")
        if not ks:
            return None
        return ks, sx

    def tr_sort(self, frame, sname):
        r = self.sort_keys(frame)
        if not r:
            return None
        ks, sx = r
        # remember the keys when they are plain columns (by name), so that a later window function can rely on this order
        simple = []
        for k, x in zip(ks, sx):
            m = re.fullmatch(r"\( (asc|desc) \( col (\d+) \) \)", x)
            if not m:
                simple = None
                break
            simple.append((frame[int(m.group(2))].name, m.group(1) == "desc"))
        self._sort_after = simple
        return ("sort {" + ", ".join(ks) + "}", "( sort ( " + " ".join(sx) + " ) )", frame)

    def take_range(self):
        rng = self.rng
        k = rng.random()
        if k < 0.45:
            n = rng.randint(1, 4)
            return f"{n}", None, n
        lo = rng.randint(1, 3)
        if k < 0.7:
            hi = lo + rng.randint(0, 3)
            return f"{lo}..{hi}", lo, hi
        if k < 0.85 and self.open_take:
            return f"{lo}..", lo, None
        hi = rng.randint(1, 4)
        return f"..{hi}", None, hi

    def tr_take(self, frame, sname):
        if self.functions and self.rng.random() < 0.2:
            return ("ftop", "( take - 2 )", frame)
        t, lo, hi = self.take_range()
        o = lambda x: "-" if x is None else str(x)
        return (f"take {t}", f"( take {o(lo)} {o(hi)} )", frame)

    def aggs(self, frame, exclude=()):
        rng = self.rng
        items, sx, nf = [], [], []
        avail = [(i, c) for i, c in enumerate(frame) if i not in exclude]
        for _ in range(rng.randint(1, 3)):
            fn = rng.choice(["sum", "count", "min", "max", "count_distinct", "sum", "count"])
            nm = self.name("g")
            if fn == "count":
                items.append(f"{nm} = count this")
                sx.append("( count ( lit 1 ) )")
                nf.append(Col(nm, INT))
                continue
            ints = [(i, c) for i, c in avail if c.ty == INT]
            txts = [(i, c) for i, c in avail if c.ty == TXT]
            if fn == "sum":
                if not ints:
                    continue
                if rng.random() < 0.3:
                    fr2 = [c if i not in exclude else c.copy(ty="excluded", key=False) for i, c in enumerate(frame)]
                    e = ExprGen(rng, fr2, depth=1).gen(INT)
                else:
                    i, c = rng.choice(ints)
                    e = (c.ref, f"( col {i} )", INT)
                items.append(f"{nm} = sum {e[0]}")
                sx.append(f"( sum {e[1]} )")
                nf.append(Col(nm, INT))
            else:
                pool = ints + (txts if fn in ("min", "max", "count_distinct") else [])
                if not pool:
                    continue
                i, c = rng.choice(pool)
                items.append(f"{nm} = {fn} {c.ref}")
                sx.append(f"( {fn} ( col {i} ) )")
                nf.append(Col(nm, INT if fn == "count_distinct" else c.ty))
        if not items:
            return None
        return items, sx, nf

    def tr_aggregate(self, frame, sname):
        r = self.aggs(frame)
        if not r:
            return None
        items, sx, nf = r
        return ("aggregate {" + ", ".join(items) + "}", "( aggregate ( " + " ".join(sx) + " ) )", nf)

    def group_keys(self, frame):
        rng = self.rng
        cand = [i for i, c in enumerate(frame) if c.ty != BOOL or rng.random() < 0.3]
        if not cand:
            return None
        ks = sorted(rng.sample(cand, min(len(cand), rng.randint(1, 2))))
        if len(set(frame[i].name for i in ks)) != len(ks):
            return None
        return ks

    def tr_group_agg(self, frame, sname):
        ks = self.group_keys(frame)
        if not ks:
            return None
        r = self.aggs(frame, exclude=set(ks))
        if not r:
            return None
        items, sx, nf = r
        keyframe = [frame[i].copy(ref=frame[i].name, key=False) for i in ks]
        return ("group {" + ", ".join(frame[i].ref for i in ks) + "} (aggregate {" + ", ".join(items) + "})",
                "( group_agg ( " + " ".join(map(str, ks)) + " ) ( " + " ".join(sx) + " ) )", keyframe + nf)

    def tr_group_take(self, frame, sname):
        rng = self.rng
        ks = self.group_keys(frame)
        if not ks:
            return None
        inner = []
        sk = None
        if rng.random() < 0.8:
            fr2 = [c if i not in ks else c.copy(ty="excluded", key=False) for i, c in enumerate(frame)]   # the group key is not visible inside
            sk = self.sort_keys(fr2, total_p=0.8)
        if sk:
            inner.append("sort {" + ", ".join(sk[0]) + "}")
        t, lo, hi = self.take_range()
        inner.append(f"take {t}")
        o = lambda x: "-" if x is None else str(x)
        nf = [frame[i].copy() for i in ks] + [c.copy() for i, c in enumerate(frame) if i not in ks]
        extra = ""
        rest = list(range(len(ks), len(nf)))
        if rest and self.want("group_inner", 0.25):
            # the group pipeline goes on after the take: the keys stay in front, the rest is what the inner pipeline leaves
            if rng.random() < 0.6:
                sel = sorted(rng.sample(rest, rng.randint(1, len(rest))))
                if rng.random() < 0.5:
                    rng.shuffle(sel)
                inner.append("select {" + ", ".join(nf[i].ref for i in sel) + "}")
                extra = " ( select ( " + " ".join(f"( col {i} )" for i in list(range(len(ks))) + sel) + " ) )"
                nf = [nf[i] for i in list(range(len(ks))) + sel]
            else:
                hidden = [c if i >= len(ks) else c.copy(ty="excluded", key=False) for i, c in enumerate(nf)]
                e = ExprGen(rng, hidden, depth=1).gen(rng.choice([INT, INT, TXT]))
                nm = self.name()
                inner.append(f"derive {{{nm} = {e[0]}}}")
                extra = f" ( derive ( {e[1]} ) )"
                nf = nf + [Col(nm, e[2])]
        return ("group {" + ", ".join(frame[i].ref for i in ks) + "} (" + " | ".join(inner) + ")",
                "( group_take ( " + " ".join(map(str, ks)) + " ) ( " + " ".join(sk[1] if sk else []) + f" ) {o(lo)} {o(hi)} )" + extra, nf)

    def tr_distinct(self, frame, sname):
        """`group {every column} (take 1)`: the rows made distinct (the compiler emits SELECT DISTINCT)"""
        if not self.unique_names(frame) or not frame:
            return None
        n = len(frame)
        return ("group {" + ", ".join(c.ref for c in frame) + "} (take 1)",
                "( group_take ( " + " ".join(map(str, range(n))) + " ) (  ) - 1 )", [c.copy() for c in frame])

    def tr_select_dups(self, frame, sname):
        """keep one or two non-key columns only, so that the relation has duplicate rows"""
        cand = [i for i, c in enumerate(frame) if not c.key and c.ty in (INT, TXT)]
        if not cand:
            return None
        keep = sorted(self.rng.sample(cand, min(len(cand), self.rng.randint(1, 2))))
        if len({frame[i].name for i in keep}) != len(keep):
            return None
        return ("select {" + ", ".join(frame[i].ref for i in keep) + "}", "( select ( " + " ".join(f"( col {i} )" for i in keep) + " ) )",
                [frame[i].copy(ref=frame[i].name) for i in keep])

    def tr_select_left(self, frame, sname):
        """after a join: keep some columns of the left side only (what the INTERSECT / EXCEPT rewrites look for)"""
        nl = getattr(self, "last_join_left", None)
        if not nl or nl > len(frame):
            return None
        keep = sorted(self.rng.sample(range(nl), self.rng.randint(1, nl))) if self.rng.random() < 0.5 else list(range(nl))
        if len({frame[i].name for i in keep}) != len(keep):
            return None
        return ("select {" + ", ".join(frame[i].ref for i in keep) + "}", "( select ( " + " ".join(f"( col {i} )" for i in keep) + " ) )",
                [frame[i].copy(ref=frame[i].name) for i in keep])

    def tr_select_mixed(self, frame, sname):
        """after a join: all columns of the left and SOME of the right"""
        nl = getattr(self, "last_join_left", None)
        if not nl or nl >= len(frame):
            return None
        right = list(range(nl, len(frame)))
        keep = list(range(nl)) + sorted(self.rng.sample(right, self.rng.randint(1, max(1, len(right) - 1))))
        if len({frame[i].name for i in keep}) != len(keep):
            return None
        # plain column references (an alias would make every item a new computed column and hide the shape from the rewrite)
        return ("select {" + ", ".join(frame[i].ref for i in keep) + "}", "( select ( " + " ".join(f"( col {i} )" for i in keep) + " ) )",
                [frame[i].copy(ref=frame[i].name) for i in keep])

    def tr_filter_rnull(self, frame, sname):
        """after a left join: keep the rows without a partner (the anti-join shape of the EXCEPT rewrite)"""
        nl = getattr(self, "last_join_left", None)
        if not nl or nl >= len(frame):
            return None
        if self.rng.random() < 0.5:
            idx = list(range(nl, len(frame)))
            sx = f"( isnull ( col {idx[0]} ) )"
            for i in idx[1:]:
                sx = f"( and {sx} ( isnull ( col {i} ) ) )"
            return ("filter " + " && ".join(f"{frame[i].ref} == null" for i in idx), f"( filter {sx} )", frame)
        i = self.rng.randrange(nl, len(frame))
        return (f"filter {frame[i].ref} == null", f"( filter ( isnull ( col {i} ) ) )", frame)

    def tr_filter_window(self, frame, sname):
        """a window function over the whole relation used ONLY inside a filter (it never becomes a column)"""
        rng = self.rng
        n = len(frame)
        ints = [(i, c) for i, c in enumerate(frame) if c.ty == INT]
        if ints and rng.random() < 0.4:
            i, c = rng.choice(ints)
            fn = rng.choice(["min", "max"])
            k = rng.choice([0, 1, 2, 3])
            op, sym = rng.choice([("le", "<="), ("ge", ">="), ("lt", "<"), ("gt", ">")])
            return (f"filter ({fn} {c.ref}) {sym} {k}",
                    f"( window (  ) ( ( (  ) (  ) - {fn} ( col {i} ) ) ) ) ( filter ( {op} ( col {n} ) ( lit {k} ) ) ) ( select ( " +
                    " ".join(f"( col {j} )" for j in range(n)) + " ) )", [c_.copy() for c_ in frame])
        k = rng.randint(1, 6)
        op, sym = rng.choice([("le", "<="), ("ge", ">="), ("lt", "<"), ("gt", ">")])
        return (f"filter (count this) {sym} {k}",
                f"( window (  ) ( ( (  ) (  ) - count ( lit 1 ) ) ) ) ( filter ( {op} ( col {n} ) ( lit {k} ) ) ) ( select ( " +
                " ".join(f"( col {j} )" for j in range(n)) + " ) )", [c_.copy() for c_ in frame])

    # -- window functions (C04)
    def tr_window(self, frame, sname):
        rng = self.rng
        form = rng.choice(["plain", "group", "group_sort", "sort_window", "group_sort_window", "sort_fns"])
        inherit = None
        if getattr(self, "cur_sort", None) and (rng.random() < 0.85 or self.simple_sort):
            names = [c.name for c in frame]
            if all(n_ in names for n_, _ in self.cur_sort) and any(frame[names.index(n_)].key for n_, _ in self.cur_sort):
                inherit = [(names.index(n_), d_) for n_, d_ in self.cur_sort]
                form = "inherit"
        ints = [(i, c) for i, c in enumerate(frame) if c.ty == INT]
        keys = [(i, c) for i, c in enumerate(frame) if c.key]
        if not ints:
            return None
        ks = []
        if form.startswith("group"):
            ks = self.group_keys(frame) or []
            ks = [i for i in ks if not frame[i].key]
            if not ks:
                return None
        avail = [(i, c) for i, c in ints if i not in ks]
        if not avail:
            return None
        order_t, order_s = [], []
        needs_order = form in ("group_sort", "sort_window", "group_sort_window", "sort_fns", "inherit")
        if form == "inherit":
            order_s = [f"( {'desc' if d_ else 'asc'} ( col {i_} ) )" for i_, d_ in inherit]
            order_t = ["(inherited)"]
        elif needs_order:
            # a total order: the unique key column (possibly after another key)
            uk = [(i, c) for i, c in keys if i not in ks]
            if not uk:
                return None
            if rng.random() < 0.5:
                i, c = rng.choice(avail)
                desc = rng.random() < 0.4
                order_t.append(("-" if desc else "") + c.ref)
                order_s.append(f"( {'desc' if desc else 'asc'} ( col {i} ) )")
            i, c = rng.choice(uk)
            desc = rng.random() < 0.4
            if c.ref not in order_t and "-" + c.ref not in order_t:
                order_t.append(("-" if desc else "") + c.ref)
                order_s.append(f"( {'desc' if desc else 'asc'} ( col {i} ) )")
        # frame
        fr_t, fr_s = "", "-"
        if form in ("sort_window", "group_sort_window"):
            k = rng.random()
            if k < 0.25:
                n = rng.randint(1, 3)
                fr_t, fr_s = f"rolling:{n}", f"( {1 - n} 0 )"
            elif k < 0.4:
                fr_t, fr_s = "expanding:true", "( - 0 )"
            else:
                lo = rng.choice([None, -2, -1, 0, 1])
                hi = rng.choice([None, -1, 0, 1, 2])
                if lo is not None and hi is not None and lo > hi:
                    lo, hi = hi, lo
                if lo is None and hi is None:
                    lo = -1
                o = lambda x: "-" if x is None else str(x)
                fr_t = f"rows:{'' if lo is None else lo}..{'' if hi is None else hi}"
                fr_s = f"( {o(lo)} {o(hi)} )"
        # functions
        fns_aggr = ["sum", "count", "min", "max"]
        fns_order = ["row_number", "rank", "rank_dense", "lag", "lead", "first", "last"]
        items, ws, nf = [], [], []
        part = "( " + " ".join(map(str, ks)) + " )"
        order = "( " + " ".join(order_s) + " )"
        for _ in range(rng.randint(1, 3)):
            pool = fns_aggr + (fns_order if (needs_order and not fr_t) else []) + (["first", "last"] if fr_t else [])
            if form == "inherit":
                pool = fns_order + ["sum"]        # values that depend on the inherited order
            fn = rng.choice(pool)
            nm = self.name("w")
            i, c = rng.choice(avail)
            if fn == "count":
                items.append(f"{nm} = count this")
                ws.append(f"( {part} {order} {fr_s} count ( lit 1 ) )")
            elif fn == "row_number":
                items.append(f"{nm} = row_number this")
                ws.append(f"( {part} {order} - row_number ( lit 1 ) )")
            elif fn in ("rank", "rank_dense"):
                items.append(f"{nm} = {fn} {c.ref}")
                ws.append(f"( {part} {order} - {fn} ( col {i} ) )")
            elif fn in ("lag", "lead"):
                n = rng.randint(1, 2)
                items.append(f"{nm} = {fn} {n} {c.ref}")
                ws.append(f"( {part} {order} - ( {fn} {n} ) ( col {i} ) )")
            else:
                items.append(f"{nm} = {fn} {c.ref}")
                ws.append(f"( {part} {order} {fr_s} {fn} ( col {i} ) )")
            nf.append(Col(nm, INT))
        der = "derive {" + ", ".join(items) + "}"
        if fr_t:
            der = f"window {fr_t} ({der})"
        base = [frame[i].copy() for i in ks] + [c.copy() for i, c in enumerate(frame) if i not in ks]
        sx_w = f"( window ( {' '.join(map(str, ks))} ) ( " + " ".join(ws) + " ) )"
        if form in ("plain",):
            self._sort_after = "keep-window"
            return (der, sx_w, base + nf)
        if form == "inherit":
            # the window functions rely on the sort already in effect (possibly several transforms back)
            self._sort_after = "keep-window"
            return (der, sx_w, base + nf)
        if form == "group":
            return ("group {" + ", ".join(frame[i].ref for i in ks) + "} (" + der + ")", sx_w, base + nf)
        if form in ("group_sort", "group_sort_window"):
            return ("group {" + ", ".join(frame[i].ref for i in ks) + "} (sort {" + ", ".join(order_t) + "} | " + der + ")", sx_w, base + nf)
        # top-level sort followed by the windowed derive (two transforms in one step)
        return ("sort {" + ", ".join(order_t) + "}\n" + der, f"( sort {order} ) " + sx_w, base + nf)

    def tr_join(self, frame, sname):
        rng = self.rng
        srcs = [s for s in self.sources() if s[2] != sname]
        forced_src = getattr(self, "force_source", None)
        if forced_src:
            srcs = [s for s in self.sources() if s[2] == forced_src]
        if not srcs:
            return None
        kind, idx, rname, rframe = rng.choice(srcs)
        rtext, inline, all_eq = None, False, False
        if forced_src:
            pass
        elif self.want("join_all", 0.08) and 2 <= len(frame) <= 4 and self.unique_names(frame):
            sp = self.fitted_pipeline(sname, [c.ty for c in frame])
            if sp:
                inline, all_eq = True, True
        elif self.want("join_inline", 0.3):
            sp = self.sub_pipeline(sname, kinds=self.side_kinds) if self.side_kinds else self.sub_pipeline(sname)
            if sp:
                inline = True
        if inline:
            kind_, idx_, text_, sx_, rframe = sp
            self.lets.append((f"_h{len(self.lets)}", [], "", f"( ( {kind_} {idx_} ) ( " + " ".join(sx_) + " ) )"))
            kind, idx, rname = "ref", len(self.lets) - 1, self.name("s")
            rtext = f"{rname}=(" + " | ".join(text_) + ")"
            rframe = [c.copy(ref=c.name) for c in rframe]
        # names on the left that clash with right names must be referable: give up if the left already has such a clash
        lnames = {c.name for c in frame}
        if not self.dup_names and not forced_src and (lnames & {c.name for c in rframe}):
            return None
        rframe2 = []
        for c in rframe:
            ref = f"{rname}.{c.name}"
            rframe2.append(c.copy(ref=ref if (c.name in lnames or c.name == "k" or not self.declared or inline) else c.name, key=False))
        lframe = []
        rnames = {c.name for c in rframe}
        for c in frame:
            if c.name in rnames and "." not in c.ref:
                if not self.unique_names(frame):
                    return None
                lframe.append(c.copy(ref=f"{sname}.{c.name}", key=False))
            else:
                lframe.append(c.copy(key=False))
        side = rng.choice(["inner", "inner", "left", "left", "right", "full"])
        nf = lframe + rframe2
        # condition: equality of two int columns (one each side), optionally and-ed with something else
        li = [i for i, c in enumerate(lframe) if c.ty == INT]
        ri = [i for i, c in enumerate(rframe2) if c.ty == INT]
        if not li or not ri:
            return None
        a, b = rng.choice(li), rng.choice(ri)
        if self.key_join and not all_eq:
            lk = [i for i, c in enumerate(frame) if c.key and c.ty == INT]
            rk = [i for i, c in enumerate(rframe) if c.key and c.ty == INT]
            if not lk or not rk:
                return None
            a, b = lk[0], rk[0]
            side = rng.choice(["inner", "left", "left"])
        # `this`/`that` are not needed: references are unambiguous by construction
        cond_t = f"{lframe[a].ref} == {rframe2[b].ref}"
        cond_s = f"( eq ( col {a} ) ( col {len(lframe) + b} ) )"
        if all_eq:
            # every column of the left equated with the column of the right at the same position
            cond_t = " && ".join(f"{l.ref} == {r_.ref}" for l, r_ in zip(lframe, rframe2))
            cond_s = f"( eq ( col 0 ) ( col {len(lframe)} ) )"
            for j in range(1, len(lframe)):
                cond_s = f"( and {cond_s} ( eq ( col {j} ) ( col {len(lframe) + j} ) ) )"
            if side not in ("inner", "left"):
                side = "inner"
            if getattr(self, "force_side", None):
                side = self.force_side
        elif self.key_join:
            pass
        elif self.want("join_const", 0.04):
            # the cross-join idiom and conditions that constant-fold: `join x true`, `join side:left x (1 == 1)`, `.. false`
            cond_t, cond_s = rng.choice([("true", "( lit T )"), ("(1 == 1)", "( eq ( lit 1 ) ( lit 1 ) )"), ("true", "( lit T )"),
                                         ("(2 > 3)", "( gt ( lit 2 ) ( lit 3 ) )"), ("false", "( lit F )")])
            side = rng.choice(["inner", "left", "right", "full", "left", "right"])
        elif lframe[a].name == rframe2[b].name and rng.random() < 0.5 and \
                sum(1 for c in lframe if c.name == lframe[a].name) == 1 and sum(1 for c in rframe2 if c.name == lframe[a].name) == 1:
            cond_t = f"=={lframe[a].name}"
        elif rng.random() < 0.3:
            e = ExprGen(rng, nf, depth=1).gen(BOOL)
            cond_t = f"{cond_t} && {e[0]}"
            cond_s = f"( and {cond_s} {e[1]} )"
        if getattr(self, "force_side", None):
            side = self.force_side
        self.last_join_left = len(lframe)
        side_t = "" if side == "inner" and rng.random() < 0.5 else f"side:{side} "
        return (f"join {side_t}{rtext or rname} ({cond_t})",
                f"( join {side} ( {kind} {idx} ) {len(lframe)} {len(rframe2)} {cond_s} )", nf)

    def tr_append(self, frame, sname):
        rng = self.rng
        tys = [c.ty for c in frame]
        if self.append_inline and not getattr(self, "force_source", None) and rng.random() < 0.7 and all(t in (INT, TXT, BOOL) for t in tys):
            # bottom relation built to fit the top frame: an inline pipeline over some source with one expression per column
            kind, idx, rname, rframe = rng.choice(self.sources())
            eg = ExprGen(rng, rframe, depth=1)
            items, sx = [], []
            for j, t in enumerate(tys):
                e = eg.col(t) if rng.random() < 0.7 else None
                e = e or eg.gen(t, 1)
                items.append(f"q{j} = {e[0]}")
                sx.append(e[1])
            hname = f"_h{len(self.lets)}"
            self.lets.append((hname, [], "", f"( ( {kind} {idx} ) ( ( select ( " + " ".join(sx) + " ) ) ) )"))
            nf = [c.copy(key=False) for c in frame]
            return (f"append (from {rname} | select {{" + ", ".join(items) + "})", f"( append ( ref {len(self.lets) - 1} ) )", nf)
        srcs = [s for s in self.sources() if [c.ty for c in s[3]] == tys]
        forced_src = getattr(self, "force_source", None)
        if forced_src:
            srcs = [s for s in srcs if s[2] == forced_src]
        if not srcs:
            return None
        kind, idx, rname, rframe = rng.choice(srcs)
        nf = [c.copy(key=False) for c in frame]
        if kind == "ref" and (forced_src or self.want("append_let", 0.5)):
            return (f"append {rname}", f"( append ( {kind} {idx} ) )", nf)
        if self.append_inline:
            # bottom relation as an inline pipeline with an explicit projection
            cols = ", ".join(c.ref for c in rframe)
            return (f"append (from {rname} | select {{{cols}}})", f"( append ( {kind} {idx} ) )", nf)
        return (f"append {rname}", f"( append ( {kind} {idx} ) )", nf)

    # -- whole program
    def program(self):
        for i in range(self.nlets):
            (kind, idx), frame, text, sx, _ = self.pipeline()
            # a let-table must have uniquely named columns to be usable afterwards
            if not self.unique_names(frame):
                names = [self.name("y") for _ in frame]
                text.append("select {" + ", ".join(f"{n} = {c.ref}" for n, c in zip(names, frame)) + "}")
                sx.append("( select ( " + " ".join(f"( col {j} )" for j in range(len(frame))) + " ) )")
                frame = [Col(n, c.ty, key=c.key) for n, c in zip(names, frame)]
            else:
                frame = [c.copy(ref=c.name) for c in frame]
            name = f"l{i}"
            self.lets.append((name, frame, " | ".join(text), f"( ( {kind} {idx} ) ( " + " ".join(sx) + " ) )"))
        (kind, idx), frame, text, sx, frames = self.pipeline(forced=self.forced)
        c = Case(self.schema, self.declared, [(n, t, s) for n, _, t, s in self.lets], (kind, idx), text, sx, frames, self.trace)
        c.functions = self.functions
        return c


class Case:
    """a generated program; can be truncated (drop trailing transforms of the main pipeline) and re-rendered"""

    def __init__(self, schema, declared, lets, src, text, sx, frames, kinds):
        self.schema, self.declared, self.lets, self.src = schema, declared, lets, src
        self.text, self.sx, self.frames, self.kinds = text, sx, frames, kinds
        self.db = None

    functions = False

    def truncated(self, k):
        """keep `from` + the first k transforms"""
        c = Case(self.schema, self.declared, self.lets, self.src, self.text[:k + 1], self.sx[:k], self.frames[:k + 1], self.kinds)
        c.db, c.functions = self.db, self.functions
        return c

    def with_db(self, db):
        c = Case(self.schema, self.declared, self.lets, self.src, self.text, self.sx, self.frames, self.kinds)
        c.db, c.functions = db, self.functions
        return c

    def used_lets(self):
        """lets referenced (transitively) by the main pipeline"""
        used = set()
        body = " ".join(self.text)
        for i in range(len(self.lets) - 1, -1, -1):
            n, t, _ = self.lets[i]
            import re
            if re.search(rf"\b{n}\b", body):
                used.add(i)
                body += " " + t
        return used

    @property
    def prql(self):
        decl = self.schema.decl() if self.declared else ""
        decl += "\n" + self.schema.literal_decl(self.db) + (FUNCTION_DEFS if self.functions else "")
        used = self.used_lets()
        return decl + "\n" + "".join(f"let {n} = ({t})\n" for i, (n, t, _) in enumerate(self.lets) if i in used) + "\n".join(self.text) + "\n"

    @property
    def sexp(self):
        kind, idx = self.src
        return "( ( " + " ".join(s for _, _, s in self.lets) + " ) " + f"( ( {kind} {idx} ) ( " + " ".join(self.sx) + " ) ) )"

    @property
    def columns(self):
        return [c.name for c in self.frames[-1]]

    @property
    def db_sexp(self):
        return sx_db(self.db)

    @property
    def schema_list(self):
        return [(n, [(c.name, c.ty) for c in cols]) for n, cols in self.schema.tables]

    def to_json(self):
        return {"prql": self.prql, "sexp": self.sexp, "db": self.db, "db_sexp": self.db_sexp, "schema": self.schema_list,
                "columns": self.columns}


ALL_KINDS = ["select", "derive", "filter", "sort", "take", "aggregate", "group_agg", "group_take", "join", "append", "window"]


def systematic_let_cases(maxlen, profile, seed=9, kinds=("sort", "take", "filter", "derive", "select", "join", "group_agg"), sample=None):
    """every sequence of transform kinds of length 2..maxlen, cut at every position into `let p = (from t | prefix)` and
    `from p | suffix` (the order established inside a let-table must survive the boundary)"""
    import itertools, zlib
    out = []
    for n in range(2, maxlen + 1):
        seqs = list(itertools.product(kinds, repeat=n))
        if sample and n == maxlen and len(seqs) > sample[1]:
            seqs = sample[0].sample(seqs, sample[1])
        for seq in seqs:
            for cut in range(1, n):
                rng = random.Random(zlib.crc32(repr((seed, cut) + seq).encode()))
                for attempt in range(3):
                    try:
                        g = Gen(rng, nlets=0, **profile)
                        ExprGen.functions = g.functions
                        (kind, idx), frame, text, sx, _ = g.pipeline(forced=list(seq[:cut]))
                        if not g.unique_names(frame):
                            raise NotApplicable("names")
                        frame = [c.copy(ref=c.name) for c in frame]
                        g.lets.append(("p0", frame, " | ".join(text), f"( ( {kind} {idx} ) ( " + " ".join(sx) + " ) )"))
                        li = len(g.lets) - 1
                        g.forced = list(seq[cut:])
                        (k2, i2), frame2, text2, sx2, frames2 = g.pipeline(first_choice=("ref", li, "p0", frame), forced=g.forced)
                        c = Case(g.schema, g.declared, [(nm, t, sxx) for nm, _, t, sxx in g.lets], (k2, i2), text2, sx2, frames2, g.trace)
                        c.functions = g.functions
                        c.db = gen_db(rng, g.schema)
                        c.seq = seq
                        out.append(c)
                        break
                    except NotApplicable:
                        continue
                    finally:
                        ExprGen.functions = False
    return out


def diamond_cases(profile, seed=13, variants=1, tails=(None, "filter", "take", "select", "sort", "aggregate")):
    """one relation read several times (seed-independent enumeration):
      `let p0 = (from t | PRE)`, `let a0 = (from p0 | S1)`, `let b0 = (from p0 | S2)`, `from a0 | join b0 (..)` / `from a0 | append b0`;
      `from t | append p0 | append p0` and `from t | append p0 | join p0 (..)` (the first compiled reference is an append);
    each followed by an optional tail transform that forces another SELECT"""
    import itertools, zlib
    out = []
    pres = [("sort",), ("filter",), ("select",), ("derive",), ("sort", "take"), ("take",), ("group_agg",), ("sort", "derive")]
    keep = [("take",), ("filter",), ("sort", "take"), ("sort",)]          # frame-preserving
    other = keep + [("derive",), ("select",), ("sort", "take", "derive")]

    def attempt(key, build):
        for v in range(variants):
            for att in range(4):
                rng = random.Random(zlib.crc32(repr((seed, v, att) + key).encode()))
                try:
                    g = Gen(rng, nlets=0, **profile)
                    r = build(g)
                    c = Case(g.schema, g.declared, [(nm, t, sxx) for nm, _, t, sxx in g.lets], r[0], r[2], r[3], r[4], g.trace)
                    c.functions = g.functions
                    c.db = gen_db(rng, g.schema)
                    c.seq = key
                    out.append(c)
                    break
                except NotApplicable:
                    continue

    def let(g, name, first, forced):
        (kind, idx), frame, text, sx, _ = g.pipeline(first_choice=first, forced=list(forced))
        if not g.unique_names(frame):
            raise NotApplicable("names")
        frame = [c.copy(ref=c.name) for c in frame]
        g.lets.append((name, frame, " | ".join(text), f"( ( {kind} {idx} ) ( " + " ".join(sx) + " ) )"))
        return ("ref", len(g.lets) - 1, name, frame)

    def main(g, first, forced, src):
        g.force_source = src
        try:
            return g.pipeline(first_choice=first, forced=list(forced))
        finally:
            g.force_source = None

    for pre in pres:
        for s1, s2 in itertools.product(other, repeat=2):
            for op in ("join", "append"):
                if op == "append" and (s1 not in keep or s2 not in keep):
                    continue
                for tail in tails:
                    def build(g, pre=pre, s1=s1, s2=s2, op=op, tail=tail):
                        base = [s_ for s_ in g.sources() if s_[0] == "base"][0]
                        p0 = let(g, "p0", base, pre)
                        a0 = let(g, "a0", p0, s1)
                        b0 = let(g, "b0", p0, s2)
                        r = main(g, a0, [op], "b0")
                        if tail:
                            save = g.lets
                            (k_, i_), fr, tx, sx, frs = r
                            g.force_source = None
                            t_ = None
                            for _a in range(6):
                                t_ = getattr(g, "tr_" + tail)(fr, "a0")
                                if t_:
                                    break
                            if not t_:
                                raise NotApplicable(tail)
                            r = ((k_, i_), t_[2], tx + [t_[0]], sx + [t_[1]], frs + [t_[2]])
                        return r
                    attempt(("diamond", pre, s1, s2, op, tail), build)
    for pre in keep:
        for second in ("append", "join"):
            for tail in tails:
                def build(g, pre=pre, second=second, tail=tail):
                    base = [s_ for s_ in g.sources() if s_[0] == "base"][0]
                    p0 = let(g, "p0", base, pre)
                    r = main(g, base, ["append", second], "p0")
                    if tail:
                        (k_, i_), fr, tx, sx, frs = r
                        t_ = None
                        for _a in range(6):
                            t_ = getattr(g, "tr_" + tail)(fr, base[2])
                            if t_:
                                break
                        if not t_:
                            raise NotApplicable(tail)
                        r = ((k_, i_), t_[2], tx + [t_[0]], sx + [t_[1]], frs + [t_[2]])
                    return r
                attempt(("append-first", pre, second, tail), build)
    return out


def setop_cases(profile, seed=21, variants=2):
    """the shapes the back end rewrites to set operations / DISTINCT (seed-independent): a join equating EVERY column of both sides
    (inner -> INTERSECT, left + `filter right == null` -> EXCEPT), followed by a projection of the left side, of both sides, or none,
    with `group {all} (take 1)` (DISTINCT) before and / or after; `c.set_compare` marks programs whose result is a set"""
    import itertools, zlib
    out = []
    pre = [(), ("select",), ("distinct",), ("select", "distinct"), ("filter",)]
    mid = {"inner": [("select_left",), ("select_mixed",), (), ("select_left", "distinct"), ("distinct", "select_left"), ("select_left", "filter"),
                     ("select_left", "sort"), ("select_left", "take")],
           "left": [("filter_rnull", "select_left"), ("filter_rnull", "select_left", "distinct"), ("filter_rnull",), ("select_left",),
                    ("filter_rnull", "select_mixed"), ("filter_rnull", "distinct", "select_left")]}
    for side in ("inner", "left"):
        for p_, m_ in itertools.product(pre, mid[side]):
            seq = p_ + ("join",) + m_
            for v in range(variants):
                for att in range(5):
                    rng = random.Random(zlib.crc32(repr((seed, v, att, side) + seq).encode()))
                    try:
                        g = Gen(rng, forced=list(seq), nlets=0, **dict(profile, shapes=True, force_shape=["join_all"]))
                        g.force_side = side
                        g.force_same = (v % 2 == 1)
                        c = g.program()
                        if not any(" && " in t_ and "=(from" in t_ for t_ in c.text):
                            raise NotApplicable("join_all not applicable")
                        c.db = gen_db(rng, g.schema)
                        # many equal rows and NULLs on both sides: copy rows of the first table into the others where the widths agree
                        c.seq = ("setop", side) + seq
                        c.set_compare = "distinct" in m_[-1:] or False
                        out.append(c)
                        break
                    except NotApplicable:
                        continue
    return out


def inherited_order_cases(profile, seed=5, variants=3, maxmid=2):
    """`sort K | <up to maxmid order-retaining transforms> | derive {w = order-dependent window function}`: the window function has
    to see the order established several transforms earlier (seed-independent enumeration)"""
    import itertools, zlib
    out = []
    mids = ["select", "filter", "derive", "take", "exclude"]
    for n in range(0, maxmid + 1):
        for mid in itertools.product(mids, repeat=n):
            seq = ("sort",) + mid + ("window",)
            for v in range(variants):
                rng = random.Random(zlib.crc32(repr((seed, v) + seq).encode()))
                for attempt in range(4):
                    try:
                        g = Gen(rng, forced=list(seq), nlets=0, simple_sort=True, **profile)
                        c = g.program()
                        c.db = gen_db(rng, g.schema)
                        c.seq = seq
                        out.append(c)
                        break
                    except NotApplicable:
                        continue
    return out


def systematic_cases(maxlen, profile, seed=7, sample=None, kinds=ALL_KINDS, variants=1):
    """one program per sequence of transform kinds of length <= maxlen (seed-independent enumeration); `sample`: (rng, n) to
    subsample the longest length"""
    import itertools
    out = []
    for n in range(1, maxlen + 1):
        seqs = list(itertools.product(kinds, repeat=n))
        if sample and n == maxlen and len(seqs) > sample[1]:
            seqs = sample[0].sample(seqs, sample[1])
        for seq in [s_ for s_ in seqs for _v in range(variants)]:
            import zlib
            nth = sum(1 for c_ in out if getattr(c_, "seq", None) == seq)
            rng = random.Random(zlib.crc32(repr((seed, nth) + seq).encode()))
            for attempt in range(3):
                try:
                    g = Gen(rng, forced=list(seq), nlets=0, **profile)
                    ExprGen.functions = g.functions
                    c = g.program()
                    ExprGen.functions = False
                    c.db = gen_db(rng, g.schema)
                    c.seq = seq
                    out.append(c)
                    break
                except NotApplicable:
                    continue
    return out


def sequence_cases(seqs, profile, seed=7, variants=1, maxrows=6, empty_p=0.0):
    """`variants` programs for each of the given sequences of transform kinds (seed-independent)"""
    import zlib
    out = []
    for seq in seqs:
        seq = tuple(seq)
        for v in range(variants):
            rng = random.Random(zlib.crc32(repr((seed, v) + seq).encode()))
            for attempt in range(4):
                try:
                    g = Gen(rng, forced=list(seq), nlets=0, **profile)
                    ExprGen.functions = g.functions
                    c = g.program()
                    ExprGen.functions = False
                    c.db = gen_db(rng, g.schema, maxrows=maxrows, empty_p=empty_p)
                    c.seq = seq
                    out.append(c)
                    break
                except NotApplicable:
                    ExprGen.functions = False
                    continue
    return out


def carried_order_join_cases(profile, seed=37, variants=3):
    """an order established by a sort, carried through a join that keeps every left row determinate (key join), optionally
    through select / derive / filter, and then needed by a take whose result is consumed by a further transform
    (group / aggregate / ..): the take must still select by the positions of that order"""
    seqs = []
    for first in [("sort", "join"), ("sort", "derive", "join"), ("sort", "join", "join")]:
        for mid in [(), ("select",), ("derive",), ("filter",)]:
            for tail in [("group_agg",), ("aggregate",), ("group_take",), ("derive",), ("filter",), ("select",), ("group_agg", "sort"), ("take",), ()]:
                seqs.append(first + mid + ("take",) + tail)
    out = sequence_cases(seqs, dict(profile, key_join=True), seed=seed, variants=variants, maxrows=7)
    # the same with an inline join side that has a sort of its own (it must not replace the order of the enclosing pipeline)
    side = dict(profile, key_join=True, shapes=True, force_shape=["join_inline"], side_kinds=("sort", "select", "sort", "filter"))
    out += sequence_cases([s_ for s_ in seqs if s_[:2] == ("sort", "join") and len(s_) <= 5], side, seed=seed + 1, variants=variants, maxrows=7)
    return out


def const_join_cases(profile, seed=41, variants=10):
    """joins whose condition is the literal `true` / `false` or constant-folds to one (the cross-join idiom), every join side,
    over databases in which a joined table is often empty (an outer join still returns the padded rows of the other side)"""
    seqs = [("join",), ("join", "aggregate"), ("join", "select"), ("filter", "join"), ("join", "group_agg"), ("join", "sort", "take"),
            ("join", "derive", "filter")]
    return sequence_cases(seqs, dict(profile, shapes=True, force_shape=["join_const"]), seed=seed, variants=variants, maxrows=4, empty_p=0.4)


def make_case(rng, **kw):
    g = Gen(rng, **kw)
    ExprGen.functions = g.functions
    try:
        c = g.program()
    finally:
        ExprGen.functions = False
    c.db = gen_db(rng, g.schema)
    return c


# ---------------------------------------------------------------------------------------
# SQLite execution
# ---------------------------------------------------------------------------------------

def run_sqlite(schema, db, sql):
    import sqlite3
    con = sqlite3.connect(":memory:")
    try:
        for (name, cols), rows in zip(schema, db):
            if name.startswith("r9"):
                continue        # a literal relation lives in the program text, not in the database
            con.execute(f"CREATE TABLE {name} (" + ", ".join(f'"{c}" {"INTEGER" if t == INT else "TEXT"}' for c, t in cols) + ")")
            if rows:
                con.executemany(f"INSERT INTO {name} VALUES (" + ",".join("?" * len(cols)) + ")", rows)
        cur = con.execute(sql)
        names = [d[0] for d in cur.description]
        return names, [list(r) for r in cur.fetchall()], None
    except Exception as e:
        return None, None, f"{type(e).__name__}: {e}"
    finally:
        con.close()


def parse_model_rows(ans):
    """'ok s t a n rows' -> (flags, rows) with bools as 0/1"""
    parts = ans.split(" ", 5)
    if parts[0] != "ok":
        return None
    sorted_, ties, ambig, n = parts[1] == "1", parts[2] == "1", parts[3] == "1", int(parts[4])
    rows = []
    body = parts[5] if len(parts) > 5 else ""
    if n > 0:
        for r in body.split(";"):
            row = []
            for v in (r.split(",") if r != "" else []):
                if v == "N":
                    row.append(None)
                elif v == "T":
                    row.append(1)
                elif v == "F":
                    row.append(0)
                elif v.startswith("s:"):
                    row.append("".join(chr(int(x)) for x in v[2:].split(".") if x))
                else:
                    row.append(int(v))
            rows.append(row)
    return {"sorted": sorted_, "ties": ties, "ambig": ambig}, rows


def canon_rows(rows):
    return sorted(rows, key=lambda r: [(0, 0, "") if v is None else ((1, v, "") if isinstance(v, (int, float)) else (2, 0, v)) for v in r])
