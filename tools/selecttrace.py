"""Tie of the mirror of the clause assembly (lean/PrqlModel/Model/SelectPipe.lean) to translate_select_pipeline (sql/gen_query.rs).

The cargo feature `verif` records the atomic pipeline handed to every call of translate_select_pipeline and what the function
plucked from it: the projection, all sorts, all takes with the folded range, DISTINCT / DISTINCT ON, the filters that become
WHERE, the filters that become HAVING, the GROUP BY columns, OFFSET and LIMIT. Each call is replayed through
Model.SelectPipe.parts and every part must agree (filter expressions are interned: equal numbers = equal expressions)."""
import json
from vlib import vh_batch, drv_batch


class Shape(Exception):
    pass


def strip_span(e):
    if isinstance(e, dict):
        return {k: strip_span(v) for k, v in e.items() if k != "span"}
    if isinstance(e, list):
        return [strip_span(x) for x in e]
    return e


def cids(l):
    return ",".join(str(c) for c in l)


def css(l):
    return ",".join(f"{s['column']}{'a' if s.get('direction', 'Asc') == 'Asc' else 'd'}" for s in l)


def bound(e):
    if e is None:
        return "-"
    k = e["kind"]
    if isinstance(k, dict) and isinstance(k.get("Literal"), dict) and "Integer" in k["Literal"] and k["Literal"]["Integer"] >= 0:
        return str(k["Literal"]["Integer"])
    raise Shape("take bound is not a non-negative integer literal")


def rng(t):
    return f"{bound(t['range'].get('start'))}:{bound(t['range'].get('end'))}"


def tr(t, it):
    if t == "Distinct":
        return "D"
    if isinstance(t, dict) and len(t) == 1:
        (tag, v), = t.items()
        if tag == "From":
            return "F"
        if tag == "Join":
            return "J"
        if tag == "Select":
            return "S" + cids(v)
        if tag == "Filter":
            return f"W{it(v)}"
        if tag == "Aggregate":
            return f"A{cids(v['partition'])}|{cids(v['compute'])}"
        if tag == "Sort":
            return "O" + css(v)
        if tag == "Take":
            return "T" + rng(v)
        if tag == "DistinctOn":
            return "N" + cids(v)
    return "X"


def request(ev_in, ev):
    ids = {}

    def it(e):
        return ids.setdefault(json.dumps(strip_span(e), sort_keys=True), len(ids))
    line = "selparts\t" + ";".join(tr(t, it) for t in ev_in["pipeline"])
    pl, cl = ev["plucked"], ev["clauses"]
    ob = pl["order_by"]
    o = lambda x: "-" if x is None else str(x)
    exp = (f"proj={cids(ev['projection'])} order={css(ob[-1]) if ob else ''} nsorts={len(ob)} ranges={'/'.join(rng(t) for t in pl['takes'])} "
           f"take={o(ev['take'][0])}:{o(ev['take'][1])} distinct={1 if pl['is_distinct'] else 0} don={'/'.join(cids(d) for d in pl['distinct_ons'])} "
           f"where={cids(it(e) for e in cl['where'])} having={cids(it(e) for e in cl['having'])} group={cids(cl['group_by'] or [])}")
    # OFFSET / LIMIT arithmetic on the folded range (mirrored by Model.Take.limitOffsetOf, proved in C03)
    s, e = ev["take"]
    off = (s - 1) if s is not None else 0
    lim = None if e is None else e - off
    if ev["offset"] != off or ev["limit"] != lim:
        raise Shape(f"offset/limit {ev['offset']}/{ev['limit']} are not start-1 / end-offset of {ev['take']}")
    return line, exp


def run_suite(ctx, progs, label, targets=("sql.sqlite",)):
    reqs = [{"op": "hook_split_trace", "prql": p, "target": t} for p in progs for t in targets]
    meta = [(p, t) for p in progs for t in targets]
    ans = vh_batch(reqs)
    if ans and any(isinstance(a, dict) and a.get("no_hooks") for a in ans[:3]):
        return 0, 0, False
    items = []
    for (p, t), a in zip(meta, ans):
        pending = None
        for ev in (a or {}).get("events") or []:
            k = ev.get("event")
            if k == "select_pipeline_in":
                pending = ev
            elif k == "select_pipeline" and pending is not None:
                try:
                    line, exp = request(pending, ev)
                    items.append((p, t, line, exp, ev))
                except Shape as e:
                    ctx.count(f"{label}:skipped ({e})")
                except (KeyError, TypeError, ValueError) as e:
                    items.append((p, t, None, str(e), ev))
                pending = None
    res = iter(drv_batch([it[2] for it in items if it[2] is not None]))
    n = bad = 0
    for p, t, line, exp, ev in items:
        if line is None:
            bad += 1
            ctx.disagreement("select-trace", f"trace event of an unrecognised shape: {exp}", {"prql": p, "target": t, "event": ev})
            continue
        a = next(res)
        n += 1
        ctx.case(("sel", line))
        f = dict(x.split("=", 1) for x in exp.split(" "))
        ctx.count(f"{label}:" + "+".join(k for k, on in (("where", f["where"]), ("group", f["group"] or ("A" in line and "agg")), ("having", f["having"]), ("order", f["order"]),
                                                          ("limit", f["take"] != "-:-"), ("distinct", f["distinct"] == "1"), ("distinct-on", f["don"])) if on) or f"{label}:plain")
        if a != exp:
            bad += 1
            ctx.disagreement("select-pipeline", f"translate_select_pipeline differs from Model.SelectPipe.parts: real `{exp}` vs model `{a}`",
                             {"prql": p, "target": t, "request": line, "model": a, "real": exp})
    return n, bad, True
