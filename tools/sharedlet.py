"""Directed stream for C06: a pipeline prefix named ONCE by a let and continued from that name MORE THAN ONCE.

The general rewrite stream names a prefix and continues from the name at one place. Here the same sorted prefix is written out at
two places of the base program (main pipeline and the argument of a join / append, or two further lets); the rewritten program
names it once and reads the name at both places, in either order. Each continuation depends on the order the prefix established
(`take`), the tables hold their rows in another physical order than any sort, and sort keys are unique - so the result is
determined; base and rewritten program are compared as bags of rows on SQLite.
"""
import itertools
import relgen

PRELUDE = "module default_db {\n  let x <[{id = int, a = int, g = int}]>\n}\n\n"
SCHEMA = [("x", [("id", relgen.INT), ("a", relgen.INT), ("g", relgen.INT)])]
DBS = [
    [[(1, 10, 0), (2, 50, 1), (3, 20, 0), (4, 40, 1), (5, 30, 0)]],
    [[(7, -1, 2), (3, 8, 2), (9, 4, 1), (1, 6, 1)]],
    [[(2, 2, 0)]],
]
PREFIXES = ["sort {-a}", "sort a", "sort {-a}\nderive {b = a + id}", "filter a > 0\nsort {-id}", "derive {b = 0 - a}\nsort b"]
# (name of the shape, main continuation, second continuation, how they are combined)
SHAPES = [
    ("join-left", "take 3", "take 2", "join side:left {second} (=={key})\nselect {{{first}.id, {first}.a, o = {second}.a}}"),
    ("join-inner", "take 2..4", "take 3", "join {second} (=={key})\nselect {{{first}.id, o = {second}.a}}"),
    ("append", "take 1\nselect {{id, a}}", "take 2\nselect {{id, a}}", "append {second}"),
    ("append-filter", "take 2\nselect {{id, a}}", "filter g > 0\ntake 1\nselect {{id, a}}", "append {second}"),
]


def programs():
    out = []
    for pre, (shape, c1, c2, comb), swap in itertools.product(PREFIXES, SHAPES, (False, True)):
        c1_, c2_ = c1.replace("{{", "{").replace("}}", "}"), c2.replace("{{", "{").replace("}}", "}")
        # base: the prefix written out at both places
        base = (f"let second = (\n  from x\n  {pre.replace(chr(10), chr(10) + '  ')}\n  {c2_.replace(chr(10), chr(10) + '  ')}\n)\n\n"
                f"from first = x\n{pre}\n{c1_}\n" + comb.format(first="first", second="second", key="id") + "\n")
        # rewritten: named once, read twice (`swap`: the second reader is declared before / after a third let that reads it as well)
        lets = f"let t = (\n  from x\n  {pre.replace(chr(10), chr(10) + '  ')}\n)\n\n"
        second = f"let second = (\n  from t\n  {c2_.replace(chr(10), chr(10) + '  ')}\n)\n\n"
        extra = "let third = (\n  from t\n  take 1\n)\n\n" if swap else ""
        rew = lets + (extra + second if swap else second) + f"from first = t\n{c1_}\n" + comb.format(first="first", second="second", key="id") + "\n"
        out.append({"shape": shape, "prefix": pre, "swap": swap, "base": PRELUDE + base, "rewritten": PRELUDE + rew})
    return out


LOST_IN_BOTTOM = __import__("re").compile(r"UNION ALL SELECT \* FROM \(SELECT [^()]* FROM \w+(?: WHERE [^()]*)? LIMIT \d+\)", __import__("re").S)


def classify_listed(p, sql):
    """listed finding `inherited-sort-lost-in-append-bottom`: the bottom of an append reads a sorted let-table and takes rows - its
    sub-query is emitted with LIMIT and without ORDER BY"""
    flat = " ".join(sql.split())
    return "inherited-sort-lost-in-append-bottom" if p["shape"].startswith("append") and LOST_IN_BOTTOM.search(flat) else None


def run(ctx, target="sql.sqlite"):
    from vlib import vh_batch
    ps = programs()
    ans = iter(vh_batch([{"op": "compile", "prql": t, "target": target} for p in ps for t in (p["base"], p["rewritten"])]))
    nbad = 0
    for p in ps:
        a, b = next(ans), next(ans)
        if "sql" not in a:
            ctx.count("shared-let:base-rejected")
            continue
        if "sql" not in b:
            ctx.case((p["rewritten"],), nontrivial=False)
            reason = (b.get("errors") or [{}])[0].get("reason", str(b)[:120]) if "panic" not in b else "panic: " + b["panic"]
            ctx.oracle_failure(None, f"shared-let: the rewritten program is rejected ({reason}) although the base program compiles",
                               {"kind": "shared-let", "base": p["base"], "rewritten": p["rewritten"], "answer": b}, det_key=(p["rewritten"],))
            nbad += 1
            continue
        for db in DBS:
            n1, r1, e1 = relgen.run_sqlite(SCHEMA, db, a["sql"])
            if e1:
                ctx.count("shared-let:base-sqlite-error")
                break
            n2, r2, e2 = relgen.run_sqlite(SCHEMA, db, b["sql"])
            ctx.case((p["rewritten"], str(db)), nontrivial=bool(r1))
            why = None
            if e2:
                why = "rewritten program fails on SQLite: " + e2
            elif relgen.canon_rows(r1) != relgen.canon_rows(r2):
                why = f"result differs from the base program's: {r1[:6]} vs {r2[:6]}"
            ctx.count("shared-let:" + p["shape"] + (":ok" if why is None else ":fail"))
            if why is None:
                continue
            nbad += 1
            ctx.oracle_failure(classify_listed(p, b["sql"]), "shared-let (prefix named once, read twice): " + why,
                               {"kind": "shared-let", "base": p["base"], "rewritten": p["rewritten"], "base_sql": a["sql"], "sql": b["sql"], "db": db,
                                "schema": SCHEMA, "base_rows": r1, "rows": r2, "compared_as": "bag"},
                               det_key=(p["rewritten"], str(db)))
            break
    ctx.coverage_extra["shared_let_programs"] = len(ps)
    return nbad
