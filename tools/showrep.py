import json,sys
for f in sys.argv[1:]:
    d=json.load(open(f)); r=d.get('replay',d)
    print('=====', d.get('what'), '| class', r.get('class')); print(r['prql'].split('}\n',1)[-1]); print(r.get('sql')); print('db',r.get('db')); print('obs',r.get('observed_rows'), r.get('observed_columns')); print('exp',r.get('expected_rows'), r.get('expected_columns'), r.get('order_flags'))
