"""Tie of the sorting-inference mirror (lean/PrqlModel/Model/InferSorts.lean) to sql/pq/postprocess.rs.

The cargo feature `verif` of /repo records every call of `SortingInference::fold_sql_transforms` (input transforms, what every
From inherited before and after `redirect_sorts`, output transforms, final sorting and DISTINCT ON flag) and every
`ctes_sorting.insert` (op `hook_split_trace` of the harness). Each recorded call is replayed through `inferBlock`, and the
sequence of inserts / look-ups of one compilation through `Store` (what a From that reads a CTE inherits must be what was stored
for that CTE, however many readers there are)."""
import json
from vlib import vh_batch, drv_batch


class Shape(Exception):
    pass


def sorting(s):
    return ",".join(f"{c['column']}{'-' if c['direction'] == 'Desc' else '+'}" for c in s)


def tkind(t):
    if isinstance(t, str):
        return t, None
    if isinstance(t, dict) and len(t) == 1:
        (k, v), = t.items()
        return k, v
    raise Shape(f"transform {t!r}")


def enc_in(t, froms):
    k, v = tkind(t)
    if k == "From":
        if not froms:
            raise Shape("more From transforms than recorded look-ups")
        f = froms.pop(0)
        return f"from:{sorting(f['redirected'])}:{1 if f['from_distinct_on'] else 0}"
    if k == "Sort":
        return "sort:" + sorting(v)
    if k == "Distinct":
        return "distinct"
    if k == "Aggregate":
        return "aggregate"
    if k == "Join":
        return "join"
    if k == "Take":
        return f"take:{1 if not v.get('partition') else 0}:{sorting(v.get('sort', []))}"
    if k == "DistinctOn":
        return "distincton"
    if k == "Select":
        return "select:" + ",".join(str(c) for c in v)
    if k in ("Filter", "Union", "Except", "Intersect"):
        return "other"
    raise Shape(f"transform kind {k}")


def enc_out(out, froms):
    """real output -> the model's output notation; an emitted Sort is any Sort of the output (the input Sorts are dropped)"""
    res = []
    for t in out:
        k, v = tkind(t)
        if k == "Sort":
            res.append("emit:" + sorting(v))
        else:
            res.append(enc_in(t, froms))
    return res


def requests(events):
    out = []
    store_events, store_expect = [], []
    for ev in events:
        if ev.get("event") == "cte_sorting":
            store_events.append(f"ins:{ev['tid']}:{sorting(ev['sorting'])}:{1 if ev['from_distinct_on'] else 0}")
        elif ev.get("event") == "infer_sorts":
            try:
                fr = list(ev["froms"])
                ins = [enc_in(t, fr) for t in ev["input"]]
                fr2 = list(ev["froms"])
                outs = enc_out(ev["output"], fr2)
                exp = ";".join(outs) + f" | sorting={sorting(ev['sorting'])} do={1 if ev['from_distinct_on'] else 0}"
                out.append(("block", f"isorts\t{1 if ev['main'] else 0}\t" + ";".join(ins), exp, ev))
                # look-ups of this call: a From that reads a relation by reference
                k = 0
                for t in ev["input"]:
                    kk, v = tkind(t)
                    if kk == "From":
                        f = ev["froms"][k]
                        k += 1
                        kind = v.get("kind", {})
                        if isinstance(kind, dict) and "Ref" in kind:
                            store_events.append(f"read:{kind['Ref']}")
                            store_expect.append(f"{sorting(f['inherited'])}:{1 if f['from_distinct_on'] else 0}")
            except (Shape, KeyError, TypeError, IndexError) as e:
                out.append(("shape", None, str(e), ev))
    if store_events:
        out.append(("store", "istore\t" + ";".join(store_events), ";".join(store_expect), {"events": store_events}))
    return out


def run_suite(ctx, progs, label, targets=("sql.sqlite",)):
    reqs = [{"op": "hook_split_trace", "prql": p, "target": t} for p in progs for t in targets]
    meta = [(p, t) for p in progs for t in targets]
    ans = vh_batch(reqs)
    if ans and any(isinstance(a, dict) and a.get("no_hooks") for a in ans[:3]):
        return 0, 0, False
    items = []
    for (p, t), a in zip(meta, ans):
        evs = (a or {}).get("events") or []
        if "sql" not in (a or {}):
            continue            # a compilation that fails later leaves a partial trace
        for it in requests(evs):
            items.append((p, t, it))
    lines = [it[1] for (_, _, it) in items if it[1] is not None]
    res = iter(drv_batch(lines))
    n = bad = 0
    for p, t, (kind, line, exp, ev) in items:
        if kind == "shape":
            bad += 1
            ctx.count(f"{label}:unrecognised-shape")
            ctx.disagreement("sort-trace", f"trace event of an unrecognised shape: {exp}", {"prql": p, "target": t, "event": ev})
            continue
        a = next(res)
        n += 1
        ctx.case((kind, line))
        ctx.count(f"{label}:{kind}")
        if kind == "block" and ("emit:" in exp):
            ctx.count(f"{label}:block-with-emitted-sort")
        if a != exp:
            bad += 1
            what = ("fold_sql_transforms differs from Model.InferSorts.inferBlock" if kind == "block" else
                    "what a From inherits from a CTE differs from what was stored for it (Model.InferSorts.Store)")
            ctx.disagreement("infer-sorts-" + kind, f"{what}: real `{exp[:300]}` vs model `{a[:300]}`",
                             {"prql": p, "target": t, "request": line, "model": a, "real": exp})
    return n, bad, True
