"""Relations whose columns the compiler has to INFER (C05): `from s"SELECT ..."`, relation literals, `from_text`, and what a
pipeline does to that inferred frame.

Oracle (no model needed): the inner SQL text is executed BY ITSELF on SQLite; the names SQLite reports are the relation's true
columns E0.  The frame semantics of the pipeline (filter / sort / take keep the frame, derive appends, select replaces, join
concatenates, aggregate = keys then aggregates, append keeps the top frame ...) turns E0 into the expected result columns, which are
compared (names, count, order) with what SQLite reports for the compiled program.

Two streams: `grid` (seed independent: every select list of <= 3 (4) items over an alphabet of item kinds, rotating statement
shapes and follow-up pipelines) and `rand` (random items / shapes / pipelines of several steps / second sources).
"""
import itertools, re, sqlite3

SETUP = [
    'CREATE TABLE t (a INTEGER, b INTEGER, c TEXT, d INTEGER, "q r" INTEGER, "from" INTEGER, "Mx" INTEGER)',
    "INSERT INTO t VALUES (1, 10, 'x', 5, 7, 8, 9), (2, 20, 'y', NULL, 7, 8, 9), (3, NULL, 'z', 6, 1, 2, 3), (1, 10, 'x', 5, 7, 8, 9)",
    'CREATE TABLE u (k INTEGER, e TEXT)',
    "INSERT INTO u VALUES (1, 'p'), (2, 'q'), (4, 'r')",
]
POOL = ["a", "b", "c", "d"]


def connect():
    con = sqlite3.connect(":memory:")
    for s in SETUP:
        con.execute(s)
    con.commit()
    return con


def names_of(con, sql):
    try:
        cur = con.execute(sql)
        names = [d[0] for d in cur.description]
        cur.fetchall()
        return names, None
    except Exception as e:
        return None, f"{type(e).__name__}: {e}"


# ---- select items.  kind -> (text(col, i), name(col, i)) where name = what try_extract_sql_columns reads off the item when it is a
# bare identifier or carries an alias (None: the item has no such name and the extraction has to give up)
KINDS = {
    "bare":      (lambda c, i: c, lambda c, i: c),
    "qual":      (lambda c, i: f"t.{c}", None),
    "as":        (lambda c, i: f"{c} AS x{i}", lambda c, i: f"x{i}"),
    "noas":      (lambda c, i: f"{c} y{i}", lambda c, i: f"y{i}"),
    "expr":      (lambda c, i: f"{c} + 1", None),
    "expr_as":   (lambda c, i: f"{c} * 2 AS m{i}", lambda c, i: f"m{i}"),
    "func":      (lambda c, i: f"abs({c})", None),
    "star":      (lambda c, i: "*", None),
    "qstar":     (lambda c, i: "t.*", None),
    "quoted":    (lambda c, i: f'"{c}"', lambda c, i: c),
    "case_as":   (lambda c, i: f"CASE WHEN {c} IS NULL THEN 0 ELSE 1 END AS w{i}", lambda c, i: f"w{i}"),
    "sub":       (lambda c, i: "(SELECT max(k) FROM u)", None),
    "upper":     (lambda c, i: c.upper(), lambda c, i: c.upper()),
    "lit":       (lambda c, i: str(i + 1), None),
    # --- secondary alphabet
    "func_as":   (lambda c, i: f"coalesce({c}, 0) AS f{i}", lambda c, i: f"f{i}"),
    "btick":     (lambda c, i: f"`{c}`", lambda c, i: c),
    "spaced":    (lambda c, i: '"q r"', lambda c, i: "q r"),
    "kwname":    (lambda c, i: '"from"', lambda c, i: "from"),
    "mixed":     (lambda c, i: "mX", lambda c, i: "mX"),
    "case":      (lambda c, i: f"CASE WHEN {c} > 1 THEN 1 ELSE 0 END", None),
    "sub_as":    (lambda c, i: f"(SELECT min(k) FROM u) AS s{i}", lambda c, i: f"s{i}"),
    "lit_as":    (lambda c, i: f"{i + 7} AS l{i}", lambda c, i: f"l{i}"),
    "null":      (lambda c, i: "NULL", None),
    "str":       (lambda c, i: "'s'", None),
    "as_kw":     (lambda c, i: f'{c} AS "order"', lambda c, i: "order"),
    "as_upper":  (lambda c, i: f"{c} AS X{i}", lambda c, i: f"X{i}"),
    "as_other":  (lambda c, i: f"{c} AS {POOL[(i + 1) % 4]}", lambda c, i: POOL[(i + 1) % 4]),
    "as_spaced": (lambda c, i: f'{c} AS "p {i}"', lambda c, i: f"p {i}"),
    "dup":       (lambda c, i: "a", lambda c, i: "a"),
    "cast":      (lambda c, i: f"CAST({c} AS TEXT)", None),
    "neg":       (lambda c, i: f"-{c}", None),
    "paren":     (lambda c, i: f"({c})", None),
    "qual_as":   (lambda c, i: f"t.{c} AS x{i}", lambda c, i: f"x{i}"),
    "qual_q":    (lambda c, i: 't."q r"', None),
    "qual_up":   (lambda c, i: f"T.{c.upper()}", None),
    "concat":    (lambda c, i: f"{c} || 'z'", None),
    "cmp":       (lambda c, i: f"{c} > 1", None),
    "win_as":    (lambda c, i: f"row_number() OVER (ORDER BY {c}) AS r{i}", lambda c, i: f"r{i}"),
    "win":       (lambda c, i: f"count(*) OVER ()", None),
}
PRIMARY = ["bare", "qual", "as", "noas", "expr", "expr_as", "func", "star", "qstar", "quoted", "case_as", "sub", "upper", "lit"]
ALL_KINDS = list(KINDS)


def item_texts(kinds):
    return [KINDS[k][0](POOL[i % 4], i) for i, k in enumerate(kinds)]


# ---- statement shapes.  shape -> (text(items), plain) where plain = one SELECT statement without interpolation
def _j(items):
    return ", ".join(items)


SHAPES = {
    "plain":     (lambda it: f"SELECT {_j(it)} FROM t", True),
    "lower":     (lambda it: f"select {_j(it)} from t", True),
    "mixedcase": (lambda it: f"Select {_j(it)} From t", True),
    "distinct":  (lambda it: f"SELECT DISTINCT {_j(it)} FROM t", True),
    "all":       (lambda it: f"SELECT ALL {_j(it)} FROM t", True),
    "comment":   (lambda it: "SELECT /* cols, more */ " + ", /* x */ ".join(it) + " FROM t /* end */", True),
    "linecomment": (lambda it: "SELECT -- the items, one, two\n " + ",\n ".join(it) + " -- last\nFROM t", True),
    "where":     (lambda it: f"SELECT {_j(it)} FROM t WHERE a > 0 ORDER BY a LIMIT 5", True),
    "newlines":  (lambda it: "\n  SELECT\n    " + ",\n    ".join(it) + "\n  FROM\n    t\n", True),
    "tblalias":  (lambda it: f"SELECT {_j(it)} FROM t AS t", True),
    "joined":    (lambda it: f"SELECT {_j(it)} FROM t JOIN u ON u.k = t.a", True),
    "fromsub":   (lambda it: f"SELECT {_j(it)} FROM (SELECT * FROM t) AS t", True),
    "union":     (lambda it: f"SELECT {_j(it)} FROM t UNION ALL SELECT {_j(it)} FROM t", False),
    "parens":    (lambda it: f"(SELECT {_j(it)} FROM t)", False),
    "interp":    (lambda it: f"SELECT {_j(it)} FROM {{t}}", False),
}
GRID_SHAPES = ["plain", "lower", "distinct", "comment", "linecomment", "where", "newlines", "plain", "joined", "lower", "mixedcase", "plain",
               "fromsub", "union", "interp", "all", "tblalias", "plain", "parens", "where"]


def sstring(sql):
    """PRQL s-string literal of a SQL text ({t} / {0} of the interp shapes are real interpolations)"""
    if '"' not in sql:
        return 's"' + sql + '"'
    if "'" not in sql:
        return "s'" + sql + "'"
    return 's"""' + sql + '"""'


class Src:
    """a relation with an inferred frame.  head = pipeline head line; names = its true columns; order = "exact" (the columns are told in
    order, or inferred at run time by a star), "set" (an s-string whose select list try_extract_sql_columns reads: `alt` = the names it
    reads, sorted and merged - the recorded defect), "unordered" (JSON row objects: only the set of columns is told)"""
    def __init__(self, head, names, tag, order="exact", alt=None, inner=None, noref=()):
        self.head, self.names, self.tag, self.order, self.inner, self.noref = head, names, tag, order, inner, set(noref)
        self.alt = alt if alt is not None else names


def sstring_src(con, kinds, shape):
    sql = SHAPES[shape][0](item_texts(kinds))
    runnable = sql.replace("{t}", "t")
    names, err = names_of(con, runnable)
    if err:
        return None
    read = [KINDS[k][1] and KINDS[k][1](POOL[i % 4], i) for i, k in enumerate(kinds)]
    extract = SHAPES[shape][1] and all(read)
    # SQL identifiers are case-insensitive, PRQL's are not: a column written `A` in the SQL text is not referred to as `a` by the programs
    noref = {POOL[i % 4] for i, k in enumerate(kinds) if k in ("upper", "qual_up")} | ({"mx"} if "mixed" in kinds else set())
    return Src("from " + sstring(sql), names, "sstring", "set" if extract else "exact", sorted(set(read)) if extract else None, runnable, noref)


def literal_src(cols, style):
    """columns TOLD to the compiler: relation literal / from_text csv / from_text json (both layouts)"""
    if style == "literal":
        rows = ["{" + ", ".join(f"{qref(c)} = {r * 10 + i}" for i, c in enumerate(cols)) + "}" for r in range(2)]
        return Src("from [" + ", ".join(rows) + "]", list(cols), "literal")
    if style == "csv":
        body = ",".join(cols) + "\n" + "\n".join(",".join(str(r * 10 + i) for i in range(len(cols))) for r in range(2))
        return Src('from_text format:csv """' + body + '\n"""', list(cols), "from_text-csv")
    if style == "json-columns":
        import json
        body = json.dumps({"columns": list(cols), "data": [[r * 10 + i for i in range(len(cols))] for r in range(2)]})
        return Src("from_text format:json '" + body + "'", list(cols), "from_text-json-columns")
    import json
    body = "[" + ", ".join("{" + ", ".join(f"{json.dumps(c)}: {r * 10 + i}" for i, c in enumerate(cols)) + "}" for r in range(2)) + "]"
    # the keys of a JSON object are not ordered: only the SET of columns is told
    return Src("from_text format:json '" + body + "'", list(cols), "from_text-json-rows", "unordered")


# ---- PRQL references to inferred columns
RESERVED = {"let", "into", "case", "prql", "type", "module", "internal", "func", "import", "enum", "from", "select", "filter", "derive", "sort", "take",
            "join", "group", "aggregate", "window", "append", "this", "that", "true", "false", "null", "and", "or", "not", "in", "order", "std", "count", "min", "max",
            "sum", "loop", "one", "two"}


def qref(name):
    if re.fullmatch(r"[A-Za-z_][A-Za-z0-9_]*", name) and name.lower() not in RESERVED:
        return name
    if re.fullmatch(r"[A-Za-z_][A-Za-z0-9_ ]*", name) and name.lower() not in RESERVED:
        return "`" + name + "`"
    return None


NOREF = set()          # set by build() for the source at hand


def refs(frame):
    """names of the frame that a program can refer to without ambiguity"""
    low = [n.lower() for n in frame]
    return [n for n in frame if qref(n) and low.count(n.lower()) == 1 and not re.fullmatch(r"(z|n|g)9[0-9]*", n) and n.lower() not in NOREF]


# ---- pipeline steps.  A frame is a list of slots (name, gid): gid = index of the inferred source the slot still belongs to through a
# wildcard, None for a column the program names itself.  f(names, k, ctr) -> (text, transformer(frame, toggles)) or None; k = choice index.
# toggles (the recorded defects): "nx" = exclusions are ignored, "xu" = a later expansion of the whole frame brings excluded columns back,
# "gt" = `group (take)` leaves the column order alone, "gk" = `group (take)` lists the key in front of the unchanged frame
def _pick(names, k, n=1):
    r = sorted(refs(names))
    if not r:
        return []
    return [r[(k + j * 3) % len(r)] for j in range(n)]


def _same(f, tg):
    return f


def _named(names):
    return lambda f, tg: [(n, None) for n in names]


def _plus(names):
    return lambda f, tg: f + [(n, None) for n in names]


def _filter(fr, k, ctr):
    p = _pick(fr, k)
    return (f"filter {qref(p[0])} != 424242" if p else "filter true"), _same


def _derive(fr, k, ctr):
    p = _pick(fr, k)
    z = f"z9{ctr}"
    return (f"derive {{{z} = {qref(p[0])}}}" if p and k % 2 else f"derive {{{z} = {k + 1}}}"), _plus([z])


def _derive2(fr, k, ctr):
    p = _pick(fr, k)
    if not p:
        return None
    return f"derive {{z9{ctr} = {qref(p[0])}, g9{ctr} = 5}}", _plus([f"z9{ctr}", f"g9{ctr}"])


def _select(fr, k, ctr):
    p = list(dict.fromkeys(_pick(fr, k, 1 + k % 3)))
    if not p:
        return None
    return "select {" + ", ".join(qref(x) for x in p) + "}", _named(p)


def _select_alias(fr, k, ctr):
    p = list(dict.fromkeys(_pick(fr, k, 2)))
    if not p:
        return None
    out = [f"n9{ctr}{j}" if (j + k) % 2 == 0 else x for j, x in enumerate(p)]
    return "select {" + ", ".join((f"n9{ctr}{j} = " if (j + k) % 2 == 0 else "") + qref(x) for j, x in enumerate(p)) + "}", _named(out)


def _revive(f):
    return [(n, g[1]) if isinstance(g, tuple) else (n, g) for n, g in f]


def _exclude(fr, k, ctr):
    p = _pick(fr, k)
    if not p or len(fr) < 2:
        return None

    def fn(f, tg):
        if "nx" in tg:
            return f
        if "xu" in tg:          # the excluded slot stays behind as a ghost (gid = ("ghost", gid)) that a later expansion of the frame revives
            return [(n, ("ghost", g)) if n.lower() == p[0].lower() else (n, g) for n, g in _revive(f)]
        return [x for x in f if x[0].lower() != p[0].lower()]
    return f"select !{{{qref(p[0])}}}", fn


def _take(fr, k, ctr):
    return f"take {1 + k % 3}", _same


def _take_range(fr, k, ctr):
    return f"take 2..{3 + k % 2}", _same


def _sort(fr, k, ctr):
    p = _pick(fr, k)
    return (f"sort {{{'-' if k % 2 else ''}{qref(p[0])}}}", _same) if p else None


def _sort_take(fr, k, ctr):
    p = _pick(fr, k)
    return (f"sort {{{qref(p[0])}}}\ntake {1 + k % 2}", _same) if p else None


def _aggregate(fr, k, ctr):
    return f"aggregate {{n9{ctr} = count this}}", _named([f"n9{ctr}"])


def _group_agg(fr, k, ctr):
    p = _pick(fr, k)
    if not p:
        return None
    return f"group {{{qref(p[0])}}} (aggregate {{n9{ctr} = count this}})", _named([p[0], f"n9{ctr}"])


def _group_take(fr, k, ctr):
    p = _pick(fr, k)
    if not p:
        return None

    def fn(f, tg):
        if "xu" in tg:
            f = _revive(f)
        if "gt" in tg:
            return f
        key = [x for x in f if x[0].lower() == p[0].lower()][:1] or [(p[0], None)]
        if "gk" in tg:
            return key + f
        # the frame after group: the keys, then the other columns
        return key + [x for x in f if x[0].lower() != p[0].lower()]
    return f"group {{{qref(p[0])}}} (take 1)", fn


def _window(fr, k, ctr):
    return f"derive {{z9{ctr} = row_number this}}", _plus([f"z9{ctr}"])


STEPS = {"filter": _filter, "derive": _derive, "derive2": _derive2, "select": _select, "select_alias": _select_alias,
         "exclude": _exclude, "take": _take, "take_range": _take_range, "sort": _sort, "sort_take": _sort_take,
         "aggregate": _aggregate, "group_agg": _group_agg, "group_take": _group_take, "window": _window}
GRID_STEPS = ["filter", "derive", "take", "sort", "select", "derive2", "sort_take", "select_alias", "group_agg", "join_right", "filter", "append",
              "join_left", "aggregate", "exclude", "group_take", "let", "take_range", "window", "join_sstring"]
TOGGLES = [frozenset(a + b) for a in ([], ["nx"], ["xu"]) for b in ([], ["gt"], ["gk"])]


class Case:
    """frames[(alt, toggles)] = expected slots; alt False = the true columns of every source, alt True = what the recorded defects of the
    column extraction make of them; orders[gid] = exact | set | unordered"""
    def __init__(self, prql, frames, orders, src, steps):
        self.prql, self.frames, self.orders, self.src, self.steps = prql, frames, orders, src, steps
        self.inner = src.inner
        self.expect = [n for n, _ in frames[(False, TOGGLES[0])]]
        self.frames = {key: [(n, g) for n, g in f if not isinstance(g, tuple)] for key, f in frames.items()}


def second_source(con, k):
    """a relation over u with names disjoint from t's: (head, names, order, alt)"""
    opts = [("from u | select {k, e}", ["k", "e"], "exact", None),
            ("from " + sstring("SELECT k, e FROM u"), ["k", "e"], "set", ["e", "k"]),
            ("from " + sstring("SELECT u.k, e AS e2 FROM u"), ["k", "e2"], "exact", None),
            ("from " + sstring("SELECT * FROM u"), ["k", "e"], "exact", None),
            ("from [{k = 1, e = 2}]", ["k", "e"], "exact", None),
            ("from " + sstring("SELECT k AS k2, e AS e2 FROM u"), ["k2", "e2"], "set", ["e2", "k2"])]
    return opts[k % len(opts)]


def build(con, src, steps, k):
    """-> Case or None (a step is not applicable)"""
    lines, pre = [src.head], ""
    orders = {0: src.order}
    frames = {(alt, tg): [(n, 0) for n in (src.alt if alt else src.names)] for alt in (False, True) for tg in TOGGLES}
    names = lambda: [n for n, _ in frames[(False, TOGGLES[0])]]
    NOREF.clear()
    NOREF.update(src.noref)

    def apply(fn):
        for key in frames:
            frames[key] = fn(frames[key], key[1])

    for j, st in enumerate(steps):
        kk = k + j
        if st in STEPS:
            r = STEPS[st](names(), kk, j)
            if r is None:
                return None
            lines.append(r[0])
            apply(r[1])
        elif st in ("join_right", "join_sstring", "join_left"):
            h, n2, o2, a2 = second_source(con, kk if st != "join_sstring" else 1 + 4 * (kk % 2))
            if {x.lower() for x in n2} & {x.lower() for x in names()} or (st == "join_left" and j != 0):
                return None
            p = _pick(names(), kk)
            gid = len(orders)
            orders[gid] = o2
            side = ["inner", "left"][kk % 2]
            if st == "join_left":        # the inferred relation is the RIGHT side of a join
                cond = f"this.{n2[0]} == that.{qref(p[0])}" if p else "true"
                lines = [h, f"join side:{side} ({src.head}) ({cond})"]
                for key in frames:
                    frames[key] = [(n, gid) for n in (a2 if key[0] and a2 else n2)] + frames[key]
            else:
                cond = f"this.{qref(p[0])} == that.{n2[0]}" if p else "true"
                lines.append(f"join side:{side} ({h}) ({cond})")
                for key in frames:
                    frames[key] = frames[key] + [(n, gid) for n in (a2 if key[0] and a2 else n2)]
        elif st == "append":
            if len(names()) != 2:
                return None
            lines.append(f"append ({second_source(con, kk)[0]})")
        elif st == "let":
            if j != 0:
                return None
            pre = f"let q9 = ({src.head})\n"
            lines = ["from q9"]
        else:
            raise ValueError(st)
    return Case(pre + "\n".join(lines) + "\n", frames, orders, src, steps)


# ---- judging the observed result columns
def normalise(observed, expect):
    """SQLite renames the second of two equally named columns of a sub-query to `name:1` when a star expands it"""
    low = [e.lower() for e in expect]
    out = []
    for o in observed:
        m = re.fullmatch(r"(.*):[0-9]+", o)
        if m and low.count(m.group(1).lower()) >= 2:
            o = m.group(1)
        out.append(o.lower())
    return out


def _match(observed, frame, orders, free):
    """names, count and order; SQL identifiers compare case-insensitively (SQLite reports `SELECT A FROM t` as column `a`).  The slots of a
    source whose order is in `free` may come in any order among themselves"""
    exp = [n.lower() for n, _ in frame]
    obs = normalise(observed, exp)
    if len(obs) != len(exp):
        return False
    if any(o != e for o, (e, (_, g)) in zip(obs, zip(exp, frame)) if g is None or orders[g] not in free):
        return False
    for g in {g for _, g in frame if g is not None and orders[g] in free}:
        if sorted(o for o, (_, gg) in zip(obs, frame) if gg == g) != sorted(e for e, (_, gg) in zip(exp, frame) if gg == g):
            return False
    return True


def judge(case, observed, sql):
    """-> None (the result columns are the final frame) | finding id of the recorded defect(s) that explain the difference | "" (unexplained)"""
    fr = case.frames
    if _match(observed, fr[(False, TOGGLES[0])], case.orders, {"unordered"}):
        return None
    star = re.search(r"SELECT (?:DISTINCT )?(?:[^()]*, )?(?:\w+\.)?\*", sql) is not None
    # columns the compiler made for itself and a star lets through: row numbers of `group (take)`, and a sort key carried next to a star
    # (`SELECT *, k`: SQLite reports the second one as `k:1`)
    sortkeys = {m.strip("`").lower() for m in re.findall(r"(?m)^sort \{-?(`[^`]*`|\w+)\}", case.prql)}
    expected_names = {n.lower() for n in case.expect}
    helpers = [o for o in observed if re.fullmatch(r"_expr_[0-9]+", o) or
               (re.fullmatch(r".+:[0-9]+", o) and o.rsplit(":", 1)[0].lower() in sortkeys and re.search(r"\*, ", sql)) or
               # a sort key that an earlier `select` renamed away, carried next to a star under its old name
               (o.lower() in sortkeys and o.lower() not in expected_names and re.search(r"\*, ", sql))]
    stripped = [o for o in observed if o not in helpers]
    for leak in (False, True):
        if leak and not ((helpers or len(observed) > len(case.expect)) and star and ("group_take" in case.steps or sortkeys)):
            continue
        for ex in ("", "xu", "nx"):
            if ex == "nx" and not (star and "exclude" in case.steps):
                continue
            if ex == "xu" and not ("exclude" in case.steps[:-1] and set(case.steps[case.steps.index("exclude") + 1:]) & {"exclude", "group_take"}):
                continue
            for alt in (False, True):
                for g in (["", "gt", "gk"] if leak else [""]):
                    tg = frozenset(x for x in (ex, g) if x)
                    free = {"unordered", "set"} if alt else {"unordered"}
                    if _match(stripped if leak else observed, fr[(alt, tg)], case.orders, free):
                        return "star-projection-extra-columns" if leak else "excluded-column-restored-by-later-expansion" if ex == "xu" else \
                            "exclusion-from-star-ignored" if ex == "nx" else "sstring-extracted-columns-are-a-set"
    return ""


def grid(con, maxlen, kinds=PRIMARY, extra_pairs=True, full=True):
    """seed independent: every item list of length <= maxlen over `kinds` (+ all pairs over the whole alphabet), each with the identity
    pipeline, one rotating (shape, step) and (full) one rotating shape alone"""
    out, n = [], 0
    lists = [l for m in range(1, maxlen + 1) for l in itertools.product(kinds, repeat=m)]
    if extra_pairs:
        seen = set(lists)
        lists += [l for m in (1, 2) for l in itertools.product(ALL_KINDS, repeat=m) if l not in seen]
    for l in lists:
        n += 1
        for shape, steps in (("plain", []), (GRID_SHAPES[n % len(GRID_SHAPES)], [GRID_STEPS[(n // 3) % len(GRID_STEPS)]]),
                             (GRID_SHAPES[(n * 7 + 3) % len(GRID_SHAPES)], []))[:3 if full or len(l) < maxlen else 2]:
            src = sstring_src(con, l, shape)
            if src is None:
                out.append(None)
                continue
            out.append(build(con, src, steps, n))
    return out


def grid_steps(con, maxlen=2):
    """seed independent: every item list of length <= maxlen over the primary alphabet (and every single kind) x every follow-up step"""
    out, n = [], 0
    lists = [l for m in range(1, maxlen + 1) for l in itertools.product(PRIMARY, repeat=m)] + [(k,) for k in ALL_KINDS if k not in PRIMARY] + \
            [(k, "bare") for k in ALL_KINDS if k not in PRIMARY] + [("as", k, "qual") for k in ALL_KINDS]
    for l in lists:
        src = sstring_src(con, l, "plain")
        for st in dict.fromkeys(GRID_STEPS):
            n += 1
            out.append(build(con, src, [st], n) if src else None)
    return out


NAME_POOL = ["b", "a", "Zed", "c", "q r", "from", "aa", "B2", "_x", "d"]


def told(con):
    """seed independent: relations whose columns are TOLD (literals / from_text), orders that are not alphabetical"""
    out, n = [], 0
    for m in (1, 2, 3):
        for cols in itertools.permutations(NAME_POOL[:6], m):
            for style in ("literal", "csv", "json-columns", "json-rows"):
                n += 1
                if style == "literal" and any(qref(c) is None for c in cols):
                    continue
                src = literal_src(cols, style)
                out.append(build(con, src, [], n))
                out.append(build(con, src, [GRID_STEPS[n % len(GRID_STEPS)]], n))
    return out


def rand(con, rng, n):
    out = []
    for _ in range(n):
        if rng.random() < 0.12:
            cols = rng.sample(NAME_POOL, rng.randint(1, 4))
            style = rng.choice(["literal", "csv", "json-columns", "json-rows"])
            if style == "literal" and any(qref(c) is None for c in cols):
                style = "csv"
            src = literal_src(cols, style)
        else:
            m = rng.choice([1, 2, 2, 3, 3, 4, 5, 6])
            named = [k for k in ALL_KINDS if KINDS[k][1]]
            r = rng.random()
            if r < 0.35:      # mostly named items with one or two that are not
                kinds = [rng.choice(named) for _ in range(m)]
                for _ in range(rng.randint(0, 2)):
                    kinds[rng.randrange(m)] = rng.choice(ALL_KINDS)
            elif r < 0.5:
                kinds = [rng.choice(named) for _ in range(m)]
            else:
                kinds = [rng.choice(ALL_KINDS) for _ in range(m)]
            src = sstring_src(con, kinds, rng.choice(list(SHAPES)))
            if src is None:
                out.append(None)
                continue
        steps = [rng.choice(GRID_STEPS) for _ in range(rng.choice([0, 1, 1, 2, 2, 3, 4]))]
        steps = [s for j, s in enumerate(steps) if s not in ("let", "join_left") or j == 0]
        # whole-frame expansions after a join, and repeated group (take), come out in an order that differs from call to call (recorded:
        # wildcard-equal-order-choice, column-order-after-group-take; explored by the relgen streams): not composed here
        keep, joined, grouped = [], False, False
        for s_ in steps:
            if s_ in ("exclude", "group_take") and (joined or (grouped and s_ == "group_take")):
                continue
            joined |= s_.startswith("join")
            grouped |= s_ == "group_take"
            keep.append(s_)
        steps = keep
        out.append(build(con, src, steps, rng.randrange(1000)))
    return out
