"""Rewrite `* EXCLUDE (..)` / `t.* EXCEPT (..)` (DuckDB / Snowflake / BigQuery) into explicit column lists, using the schema of the
base tables and SQLite itself for the columns of CTEs, so that SQL emitted for dialects with a column-exclusion facility can be
executed on SQLite. Handles the flat shape the compiler emits: WITH a AS (SELECT ..), b AS (..) SELECT .. ; no nested sub-queries
with stars."""
import re, sqlite3


def split_top(s, sep=","):
    out, depth, cur, i = [], 0, "", 0
    while i < len(s):
        c = s[i]
        if c == "'":
            j = s.index("'", i + 1)
            cur += s[i:j + 1]; i = j + 1; continue
        if c == "(":
            depth += 1
        elif c == ")":
            depth -= 1
        if depth == 0 and s.startswith(sep, i):
            out.append(cur); cur = ""; i += len(sep); continue
        cur += c; i += 1
    out.append(cur)
    return out


def split_ctes(sql):
    """-> ([(name, body)], main)"""
    if not sql.startswith("WITH "):
        return [], sql
    rest = sql[5:]
    ctes = []
    while True:
        m = re.match(r"(?:RECURSIVE )?(\w+) AS \(", rest)
        if not m:
            raise ValueError("cte shape")
        depth, i = 1, m.end()
        while depth:
            if rest[i] == "'":
                i = rest.index("'", i + 1)
            elif rest[i] == "(":
                depth += 1
            elif rest[i] == ")":
                depth -= 1
            i += 1
        ctes.append((m.group(1), rest[m.end():i - 1]))
        rest = rest[i:]
        if rest.startswith(", "):
            rest = rest[2:]
        else:
            return ctes, rest.strip()


def sources_of(body):
    """relations of the FROM clause in order: [(ref_name, relation_name)]"""
    m = re.search(r" FROM (.*?)(?: WHERE | GROUP BY | HAVING | ORDER BY | LIMIT | OFFSET | UNION | QUALIFY |$)", body)
    if not m:
        return []
    out = []
    for part in re.split(r" (?:INNER |LEFT OUTER |RIGHT OUTER |FULL OUTER |FULL |LEFT |RIGHT |CROSS )?JOIN ", m.group(1)):
        part = part.split(" ON ")[0].strip()
        mm = re.match(r"(\w+)(?: AS (\w+))?$", part)
        if not mm:
            raise ValueError("from shape: " + part)
        out.append((mm.group(2) or mm.group(1), mm.group(1)))
    return out


def expand_body(body, cols_of):
    m = re.match(r"SELECT (DISTINCT )?(.*?) FROM ", body)
    if not m:
        return body
    items = [x.strip() for x in split_top(m.group(2))]
    srcs = None
    new = []
    for it in items:
        mm = re.match(r"(?:(\w+)\.)?\*(?: (?:EXCLUDE|EXCEPT) \(([^)]*)\))?$", it)
        if not mm or not mm.group(2):
            new.append(it)
            continue
        if srcs is None:
            srcs = sources_of(body)
        excl = {x.strip().strip('"`') for x in mm.group(2).split(",")}
        rels = [(r, n) for r, n in srcs if mm.group(1) in (None, r)]
        for ref, name in rels:
            for c in cols_of(name):
                if c not in excl:
                    new.append(f'{ref}."{c}"')
    return body[:m.start(2)] + ", ".join(new) + body[m.end(2):]


def expand(sql, schema):
    """schema: [(table, [(col, ty)])] -> SQL runnable on SQLite (or raises ValueError)"""
    base = {n: [c for c, _ in cols] for n, cols in schema}
    ctes, main = split_ctes(sql)
    con = sqlite3.connect(":memory:")
    for n, cols in schema:
        con.execute(f"CREATE TABLE {n} (" + ", ".join(f'"{c}"' for c, _ in cols) + ")")
    known = dict(base)
    done = []

    def cols_of(name):
        if name not in known:
            raise ValueError("unknown relation " + name)
        return known[name]
    for name, body in ctes:
        nb = expand_body(body, cols_of)
        prefix = ("WITH " + ", ".join(f"{n} AS ({b})" for n, b in done) + " ") if done else ""
        cur = con.execute(prefix + f"SELECT * FROM ({nb}) LIMIT 0")
        known[name] = [d[0] for d in cur.description]
        done.append((name, nb))
    nm = expand_body(main, cols_of)
    return (("WITH " + ", ".join(f"{n} AS ({b})" for n, b in done) + " ") if done else "") + nm
