"""Shared machinery of the checks: builds, process drivers, audit, evidence, verdicts."""
import fcntl, hashlib, json, os, random, re, subprocess, sys, time, glob, concurrent.futures

ROOT = os.path.abspath(os.path.join(os.path.dirname(os.path.abspath(__file__)), ".."))
REPO = os.environ.get("VERIF_REPO", "/repo")
LEAN = os.path.join(ROOT, "lean")
HARNESS = os.path.join(ROOT, "harness")
VH = os.path.join(HARNESS, "target", "debug", "vh")
DRV = os.path.join(LEAN, ".lake", "build", "bin", "drv")
EVID = os.path.join(ROOT, "evidence")
REPLAY = os.path.join(EVID, "replay")
NCPU = min(16, os.cpu_count() or 4)
ALLOWED_AXIOMS = {"propext", "Classical.choice", "Quot.sound"}
TRUSTED_BASE = [
    "Lean 4.33.0 kernel (theorems re-checked by `lake build` on every run; leanchecker in thorough)",
    "axioms: subset of {propext, Classical.choice, Quot.sound}, audited per theorem with #print axioms; no native_decide/bv_decide/sorry",
    "translators tools/gen.py (regex + shape assertions) for the regenerated Gen/*.lean tables",
    "correspondence harness /verif/harness (Rust, calls prqlc/prqlc-parser of /repo in-process) and tools/*.py (generators, canonicalisation, diff)",
]

env = dict(os.environ)
env["CARGO_NET_OFFLINE"] = "true"
env.setdefault("RUST_BACKTRACE", "0")
env.setdefault("RUST_MIN_STACK", str(64 * 1024 * 1024))


def sh(cmd, cwd=None, timeout=3600, input=None):
    p = subprocess.run(cmd, cwd=cwd, env=env, capture_output=True, text=True, timeout=timeout, input=input)
    out = "\n".join(l for l in (p.stdout + p.stderr).split("\n") if "conda.cli.condarc" not in l)
    return p.returncode, out


class Lock:
    def __init__(self, name="build"):
        self.path = os.path.join(ROOT, f".{name}.lock")

    def __enter__(self):
        self.f = open(self.path, "w")
        fcntl.flock(self.f, fcntl.LOCK_EX)
        return self

    def __exit__(self, *a):
        fcntl.flock(self.f, fcntl.LOCK_UN)
        self.f.close()


# -----------------------------------------------------------------------------------------
# process drivers
# -----------------------------------------------------------------------------------------

def _run_lines(cmd, lines, timeout, idle=None):
    """feed lines, collect answer lines; returns (answers, returncode).
    timeout: limit for the whole batch; idle: limit (s) for the time between two answers (a single request that hangs is cut
    after `idle` seconds instead of holding the batch until `timeout`)."""
    data = "".join(l + "\n" for l in lines)
    if idle is None:
        try:
            for attempt in range(6):
                try:
                    p = subprocess.run(cmd, input=data, capture_output=True, text=True, env=env, timeout=timeout)
                    break
                except OSError:
                    # the executable is being re-linked by a concurrent `lake build` / `cargo build` of another check (ETXTBSY / ENOENT)
                    if attempt == 5:
                        raise
                    time.sleep(2.0)
            out = p.stdout.split("\n")
            return out[:-1], p.returncode      # the piece after the last newline is never an answer
        except subprocess.TimeoutExpired as e:
            out = e.stdout or b""
            if isinstance(out, bytes):
                out = out.decode("utf-8", "replace")
            return out.split("\n")[:-1], "timeout"
    import threading, selectors
    for attempt in range(6):
        try:
            p = subprocess.Popen(cmd, stdin=subprocess.PIPE, stdout=subprocess.PIPE, stderr=subprocess.DEVNULL, env=env)
            break
        except OSError:
            if attempt == 5:
                raise
            time.sleep(2.0)

    def feed():
        try:
            p.stdin.write(data.encode("utf-8"))
            p.stdin.close()
        except Exception:
            pass
    threading.Thread(target=feed, daemon=True).start()
    sel = selectors.DefaultSelector()
    sel.register(p.stdout, selectors.EVENT_READ)
    buf, answers, t0, last = b"", [], time.time(), time.time()
    rc = None
    while True:
        if time.time() - t0 > timeout or time.time() - last > idle:
            p.kill()
            rc = "timeout"
            break
        if not sel.select(timeout=0.5):
            if p.poll() is not None and not sel.select(timeout=0):
                break
            continue
        chunk = os.read(p.stdout.fileno(), 1 << 16)
        if not chunk:
            break
        last = time.time()
        buf += chunk
        *full, buf = buf.split(b"\n")
        answers += [x.decode("utf-8", "replace") for x in full]
    try:
        p.wait(timeout=5)
    except Exception:
        p.kill()
    return answers, (rc if rc is not None else p.returncode)


def _batch(cmd, lines, timeout, crash_answer, idle=None):
    """robust batch: if the process dies on request k, record a crash for k and go on with k+1"""
    res = []
    todo = list(lines)
    while todo:
        ans, rc = _run_lines(cmd, todo, timeout, idle)
        ans = [a for a in ans]
        if len(ans) >= len(todo):
            res.extend(ans[:len(todo)])
            break
        # died at request len(ans)
        res.extend(ans)
        res.append(crash_answer(rc))
        todo = todo[len(ans) + 1:]
    return res


def vh_batch(reqs, shards=None, timeout=600, idle=None):
    """reqs: list of dict -> list of dict answers (crashes -> {"crash": rc})"""
    if not reqs:
        return []
    lines = [json.dumps(r, ensure_ascii=True) for r in reqs]
    shards = shards or (NCPU if len(lines) >= 64 else 1)
    chunks = [lines[i::shards] for i in range(shards)]

    def work(ch):
        return _batch([VH], ch, timeout, lambda rc: json.dumps({"crash": str(rc)}), idle)

    with concurrent.futures.ThreadPoolExecutor(shards) as ex:
        outs = list(ex.map(work, chunks))
    res = [None] * len(lines)
    for s, out in enumerate(outs):
        for k, a in enumerate(out):
            try:
                res[s + k * shards] = json.loads(a)
            except Exception:
                res[s + k * shards] = {"garbled": a}
    return res


def drv_batch(lines, shards=None, timeout=600):
    """lines: list of request strings (TAB separated fields) -> list of answer strings"""
    if not lines:
        return []
    shards = shards or (NCPU if len(lines) >= 2000 else 1)
    chunks = [lines[i::shards] for i in range(shards)]

    def work(ch):
        return _batch([DRV], ch, timeout, lambda rc: f"crash {rc}")

    with concurrent.futures.ThreadPoolExecutor(shards) as ex:
        outs = list(ex.map(work, chunks))
    res = [None] * len(lines)
    for s, out in enumerate(outs):
        for k, a in enumerate(out):
            res[s + k * shards] = a
    return res


def enc(s):
    """string -> drv field (space separated code points)"""
    return " ".join(str(ord(c)) for c in s)


def dec(f):
    return "".join(chr(int(w)) for w in f.split(" ") if w)


# -----------------------------------------------------------------------------------------
# builds
# -----------------------------------------------------------------------------------------

def lean_forbidden_scan():
    """grep for sorry/admit/axiom/native_decide/... in the Lean sources, comments discarded"""
    bad = []
    pat = re.compile(r"\b(sorry|admit|native_decide|bv_decide|implemented_by|unsafe)\b|^\s*axiom\s|maxHeartbeats\s+0\b")
    for path in glob.glob(os.path.join(LEAN, "**", "*.lean"), recursive=True):
        if "/.lake/" in path or "/.audit/" in path:
            continue
        text = open(path, encoding="utf-8").read()
        # strip block comments (nested) and line comments
        out, depth, i = [], 0, 0
        while i < len(text):
            if text.startswith("/-", i):
                depth += 1
                i += 2
            elif depth and text.startswith("-/", i):
                depth -= 1
                i += 2
            elif depth:
                if text[i] == "\n":
                    out.append("\n")
                i += 1
            else:
                out.append(text[i])
                i += 1
        for n, line in enumerate("".join(out).split("\n"), 1):
            line = re.sub(r'"(?:[^"\\]|\\.)*"', '""', line)
            line = line.split("--")[0]
            if pat.search(line):
                bad.append(f"{os.path.relpath(path, LEAN)}:{n}: {line.strip()}")
    return bad


def theorems_in(module_file):
    text = open(module_file, encoding="utf-8").read()
    ns = re.search(r"^namespace\s+(\S+)", text, re.M)
    ns = ns.group(1) + "." if ns else ""
    return [ns + m for m in re.findall(r"^(?:private\s+)?theorem\s+([A-Za-z_][A-Za-z0-9_'.]*)", text, re.M)]


def audit(prop_modules):
    """#print axioms for every theorem of the given modules (e.g. PrqlModel.Props.C18).
    returns {theorem: [axioms]} ; raises RuntimeError(text) if lean fails"""
    os.makedirs(os.path.join(LEAN, ".audit"), exist_ok=True)
    names = []
    for m in prop_modules:
        names += theorems_in(os.path.join(LEAN, m.replace(".", "/") + ".lean"))
    tag = hashlib.sha1(" ".join(prop_modules).encode()).hexdigest()[:10]
    f = os.path.join(LEAN, ".audit", f"Audit_{tag}.lean")
    with open(f, "w") as fh:
        for m in prop_modules:
            fh.write(f"import {m}\n")
        for n in names:
            fh.write(f"#print axioms {n}\n")
    rc, out = sh(["lake", "env", "lean", f], cwd=LEAN)
    if rc != 0:
        raise RuntimeError(out)
    res = {}
    for m in re.finditer(r"'([^']+)' (does not depend on any axioms|depends on axioms: \[([^\]]*)\])", out):
        res[m.group(1)] = [a.strip() for a in (m.group(3) or "").replace("\n", " ").split(",") if a.strip()]
    for n in names:
        if n not in res:
            raise RuntimeError(f"no axiom report for {n}\n{out[-2000:]}")
    return res


class BuildResult:
    def __init__(self):
        self.gen = {}            # name -> summary
        self.gen_error = None
        self.lake_ok = {}        # target -> bool
        self.lake_log = ""
        self.drv_ok = False
        self.cargo_ok = False
        self.cargo_log = ""
        self.hooks = False


def build(lean_targets, hooks=True):
    """translators + lake build + cargo build of the harness, serialised by a lock"""
    sys.path.insert(0, os.path.join(ROOT, "tools"))
    import gen
    br = BuildResult()
    with Lock():
        try:
            br.gen = gen.run()
        except gen.ShapeError as e:
            br.gen_error = str(e)
        except FileNotFoundError as e:
            br.gen_error = f"source file missing: {e}"
        # lean: driver first (model only), then each property module
        rc, out = sh(["lake", "build", "drv"], cwd=LEAN)
        br.drv_ok = rc == 0 and os.path.exists(DRV)
        br.lake_log += out[-6000:] if rc != 0 else ""
        for t in lean_targets:
            rc, out = sh(["lake", "build", t], cwd=LEAN)
            br.lake_ok[t] = rc == 0
            if rc != 0:
                br.lake_log += f"\n== lake build {t} ==\n" + out[-8000:]
        # harness
        cmds = []
        if hooks and hooks_available():
            cmds.append(["cargo", "build", "--offline", "--features", "hooks"])
        cmds.append(["cargo", "build", "--offline"])
        for c in cmds:
            rc, out = sh(c, cwd=HARNESS)
            if rc == 0:
                br.cargo_ok = True
                br.hooks = "hooks" in c
                break
            br.cargo_log += out[-6000:]
    return br


def hooks_available():
    try:
        return "verif" in open(os.path.join(REPO, "prqlc/prqlc/Cargo.toml")).read().split("[features]")[1].split("[dependencies]")[0]
    except Exception:
        return False


# -----------------------------------------------------------------------------------------

def replay_correspondence(obj):
    """replay of a `no-failing-input-found` / correspondence file: every recorded (request, real answer) pair is put to the model again.
    Returns 1 if a pair still disagrees (or the file names broken obligations without pairs), 0 if all recorded pairs agree now."""
    items = obj.get("correspondence") or ([obj] if obj.get("kind") == "correspondence" else [])
    print("kind:", obj.get("kind"))
    for b in obj.get("broken_obligations") or []:
        print("broken obligation:", b.get("name"), "-", str(b.get("detail"))[:300])
    still = 0
    for it in items:
        r = it.get("replay") or {}
        print("suite:", it.get("suite"), "-", str(it.get("what"))[:300])
        if isinstance(r.get("request"), str) and isinstance(r.get("real"), str):
            now = drv_batch([r["request"]])[0]
            agree = now == r["real"] or now.split(" atomic=", 1)[-1] == r["real"]
            print("  model now:", now[:300])
            print("  real then:", r["real"][:300], "->", "agree" if agree else "DIFFER")
            still += 0 if agree else 1
        if r.get("prql"):
            print("  program:", r["prql"][-300:].replace("\n", " | "))
    return 1 if (still or (obj.get("broken_obligations") and not items)) else 0

# findings, evidence, verdict
# -----------------------------------------------------------------------------------------

def known_findings(prop):
    p = os.path.join(ROOT, "known_findings.json")
    if not os.path.exists(p):
        return {}
    data = json.load(open(p))
    return {f["id"]: f for f in data.get("findings", [])
            if (f["property"] == prop or prop in f.get("also", [])) and f.get("status") == "open"}


def load_ledger(prop):
    p = os.path.join(ROOT, "known_cases", f"{prop}.json")
    if not os.path.exists(p):
        return None
    return set(json.load(open(p))["cases"])


class Ctx:
    """one run of one property check"""

    def __init__(self, prop, tier, seed):
        self.prop, self.tier, self.seed = prop, tier, seed
        self.t0 = time.time()
        self.rng = random.Random(seed)
        self.obligations = []       # (name, ok, detail)
        self.evaluations = 0
        self.distinct = set()
        self.samples = []
        self.coverage_extra = {}
        self.assumptions = []
        self.violations = []        # dict(kind, what, replay_obj)
        self.known_hits = {}        # finding id -> count
        self.disagreements = 0      # model vs implementation
        self.oracle_failures = 0    # implementation vs property oracle
        self.known = known_findings(prop)
        # ledger of the deterministic (seed-independent) inputs that fail on the recorded tree, by input hash: a listed finding
        # excuses a deterministic case only if that very input is in the ledger (so a NEW failing input of a known symptom class
        # is still reported). Written only by `VERIF_RECORD_LEDGER=1 ./check ..` during development, never by a normal run.
        self.ledger = load_ledger(prop)
        self.recording = os.environ.get("VERIF_RECORD_LEDGER") == "1"
        self.ledger_seen = set()
        self.exhaustive = None
        self.rule = ""
        self.broken = []            # names of broken proof obligations / ties
        self.build = None

    # -- obligations (theorems, gen tables, suites)
    def obligation(self, name, ok, detail=""):
        self.obligations.append((name, bool(ok), detail))
        if not ok:
            self.broken.append(name)

    def case(self, key, nontrivial=True):
        self.evaluations += 1
        if nontrivial:
            self.distinct.add(hashlib.sha1(repr(key).encode()).digest()[:8])

    def sample(self, obj, limit=6):
        if len(self.samples) < limit:
            self.samples.append(obj)

    def count(self, key, n=1):
        d = self.coverage_extra.setdefault("distribution", {})
        d[key] = d.get(key, 0) + n

    # -- failures
    @staticmethod
    def case_hash(*parts):
        return hashlib.sha1(json.dumps(parts, sort_keys=True, default=str).encode()).hexdigest()[:14]

    def oracle_failure(self, finding_id, what, replay_obj, det_key=None):
        """the implementation violates the property on a concrete input. finding_id: classification or None.
        det_key: identity of the input when it comes from a deterministic (seed-independent) stream."""
        self.oracle_failures += 1
        if det_key is not None and finding_id and finding_id in self.known and not self.known[finding_id].get("unstable"):
            h = self.case_hash(det_key)
            if self.recording:
                self.ledger_seen.add(h)
            elif self.ledger is not None and h not in self.ledger:
                what = (f"[same symptom class as known finding `{finding_id}`, but this deterministic input is not in the ledger of "
                        f"inputs that fail on the recorded tree] " + what)
                finding_id = None
        if finding_id and finding_id in self.known:
            self.known_hits[finding_id] = self.known_hits.get(finding_id, 0) + 1
            return
        if len(self.violations) < 20:
            self.violations.append({"kind": "failing-input", "what": what, "replay": replay_obj, "class": finding_id})

    def disagreement(self, suite, what, replay_obj):
        """model and implementation differ (not by itself a violation)"""
        self.disagreements += 1
        if len(self.violations) < 20:
            self.violations.append({"kind": "correspondence", "suite": suite, "what": what, "replay": replay_obj})

    # -- finish
    def finish(self):
        os.makedirs(REPLAY, exist_ok=True)
        if self.recording:
            d = os.path.join(ROOT, "known_cases")
            os.makedirs(d, exist_ok=True)
            path = os.path.join(d, f"{self.prop}.json")
            old = set(json.load(open(path))["cases"]) if os.path.exists(path) else set()
            json.dump({"property": self.prop, "note": "hashes of deterministic inputs that fail with a listed finding on the recorded tree "
                       "(written by VERIF_RECORD_LEDGER=1, union over tiers)", "cases": sorted(old | self.ledger_seen)}, open(path, "w"))
        wall = time.time() - self.t0
        for fid, n in sorted(self.known_hits.items()):
            f = self.known[fid]
            print(f"KNOWN-FINDING: property={self.prop} {fid}: {f.get('what', '')} ({n} case(s) this run)")
        lines = []
        failing = [v for v in self.violations if v["kind"] == "failing-input"]
        corr = [v for v in self.violations if v["kind"] == "correspondence"]
        if failing:
            for v in failing[:5]:
                path = self._write_replay(v)
                lines.append(f"VIOLATION property={self.prop} replay={path}")
        elif self.broken or corr:
            obj = {"kind": "no-failing-input-found",
                   "broken_obligations": [{"name": n, "detail": d} for (n, ok, d) in self.obligations if not ok],
                   "correspondence": corr[:5],
                   "build_log": (self.build.lake_log + self.build.cargo_log)[-6000:] if self.build else "",
                   "gen_error": self.build.gen_error if self.build else None}
            path = self._write_replay(obj)
            lines.append(f"VIOLATION property={self.prop} replay={path} no-failing-input-found")
        n_obl = len(self.obligations)
        n_ok = sum(1 for o in self.obligations if o[1])
        cov = {
            "obligations": n_obl, "discharged": n_ok,
            "checker_cmd": f"cd /verif/lean && lake build PrqlModel.Props.{self.prop} drv && lake env lean .audit/Audit_*.lean  (driven by ./check {self.prop})",
            "trusted_base": TRUSTED_BASE + self.assumptions,
            "evaluations": self.evaluations, "distinct_nontrivial": len(self.distinct),
            "rule": self.rule, "samples": self.samples or ["(none)"],
            "obligation_list": [{"name": n, "ok": ok, "detail": d} for (n, ok, d) in self.obligations],
            "model_vs_implementation_disagreements": self.disagreements,
            "implementation_vs_oracle_failures": self.oracle_failures,
            "known_finding_hits": self.known_hits,
        }
        if self.exhaustive is not None:
            cov["exhaustive"] = self.exhaustive
        cov.update(self.coverage_extra)
        ev = {"property_id": self.prop, "tier": self.tier, "seed": self.seed, "level": "proof",
              "coverage": cov, "assumptions": self.assumptions, "wall_s": round(wall, 2),
              "violations": len(lines)}
        os.makedirs(EVID, exist_ok=True)
        with open(os.path.join(EVID, f"{self.prop}.json"), "w") as f:
            json.dump(ev, f, indent=1, ensure_ascii=True, default=str)
        for l in lines:
            print(l)
        print(f"[{self.prop}] tier={self.tier} seed={self.seed} obligations={n_ok}/{n_obl} evaluations={self.evaluations} "
              f"distinct={len(self.distinct)} disagreements={self.disagreements} oracle_failures={self.oracle_failures} "
              f"known={sum(self.known_hits.values())} wall={wall:.1f}s -> {'VIOLATION' if lines else 'ok'}")
        return 1 if lines else 0

    def _write_replay(self, obj):
        blob = json.dumps(obj, sort_keys=True, default=str, ensure_ascii=True)
        h = hashlib.sha1(blob.encode()).hexdigest()[:12]
        path = os.path.join(REPLAY, f"{self.prop}-{h}.json")
        with open(path, "w") as f:
            json.dump({"property": self.prop, "tier": self.tier, "seed": self.seed, **(obj if isinstance(obj, dict) else {"obj": obj})},
                      f, indent=1, default=str, ensure_ascii=True)
        return path


def standard_proof_obligations(ctx, modules, gen_tables, required_theorems=()):
    """build + audit; records obligations; returns the BuildResult"""
    targets = modules
    br = build(targets)
    ctx.build = br
    if br.gen_error:
        ctx.obligation("translator: source shapes recognised", False, br.gen_error)
    for g in gen_tables:
        if g in br.gen:
            ctx.obligation(f"Gen/{g}.lean regenerated from source", True, json.dumps(br.gen[g]["summary"], default=str)[:1500])
        elif not br.gen_error:
            ctx.obligation(f"Gen/{g}.lean regenerated from source", False, "generator missing")
    ctx.obligation("drv (model driver) builds", br.drv_ok, "" if br.drv_ok else br.lake_log[-1500:])
    ctx.obligation("harness builds against /repo working tree", br.cargo_ok, "" if br.cargo_ok else br.cargo_log[-1500:])
    all_ok = True
    for m in modules:
        ok = br.lake_ok.get(m, False)
        all_ok &= ok
        if not ok:
            ctx.obligation(f"lake build {m}", False, br.lake_log[-3000:])
    bad = lean_forbidden_scan()
    ctx.obligation("no sorry/admit/axiom/native_decide/bv_decide/implemented_by/unsafe/maxHeartbeats 0 in lean sources", not bad, "; ".join(bad[:10]))
    if all_ok:
        try:
            ax = audit(modules)
            for th, axs in sorted(ax.items()):
                extra = [a for a in axs if a not in ALLOWED_AXIOMS]
                ctx.obligation(f"theorem {th}", not extra, "axioms: " + (", ".join(axs) or "none"))
            for r in required_theorems:
                if not any(t.endswith("." + r) or t == r for t in ax):
                    ctx.obligation(f"theorem {r} present", False, "required theorem is missing from the Props module")
        except RuntimeError as e:
            ctx.obligation("axiom audit", False, str(e)[-2000:])
    if ctx.tier == "thorough" and all_ok:
        for m in modules:
            rc, out = sh(["lake", "env", "leanchecker", m], cwd=LEAN)
            ctx.obligation(f"leanchecker {m}", rc == 0, out[-500:])
    return br
